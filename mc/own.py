"""Owning nondeterminism from the harness side (no source hooks).

* ``entropy_tape(value)``: context manager replacing numpy's OS-entropy source so that ``default_rng(None)`` /
  ``SeedSequence()`` become reproducible; counts how many times entropy was drawn (tape position).
* ``global_rng_digest()``: digest of numpy's legacy global RNG state.
* ``trace_returns(code)``: context manager recording (line, value) of every return of a given code object.
"""

from __future__ import annotations

import contextlib
import hashlib
import sys

import numpy as np
import numpy.random.bit_generator as _bg

TAPES = {"t0": 0x243F6A8885A308D313198A2E03707344, "t1": 0xA4093822299F31D0082EFA98EC4E6C89}


class Tape:
    def __init__(self, value: int):
        self.value = value
        self.pos = 0

    def __call__(self, nbits):
        self.pos += 1
        # a different but deterministic value at every draw
        v = (self.value * (2 * self.pos + 1) + self.pos * 0x9E3779B97F4A7C15) % (1 << 128)
        return v % (1 << int(nbits))


@contextlib.contextmanager
def entropy_tape(key_or_value="t0"):
    value = TAPES[key_or_value] if isinstance(key_or_value, str) else int(key_or_value)
    tape = Tape(value)
    old = _bg.randbits
    _bg.randbits = tape
    try:
        yield tape
    finally:
        _bg.randbits = old


def global_rng_digest() -> str:
    st = np.random.get_state()
    h = hashlib.sha1()
    h.update(np.asarray(st[1]).tobytes())
    h.update(repr(st[2:]).encode())
    return h.hexdigest()[:16]


def digest(*arrays) -> str:
    h = hashlib.sha1()
    for a in arrays:
        if a is None:
            h.update(b"None")
            continue
        a = np.asarray(a)
        h.update(str(a.shape).encode() + str(a.dtype).encode())
        h.update(np.ascontiguousarray(a).tobytes())
    return h.hexdigest()[:16]


@contextlib.contextmanager
def trace_returns(code):
    """Record (lineno, repr(value)[:40]) for each return from frames executing `code`."""
    log = []

    def tracer(frame, event, arg):
        if frame.f_code is code:
            def local(frame, event, arg):
                if event == "return":
                    log.append((frame.f_lineno, arg))
                return local
            return local
        return None
    old = sys.gettrace()
    sys.settrace(tracer)
    try:
        yield log
    finally:
        sys.settrace(old)
