"""Known findings: loader, narrow matching (clause + site + input class + as-is model).

``known_findings.json`` is read-only at run time.  An entry with status "open" suppresses a violation only if
  (a) property, clause and call site match,
  (b) the case satisfies the entry's ``input_class`` predicate (a function in INPUT_CLASSES), and
  (c) the observed wrong output is what the entry's ``as_is`` model of the defect predicts (AS_IS).
Entries with status "fixed" suppress nothing.
"""

from __future__ import annotations

import json
import os

_PATH = os.path.join(os.path.dirname(os.path.dirname(os.path.abspath(__file__))), "known_findings.json")
_CACHE = None

INPUT_CLASSES: dict = {}
AS_IS: dict = {}


def input_class(name):
    def deco(fn):
        INPUT_CLASSES[name] = fn
        return fn
    return deco


def as_is(name):
    def deco(fn):
        AS_IS[name] = fn
        return fn
    return deco


def _load():
    global _CACHE
    if _CACHE is None:
        try:
            with open(_PATH) as fh:
                _CACHE = json.load(fh)
        except FileNotFoundError:
            _CACHE = []
    return _CACHE


def entry(kf_id: str) -> dict:
    for e in _load():
        if e.get("id") == kf_id:
            return e
    return {}


def match(pid: str, clause: str, case: dict, res: dict):
    from mc import findings_models  # noqa: F401  (registers predicates / models)

    for e in _load():
        if e.get("status") != "open" or e.get("property") != pid or e.get("clause") != clause:
            continue
        if e.get("site") and e["site"] != res.get("site"):
            continue
        pred = INPUT_CLASSES.get(e.get("input_class_fn", ""))
        model = AS_IS.get(e.get("as_is", ""))
        if pred is None or model is None:
            continue
        try:
            if pred(case, res) and model(case, res):
                return e["id"]
        except Exception:  # noqa: BLE001 - a model that cannot explain the case does not suppress it
            continue
    return None
