"""Explicit-state BFS over call histories; every transition calls the real code (DESIGN section 3).

    explore(make, events, apply, digest, invariant, depth)

* ``make()``            fresh object in the initial state
* ``events``            list of JSON-able event descriptors (small finite menu)
* ``apply(obj, ev)``    performs the event on the live object, returns the observed value
* ``digest(obj)``       canonical digest of everything the property can observe
* ``invariant(obj, hist)``  None or a violation string, evaluated in every state reached
* ``same(a, b)``        equality of observed values (differential oracle: value after history h == value of the same
                        event from the initial state)

A state is rebuilt by replaying its history on a fresh object (live objects are not copied); states are
deduplicated on the digest, but *every* history up to ``depth`` whose prefix reached a new state is extended,
and additionally every history of length <= depth is executed when ``all_histories`` is set (the spaces are tiny).
"""

from __future__ import annotations

import itertools


def explore(make, events, apply, digest, invariant, same, depth, all_histories=True, validate=2):
    stats = {"states": 0, "transitions": 0, "histories": 0, "max_depth": 0, "replayed_twice": 0}
    violations = []
    base_vals = {}
    obj = make()
    d0 = digest(obj)
    seen = {d0}
    stats["states"] = 1
    for i, ev in enumerate(events):
        o = make()
        base_vals[i] = apply(o, ev)
        # replay the single-event history twice: the same schedule must give the same observation
        o2 = make()
        v2 = apply(o2, ev)
        stats["replayed_twice"] += 1
        if not same(base_vals[i], v2, ev):
            violations.append({"kind": "nondeterministic", "history": [ev], "a": base_vals[i], "b": v2})
    frontier = [()]
    for dlen in range(1, depth + 1):
        nxt = []
        hists = itertools.product(range(len(events)), repeat=dlen) if all_histories else (h + (i,) for h in frontier for i in range(len(events)))
        for h in hists:
            o = make()
            val = None
            for k, i in enumerate(h):
                val = apply(o, events[i])
                stats["transitions"] += 1
            stats["histories"] += 1
            msg = invariant(o, [events[i] for i in h])
            if msg:
                violations.append({"kind": "invariant", "history": [events[i] for i in h], "detail": msg})
            if not same(val, base_vals[h[-1]], events[h[-1]]):
                violations.append({"kind": "differential", "history": [events[i] for i in h], "after_history": val,
                                   "from_initial": base_vals[h[-1]]})
            dg = digest(o)
            if dg not in seen:
                seen.add(dg)
                stats["states"] += 1
                nxt.append(h)
            elif all_histories:
                pass
        frontier = nxt
        stats["max_depth"] = dlen
    return stats, violations
