"""CLI: ./check Cnn [--tier quick|thorough] [--clause X] [--replay PATH] [--repo DIR]; ./check --selftest"""

from __future__ import annotations

import argparse
import os
import sys


def main(argv=None) -> int:
    ap = argparse.ArgumentParser()
    ap.add_argument("prop", nargs="?")
    ap.add_argument("--tier", default=os.environ.get("VERIF_TIER", "quick"), choices=["quick", "thorough"])
    ap.add_argument("--clause")
    ap.add_argument("--replay")
    ap.add_argument("--repo", default=os.environ.get("VERIF_REPO", "/repo"))
    ap.add_argument("--selftest", action="store_true")
    ap.add_argument("--jobs", type=int, default=0)
    a = ap.parse_args(argv)
    seed = int(os.environ.get("VERIF_SEED", "0") or 0)
    from mc import engine

    if a.selftest:
        from mc import selftest

        return selftest.main(a.repo)
    if not a.prop:
        ap.error("property id required")
    pid = a.prop.upper()
    if a.replay:
        return engine.replay(pid, a.replay, a.repo)
    return engine.run_property(pid, a.tier, seed, a.repo, a.clause, a.jobs)


if __name__ == "__main__":
    sys.exit(main())
