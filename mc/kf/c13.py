"""Known findings of C13 (narrow: clause + site + input class + as-is model of the defective behaviour)."""

from __future__ import annotations

import numpy as np

from mc.findings import as_is, input_class

ENTRIES = [
    {
        "id": "KF-C13-hs",
        "status": "open",
        "property": "C13",
        "clause": "C13.hs_definition",
        "site": "hilbert_schmidt:value",
        "input_class": "rho != sigma (the traceless Hermitian difference then has at least two non-zero eigenvalues, so "
                       "its spectral norm squared is strictly smaller than Tr((rho-sigma)^2))",
        "input_class_fn": "c13_hs_distinct_states",
        "as_is": "c13_hs_spectral_norm_sq",
        "witness": {"fn": "hilbert_schmidt", "d": 2, "rho": "ket:e0", "sigma": "ket:e1", "form": "c"},
        "what": "hilbert_schmidt returns ||rho-sigma||_inf^2 (np.linalg.norm(ord=2): largest singular value) instead of the "
                "documented Tr((rho-sigma)^2) = ||rho-sigma||_2^2 (Schatten 2-norm); e.g. 1 instead of 2 for two orthogonal "
                "pure states. Not repairable under the pinned suite: test_hilbert_schmidt_bell (and the docstring example) "
                "pin the value 1 for bell(0), bell(3), whose Hilbert-Schmidt distance is 2.",
    }
]


def _pair(case):
    from mc.props import c13

    d = case["d"]
    return c13.state(d, case["rho"], case.get("form", "c")), c13.state(d, case["sigma"], case.get("form", "c"))


@input_class("c13_hs_distinct_states")
def _hs_class(case, res):
    rho, sigma = _pair(case)
    w = np.linalg.eigvalsh(((rho - sigma) + (rho - sigma).conj().T) / 2)
    return int(np.sum(np.abs(w) > 1e-9)) >= 2


@as_is("c13_hs_spectral_norm_sq")
def _hs_model(case, res):
    """The defect model: largest |eigenvalue| of rho - sigma, squared."""
    rho, sigma = _pair(case)
    w = np.linalg.eigvalsh(((rho - sigma) + (rho - sigma).conj().T) / 2)
    model = float(np.max(np.abs(w))) ** 2
    obs = res.get("observed")
    return isinstance(obs, (int, float)) and not isinstance(obs, bool) and abs(float(obs) - model) <= 1e-9 * max(1.0, model)
