"""Known findings for C20: the completely-positive shortcut of completely_bounded_trace_norm."""

import numpy as np

from mc.findings import as_is, input_class

_WHAT = ("completely_bounded_trace_norm returns trace_norm(Phi*(I)) = Tr(J) for completely positive non-trace-preserving maps instead of "
         "the operator norm ||Phi*(I)||_inf; the wrong value 4.0 for np.eye(4) (true 2) is pinned by "
         "test_completely_bounded_trace_norm.py::test_cb_trace_norm, so the one-word fix cannot pass the unedited suite")

ENTRIES = [
    {"id": "KF-C20-cp-shortcut", "status": "open", "property": "C20", "clause": "C20.cb_bracket",
     "site": "completely_bounded_trace_norm:cp_shortcut",
     "input_class": "Choi matrix positive semidefinite by margin and not trace preserving (CP, not a channel)",
     "input_class_fn": "c20_cp_not_channel", "as_is": "c20_trace_of_choi",
     "witness": {"d": 2, "map": "cp:half:F"}, "what": _WHAT},
    {"id": "KF-C20-cp-homogeneity", "status": "open", "property": "C20", "clause": "C20.cb_props",
     "site": "completely_bounded_trace_norm:homogeneity_cp",
     "input_class": "homogeneity pair (Phi, c Phi) in which at least one of the two maps is CP and not a channel",
     "input_class_fn": "c20_homog_cp", "as_is": "c20_homog_trace_model",
     "witness": {"d": 2, "map": "ch:U:F", "what": "homog", "c": "2"}, "what": "consequence of KF-C20-cp-shortcut: " + _WHAT},
    {"id": "KF-C20-cp-spectral", "status": "open", "property": "C20", "clause": "C20.cb_props",
     "site": "completely_bounded_spectral_norm:cp",
     "input_class": "CP map whose dual is CP and not trace preserving (non-unital CP map)",
     "input_class_fn": "c20_spectral_cp", "as_is": "c20_spectral_trace_model",
     "witness": {"d": 2, "map": "ch:ad:0.3", "what": "spectral"},
     "what": "cb spectral norm = cb trace norm of the dual goes through the same shortcut: " + _WHAT},
]


def _J(case):
    from mc.props import c20

    return c20.map_catalogue(case["d"])[case["map"]]


def _model(J, d):
    """As-is behaviour: 1 for channels, Tr(J) for CP maps, None (= correct value, not modelled) otherwise."""
    from mc.props import c20

    k = c20.classify(J, d)
    if k == "channel":
        return 1.0
    if k == "cp":
        return float(np.trace(J).real)
    return None


@input_class("c20_cp_not_channel")
def _c1(case, res):
    from mc.props import c20

    return c20.classify(_J(case), case["d"]) == "cp"


@as_is("c20_trace_of_choi")
def _a1(case, res):
    return abs(res["observed"] - _model(_J(case), case["d"])) < 1e-6


@input_class("c20_homog_cp")
def _c2(case, res):
    from mc.props import c20

    if case.get("what") != "homog":
        return False
    c = c20.SCALARS[case["c"]]
    J = _J(case)
    return "cp" in (c20.classify(J, case["d"]), c20.classify(c * J, case["d"]))


@as_is("c20_homog_trace_model")
def _a2(case, res):
    from mc.props import c20

    d = case["d"]
    c = c20.SCALARS[case["c"]]
    J = _J(case)
    a, b = res["observed"]
    for val, M in ((a, J), (b, c * J)):
        m = _model(M, d)
        if m is None:  # the non-CP member goes through the SDP: must be the true value
            L, U = c20.cb_bracket(M, d)
            if not (L - 1e-3 <= val <= U + 1e-3):
                return False
        elif abs(val - m) > 1e-6:
            return False
    return True


@input_class("c20_spectral_cp")
def _c3(case, res):
    from mc.props import c20

    if case.get("what") != "spectral":
        return False
    return c20.classify(c20.dual_choi(_J(case), case["d"]), case["d"]) == "cp"


@as_is("c20_spectral_trace_model")
def _a3(case, res):
    from mc.props import c20

    return abs(res["observed"] - _model(c20.dual_choi(_J(case), case["d"]), case["d"])) < 1e-6
