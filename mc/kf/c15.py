"""Known findings for C15: has_symmetric_extension's SDP branch never finds an extension."""

from mc.findings import as_is, input_class

_WHAT = ("has_symmetric_extension decides its SDP branch with symmetric_extension_hierarchy([rho]) - the optimal probability of "
         "'distinguishing' a single state, which is always 1 - so the branch returns False for every input, including the maximally "
         "mixed state; is_separable ends with this search and therefore returns False for every state that none of its earlier "
         "criteria decides. A repair needs a real symmetric-extension feasibility SDP (a rewrite of the function), not a small patch.")

ENTRIES = [
    {"id": "KF-C15-symext-sdp", "status": "open", "property": "C15", "clause": "C15.symext",
     "site": "has_symmetric_extension:separable_refused:sdp",
     "input_class": "separable state handled by the SDP branch (level 2 and not (size <= 6 with ppt) and not (2x2 without ppt))",
     "input_class_fn": "c15_symext_sdp_branch", "as_is": "c15_symext_always_false",
     "witness": {"dA": 3, "dB": 3, "idx": [0, 2], "w": [1, 3], "level": 2, "ppt": True}, "what": _WHAT},
    {"id": "KF-C15-separable-final-return", "status": "open", "property": "C15", "clause": "C15.separable",
     "site": "is_separable:separable_declared_entangled:final_return",
     "input_class": "one of the separable inputs listed in mc/kf/c15_witness.json (structured, seed-independent mixtures of product states of total dimension > 6 on which the unchanged tree reaches the final symmetric-extension search)",
     "input_class_fn": "c15_final_return", "as_is": "c15_final_false",
     "witness": {"kind": "separable", "dA": 3, "dB": 3, "idx": [0, 1, 2], "w": [1, 1, 2], "dimform": "list"}, "what": "consequence in is_separable: " + _WHAT},
]


@input_class("c15_symext_sdp_branch")
def _c1(case, res):
    dA, dB = case["dA"], case["dB"]
    return case["level"] == 2 and not (dA * dB <= 6 and case["ppt"]) and not (not case["ppt"] and dA == 2 and dB == 2)


@as_is("c15_symext_always_false")
def _a1(case, res):
    return res.get("observed") is False


_WITNESS = None


def _witness():
    global _WITNESS
    if _WITNESS is None:
        import json
        import os

        with open(os.path.join(os.path.dirname(os.path.abspath(__file__)), "c15_witness.json")) as fh:
            _WITNESS = {w["key"] for w in json.load(fh)["witnesses"]}
    return _WITNESS


@input_class("c15_final_return")
def _c2(case, res):
    # listed one by one (tools/gen_c15_witness.py, run by hand on the unchanged tree): a separable input that is declared
    # entangled but is NOT in this list - e.g. because an earlier sufficient criterion stopped certifying it - is a VIOLATION
    from mc.engine import case_key

    return case.get("kind") == "separable" and case["dA"] * case["dB"] > 6 and case_key(case) in _witness()


@as_is("c15_final_false")
def _a2(case, res):
    # the engine site already encodes that the traced return line is the function's last return statement
    return res.get("observed") is False and (res.get("info") or {}).get("line") is not None
