"""Known findings of C06 (narrow: clause + site + input class + as-is model of the defective behaviour)."""

from __future__ import annotations

import numpy as np

from mc.findings import as_is, input_class

_WHAT = ("is_extremal applies Theorem 2.31 (linear independence of {A_i^dagger A_j}) to the Kraus list exactly as supplied, although "
         "the theorem needs a linearly independent Kraus set: every channel written with a linearly dependent list (repeated, "
         "proportional or zero operators) is declared non-extremal, e.g. is_extremal([I/sqrt2, I/sqrt2]) and "
         "is_extremal(amplitude_damping(gamma=0.3)) (the constructor pads with two zero operators) are False although the identity "
         "and the amplitude damping channel are extreme points. Reducing the list through the Choi matrix repairs it, but "
         "test_is_extremal[phi2-False] / [phi3-False] pin False for [I/sqrt2, I/sqrt2] (flat and nested), so the unedited suite cannot pass.")

ENTRIES = [
    {
        "id": "KF-C06-extremal-dependent-list",
        "status": "open",
        "property": "C06",
        "clause": "C06.predicates",
        "site": "is_extremal:dependent_list",
        "input_class": "an extremal quantum channel presented as a flat / nested / row / pairs Kraus list whose operators are linearly dependent",
        "input_class_fn": "c06_extremal_dependent_list",
        "as_is": "c06_extremal_rank_on_supplied_list",
        "witness": {"map": {"kind": "unitary", "d": 2, "u": "I"}, "rep": "flat_dup", "pred": "is_extremal"},
        "what": _WHAT,
    },
    {
        "id": "KF-C06-extremal-dependent-list-builtin",
        "status": "open",
        "property": "C06",
        "clause": "C06.builtin_flags",
        "site": "is_extremal:dependent_list",
        "input_class": "a built-in constructor returns a Kraus list with zero operators for an extremal channel (amplitude_damping with prob in {0,1}, "
                       "phase_damping / bitflip at the end points)",
        "input_class_fn": "c06_extremal_dependent_list",
        "as_is": "c06_extremal_rank_on_supplied_list",
        "witness": {"ctor": "amplitude_damping", "par": {"gamma": [3, 10], "prob": None}, "pred": "is_extremal"},
        "what": _WHAT,
    },
]


def _supplied_list(case):
    """The Kraus list handed to is_extremal in this case (None if the case does not hand over a list)."""
    from mc.props import c06
    from mc.ref import c06_maps as R

    if "map" in case:
        if case.get("pred") != "is_extremal" or case.get("rep") not in c06.LIST_REPS:
            return None
        m = R.build(case["map"])
        if not R.is_cp_presentation(list(m["pairs"])):
            return None
        obj = R.representation(m, case["rep"])
        return [x[0] if isinstance(x, list) else x for x in (obj[0] if case["rep"] == "row" else obj)]
    if "ctor" in case:
        if case.get("pred") != "is_extremal":
            return None
        obj, exc = c06.ctor_call(case["ctor"], case["par"])
        if exc is not None or not isinstance(obj, list):
            return None
        return [np.asarray(k, dtype=complex) for k in obj]
    return None


@input_class("c06_extremal_dependent_list")
def _cls(case, res):
    from mc.ref import c06_maps as R

    ks = _supplied_list(case)
    return ks is not None and R.list_dependence(ks) is True and res.get("expected") is True


@as_is("c06_extremal_rank_on_supplied_list")
def _model(case, res):
    """The defect model: rank of [vec(A_i^dagger A_j)] over the list as supplied, compared with len(list)^2 (tol 1e-9)."""
    ks = _supplied_list(case)
    r = len(ks)
    model = True if r == 1 else bool(np.linalg.matrix_rank(np.column_stack([(a.conj().T @ b).flatten() for a in ks for b in ks]), tol=1e-9) == r * r)
    return res.get("observed") is model
