"""Known findings for C19."""

from mc.findings import as_is, input_class

ENTRIES = [
    {"id": "KF-C19-bures-rank", "status": "open", "property": "C19", "clause": "C19.validity",
     "site": "random_density_matrix:rank:bures",
     "input_class": "distance_metric='bures' with k_param = 1 < dim",
     "input_class_fn": "c19_bures_k1", "as_is": "c19_bures_full_rank",
     "witness": {"gen": "random_density_matrix", "d": 2, "real": False, "k": 1, "metric": "bures", "seed": 0},
     "what": "random_density_matrix(distance_metric='bures') computes U + (I @ G) instead of (U + I) @ G; for k_param=1 the (dim,1) "
             "Ginibre column is broadcast against U and the result has full rank > k_param. The k_param=dim value of the same "
             "expression is pinned by test_random_density_matrix.py::test_seed, so the operator-precedence fix cannot pass the unedited suite."},
    {"id": "KF-C19-bures-shape", "status": "open", "property": "C19", "clause": "C19.validity",
     "site": "random_density_matrix:exception:bures",
     "input_class": "distance_metric='bures' with k_param not in {1, dim}",
     "input_class_fn": "c19_bures_kmid", "as_is": "c19_bures_broadcast_error",
     "witness": {"gen": "random_density_matrix", "d": 3, "real": False, "k": 2, "metric": "bures", "seed": 0},
     "what": "same expression: U (dim x dim) + G (dim x k_param) cannot be broadcast for 1 < k_param != dim, so no density matrix of "
             "the requested rank is returned (ValueError from numpy); same pinned test prevents the fix."},
]


@input_class("c19_bures_k1")
def _k1(case, res):
    return case.get("gen") == "random_density_matrix" and case.get("metric") == "bures" and case.get("k") == 1 and case.get("d", 0) > 1


@as_is("c19_bures_full_rank")
def _full_rank(case, res):
    return res.get("observed") == case["d"]


@input_class("c19_bures_kmid")
def _kmid(case, res):
    k = case.get("k")
    return case.get("gen") == "random_density_matrix" and case.get("metric") == "bures" and k is not None and k not in (1, case.get("d"))


@as_is("c19_bures_broadcast_error")
def _bcast(case, res):
    d, k = case["d"], case["k"]
    return f"operands could not be broadcast together with shapes ({d},{d}) ({d},{k})" in str(res.get("detail"))
