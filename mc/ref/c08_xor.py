"""Reference models for C08 (XOR games, Bell-inequality maximiser).  Boring Python + numpy primitives that are not the
mechanism under test (eigh / eigvalsh / dot products); cvxpy + CLARABEL only to *propose* points that are then verified
by plain arithmetic.

Conventions read from toqito/nonlocal_games/xor_game.py and toqito/state_opt/bell_inequality_max.py:

* ``prob_mat[x, y]`` = pi(x, y); ``pred_mat[x, y]`` = f(x, y) in {0, 1}; the players win iff a xor b = f(x, y).
* bias matrix D = pi o (-1)^f;  classical value = 1/2 + 1/2 max_{a in {+-1}^X, b in {+-1}^Y} sum D_xy a_x b_y;
  quantum value = 1/2 + 1/2 max_{unit vectors u_x, v_y} sum D_xy <u_x, v_y>  (Tsirelson).
* converted general game: V(a, b | x, y) = [a xor b == f(x, y)], two answers per player.
* ``bell_inequality_max(joint_coe, a_coe, b_coe, a_val, b_val)``: the Bell expression is
  sum_xy joint[x, y] <A_x B_y> + sum_x a_coe[x] <A_x> + sum_y b_coe[y] <B_y> with A_x = a_val[0] P + a_val[1] (1 - P)
  for the projector P of outcome 0 (same for B with b_val).

Contents
* exact part (Fractions / integers): distributions as integer weight matrices, predicate from a bit code, +-1 brute
  force, converted predicate tensor, closed-form helpers;
* ``bracket(D)``: certified [L, U] around the optimal quantum bias (explicit unit vectors / explicit dual point);
* ``jordan_max(...)``: quantum maximum of a two-setting two-outcome Bell expression by Jordan's lemma.
"""

from __future__ import annotations

import itertools
import math
from fractions import Fraction

import numpy as np

KG_UPPER = 1.7823  # Krivine's upper bound on the real Grothendieck constant (pi / (2 ln(1 + sqrt 2)) = 1.78221...)


# ================================================================================================ exact part
def pred_from_code(X: int, Y: int, code: int):
    """f[x][y] = bit number x*Y + y of ``code`` (row-major, least significant bit first)."""
    return [[(code >> (x * Y + y)) & 1 for y in range(Y)] for x in range(X)]


def dist_weights(X: int, Y: int, key: str, seed_rng=None):
    """Integer weight matrix W (pi = W / sum W) for a distribution key, or None if the key is not defined for the shape.

    uniform   all ones
    skew      product of non-monotone marginals (1,2,3,4)[:X] x (2,3,1,5)[:Y]
    zrow      a zero row (row 0) when X >= 2, otherwise a zero column (column 0) when Y >= 2; the rest pairwise distinct
    zent      one zero entry (the last row's first entry; for 1 x Y the second entry), the rest pairwise distinct
    g<k>      seed-derived: pairwise distinct integers in [1, 60] from the supplied generator
    """
    if key == "uniform":
        return [[1] * Y for _ in range(X)]
    if key == "skew":
        a = (1, 2, 3, 4, 6)[:X]
        b = (2, 3, 1, 5, 4)[:Y]
        return [[a[x] * b[y] for y in range(Y)] for x in range(X)]
    if key == "zrow":
        if X * Y < 2:
            return None
        w = [[1 + ((3 * x + 5 * y + x * y) % 7) + x * Y + y for y in range(Y)] for x in range(X)]
        if X >= 2:
            w[0] = [0] * Y
        else:
            for x in range(X):
                w[x][0] = 0
        return w
    if key == "zent":
        if X * Y < 2:
            return None
        w = [[2 + ((2 * x + 3 * y) % 5) + 2 * (x * Y + y) for y in range(Y)] for x in range(X)]
        if X >= 2:
            w[X - 1][0] = 0
        else:
            w[0][1] = 0
        return w
    if key.startswith("g"):
        if seed_rng is None:
            raise ValueError("generic distribution needs a generator")
        n = X * Y
        vals = seed_rng.permutation(np.arange(1, 61))[:n]
        return [[int(vals[x * Y + y]) for y in range(Y)] for x in range(X)]
    raise KeyError(key)


def prob_fractions(W):
    tot = sum(sum(r) for r in W)
    return [[Fraction(w, tot) for w in r] for r in W]


def prob_floats(W) -> np.ndarray:
    tot = sum(sum(r) for r in W)
    return np.array([[w / tot for w in r] for r in W], dtype=float)


def signed_weights(W, f):
    """Integer bias numerators S[x][y] = W[x][y] * (-1)^f[x][y]; D = S / sum W."""
    return [[(-w if f[x][y] else w) for y, w in enumerate(r)] for x, r in enumerate(W)]


def classical_pm1(S):
    """max over a in {+-1}^X, b in {+-1}^Y of sum_xy S[x][y] a_x b_y by brute force over all 2^(X+Y) assignments
    (exact integers).  Returns (max, argmax a, argmax b)."""
    X, Y = len(S), len(S[0])
    best = None
    for a in itertools.product((1, -1), repeat=X):
        for b in itertools.product((1, -1), repeat=Y):
            s = 0
            for x in range(X):
                for y in range(Y):
                    s += S[x][y] * a[x] * b[y]
            if best is None or s > best[0]:
                best = (s, a, b)
    return best


def classical_pm1_best_response(S):
    """Same maximum: enumerate Alice's signs only, Bob best-responds per question (sum_y |sum_x S_xy a_x|)."""
    X, Y = len(S), len(S[0])
    best = None
    for a in itertools.product((1, -1), repeat=X):
        s = sum(abs(sum(S[x][y] * a[x] for x in range(X))) for y in range(Y))
        if best is None or s > best:
            best = s
    return best


def converted_pred(f):
    """pred[a][b][x][y] = 1 iff a xor b == f[x][y] (nested lists of ints, toqito's (a, b, x, y) index order)."""
    X, Y = len(f), len(f[0])
    return [[[[1 if (a ^ b) == f[x][y] else 0 for y in range(Y)] for x in range(X)] for b in range(2)] for a in range(2)]


def general_classical(W, pred):
    """Exact classical value of a general game with integer question weights: max over all answer functions
    (numerator, denominator).  Independent of the +-1 formulation: it scores the predicate tensor literally."""
    A, B = len(pred), len(pred[0])
    X, Y = len(W), len(W[0])
    best = None
    for fa in itertools.product(range(A), repeat=X):
        for gb in itertools.product(range(B), repeat=Y):
            s = 0
            for x in range(X):
                for y in range(Y):
                    s += W[x][y] * pred[fa[x]][gb[y]][x][y]
            if best is None or s > best:
                best = s
    return best, sum(sum(r) for r in W)


def odd_cycle(n: int):
    """Odd-cycle game on n vertices: pi uniform on {(x, x), (x, x+1 mod n)}, f = 1 on exactly the edge pair (x, x+1)
    (the players must answer equally on equal vertices and differently across an edge)."""
    W = [[0] * n for _ in range(n)]
    f = [[0] * n for _ in range(n)]
    for x in range(n):
        W[x][x] = 1
        W[x][(x + 1) % n] = 1
        f[x][(x + 1) % n] = 1
    return W, f


# ================================================================================================ certified bracket
def _unit_rows(M):
    out = []
    for r in M:
        nrm = math.sqrt(float(np.dot(r, r)))
        if nrm < 1e-9:
            e = np.zeros_like(r)
            e[0] = 1.0
            out.append(e)
        else:
            out.append(r / nrm)
    return np.array(out)


def attained(D, us, vs) -> float:
    """sum_xy D_xy <u_x, v_y> by explicit dot products; every vector is first checked to have unit norm."""
    for w in list(us) + list(vs):
        if abs(float(np.dot(w, w)) - 1.0) > 1e-12:
            raise RuntimeError("harness: strategy vector is not a unit vector")
    s = 0.0
    for x in range(D.shape[0]):
        for y in range(D.shape[1]):
            if D[x, y] != 0.0:
                s += D[x, y] * float(np.dot(us[x], vs[y]))
    return s


def polish(D, us, vs, sweeps=200):
    """Deterministic alternating best response: u_x <- normalise(sum_y D_xy v_y), v_y <- normalise(sum_x D_xy u_x).
    Never decreases the attained value; the result is again an explicit family of unit vectors."""
    us, vs = np.array(us, dtype=float), np.array(vs, dtype=float)
    last = attained(D, us, vs)
    for _ in range(sweeps):
        gu = D @ vs
        for x in range(len(us)):
            n = math.sqrt(float(np.dot(gu[x], gu[x])))
            if n > 1e-14:
                us[x] = gu[x] / n
        gv = D.T @ us
        for y in range(len(vs)):
            n = math.sqrt(float(np.dot(gv[y], gv[y])))
            if n > 1e-14:
                vs[y] = gv[y] / n
        us, vs = _unit_rows(us), _unit_rows(vs)
        cur = attained(D, us, vs)
        if cur - last < 1e-15:
            break
        last = cur
    return us, vs


def dual_matrix(D, u, v):
    X, Y = D.shape
    return np.block([[np.diag(u), -D], [-D.T, np.diag(v)]])


def dual_bound(D, u, v):
    """Repair (u, v) into an exactly dual-feasible point by a uniform shift, verify [[diag u, -D], [-D^T, diag v]] >= 0 by
    eigvalsh, return the certified upper bound 1/2 (sum u + sum v) on the bias (or None)."""
    u, v = np.array(u, dtype=float), np.array(v, dtype=float)
    lam = float(np.linalg.eigvalsh(dual_matrix(D, u, v))[0])
    if lam < 1e-13:
        shift = -lam + 1e-13
        u, v = u + shift, v + shift
    if float(np.linalg.eigvalsh(dual_matrix(D, u, v))[0]) < -1e-15:
        return None
    return 0.5 * (float(u.sum()) + float(v.sum())), u, v


def bracket(D, start=None):
    """Certified bracket L <= max_{unit u_x, v_y} sum D_xy <u_x, v_y> <= U.

    L is the value attained by explicit unit vectors (Gram solution of the harness's own primal SDP, factorised by eigh,
    rows normalised, then polished by alternating best response; ``start`` = optional +-1 assignment used as a second
    starting point), evaluated by dot products.  U = 1/2 (sum u + sum v) for an explicit (u, v) whose block matrix is
    verified PSD with eigvalsh; candidates: the harness's own dual SDP (CLARABEL) and the Lagrange multipliers read off
    the primal vectors (u_x = |sum_y D_xy v_y|, v_y = |sum_x D_xy u_x|).  Weak duality makes [L, U] valid whatever the
    solver returned.  Returns dict(L, U, us, vs, u, v, solver_ok)."""
    import cvxpy as cp

    D = np.asarray(D, dtype=float)
    X, Y = D.shape
    n = X + Y
    cands = []
    solver_ok = True
    try:
        G = cp.Variable((n, n), symmetric=True)
        prim = cp.Problem(cp.Maximize(cp.sum(cp.multiply(D, G[:X, X:]))), [G >> 0, cp.diag(G) == 1])
        prim.solve(solver=cp.CLARABEL)
        if G.value is None:
            raise RuntimeError("no primal value")
        w, V = np.linalg.eigh((G.value + G.value.T) / 2)
        w = np.clip(w, 0.0, None)
        R = _unit_rows(V * np.sqrt(w))
        cands.append((R[:X], R[X:]))
    except Exception:  # noqa: BLE001 - solver failure only loses one starting point
        solver_ok = False
    if start is not None:
        a, b = start
        e = np.zeros(n)
        e[0] = 1.0
        cands.append((np.array([ai * e for ai in a]), np.array([bi * e for bi in b])))
    if not cands:
        return None
    best = None
    for us, vs in cands:
        us, vs = polish(D, us, vs)
        val = attained(D, us, vs)
        if best is None or val > best[0]:
            best = (val, us, vs)
    L, us, vs = best

    ducands = []
    try:
        uv = cp.Variable(X)
        vv = cp.Variable(Y)
        dual = cp.Problem(cp.Minimize(0.5 * (cp.sum(uv) + cp.sum(vv))),
                          [cp.bmat([[cp.diag(uv), -D], [-D.T, cp.diag(vv)]]) >> 0])
        dual.solve(solver=cp.CLARABEL)
        if uv.value is not None and vv.value is not None:
            ducands.append((np.asarray(uv.value, dtype=float), np.asarray(vv.value, dtype=float)))
    except Exception:  # noqa: BLE001
        solver_ok = False
    gu = D @ vs
    gv = D.T @ us
    ducands.append((np.sqrt((gu * gu).sum(axis=1)), np.sqrt((gv * gv).sum(axis=1))))
    ub = None
    for u, v in ducands:
        r = dual_bound(D, u, v)
        if r is not None and (ub is None or r[0] < ub[0]):
            ub = r
    if ub is None:
        return None
    U, u, v = ub
    if L > U + 1e-12:
        raise RuntimeError(f"harness: weak duality violated by the harness's own certificate (L={L}, U={U})")
    return {"L": L, "U": U, "us": us, "vs": vs, "u": u, "v": v, "solver_ok": solver_ok}


# ================================================================================================ Jordan-lemma oracle
_Z = np.array([[1.0, 0.0], [0.0, -1.0]])
_X = np.array([[0.0, 1.0], [1.0, 0.0]])
_I2 = np.eye(2)


def observable(vals, theta):
    """vals[0] P + vals[1] (1 - P) with P = (1 + cos(theta) Z + sin(theta) X) / 2, the rank-one projector of outcome 0."""
    v0, v1 = float(vals[0]), float(vals[1])
    return 0.5 * (v0 + v1) * _I2 + 0.5 * (v0 - v1) * (math.cos(theta) * _Z + math.sin(theta) * _X)


def kron2(P, Q):
    """Kronecker product of two 2x2 matrices, written out."""
    out = np.empty((4, 4))
    out[:2, :2] = P[0, 0] * Q
    out[:2, 2:] = P[0, 1] * Q
    out[2:, :2] = P[1, 0] * Q
    out[2:, 2:] = P[1, 1] * Q
    return out


def bell_operator(J, ac, bc, A, B):
    """sum J_xy A_x (x) B_y + sum a_x A_x (x) 1 + sum b_y 1 (x) B_y for explicit 2x2 observables
    (grouped as sum_x A_x (x) (sum_y J_xy B_y + a_x 1) + 1 (x) sum_y b_y B_y)."""
    op = kron2(_I2, bc[0] * B[0] + bc[1] * B[1])
    for x in range(2):
        op += kron2(A[x], J[x][0] * B[0] + J[x][1] * B[1] + ac[x] * _I2)
    return op


def _lam(J, ac, bc, av, bv, ta, tb) -> float:
    A = [observable(av, 0.0), observable(av, ta)]
    B = [observable(bv, 0.0), observable(bv, tb)]
    return float(np.linalg.eigvalsh(bell_operator(J, ac, bc, A, B))[-1])


def _grid_lam(J, ac, bc, av, bv, n):
    """lambda_max on the n x n grid of (theta_A1, theta_B1) in [0, 2 pi)^2, batched."""
    th = np.arange(n) * (2 * math.pi / n)
    sa, da = 0.5 * (av[0] + av[1]), 0.5 * (av[0] - av[1])
    sb, db = 0.5 * (bv[0] + bv[1]), 0.5 * (bv[0] - bv[1])
    A0 = sa * _I2 + da * _Z
    B0 = sb * _I2 + db * _Z
    A1 = sa * _I2[None] + da * (np.cos(th)[:, None, None] * _Z[None] + np.sin(th)[:, None, None] * _X[None])  # n,2,2
    B1 = sb * _I2[None] + db * (np.cos(th)[:, None, None] * _Z[None] + np.sin(th)[:, None, None] * _X[None])

    def kr(P, Q):  # batched kron of (..,2,2) arrays -> (..,4,4)
        out = np.einsum("...ij,...kl->...ikjl", P, Q)
        return out.reshape(out.shape[:-4] + (4, 4))
    op = np.zeros((n, n, 4, 4))
    op += J[0][0] * kr(A0, B0)[None, None]
    op += J[0][1] * kr(np.broadcast_to(A0, (n, 2, 2)), B1)[None, :, :, :]
    op += J[1][0] * kr(A1, np.broadcast_to(B0, (n, 2, 2)))[:, None, :, :]
    op += J[1][1] * kr(A1[:, None], B1[None, :])
    op += ac[0] * kr(A0, _I2)[None, None] + bc[0] * kr(_I2, B0)[None, None]
    op += ac[1] * kr(A1, np.broadcast_to(_I2, (n, 2, 2)))[:, None]
    op += bc[1] * kr(np.broadcast_to(_I2, (n, 2, 2)), B1)[None, :]
    return th, np.linalg.eigvalsh(op)[..., -1]


def _refine(fn, ta, tb, step, diagonal=True):
    """Deterministic coordinate pattern search (step halving) from (ta, tb)."""
    best = fn(ta, tb)
    moves = ((1, 0), (-1, 0), (0, 1), (0, -1), (1, 1), (1, -1), (-1, 1), (-1, -1)) if diagonal else ((1, 0), (-1, 0))
    while step > 1e-7:
        moved = False
        for da, db in moves:
            val = fn(ta + da * step, tb + db * step)
            if val > best + 1e-15:
                best, ta, tb, moved = val, ta + da * step, tb + db * step, True
        if not moved:
            step /= 2
    return best, ta, tb


def deterministic_max(J, ac, bc, av, bv):
    """Best of the 16 deterministic assignments (each observable takes one of its two outcome values)."""
    best = None
    for a0, a1, b0, b1 in itertools.product(range(2), repeat=4):
        A = (av[a0], av[a1])
        B = (bv[b0], bv[b1])
        s = sum(J[x][y] * A[x] * B[y] for x in range(2) for y in range(2))
        s += sum(ac[x] * A[x] for x in range(2)) + sum(bc[y] * B[y] for y in range(2))
        if best is None or s > best:
            best = s
    return float(best)


def degenerate_max(J, ac, bc, av, bv):
    """All patterns in which at least one observable is a constant (projector 0 or 1, i.e. one of the two outcome values
    times the identity); by Jordan's lemma these are dominated by the rank-one family, they are evaluated anyway.  Within a
    party with one constant observable the other direction can be fixed (theta = 0); a party with two directions keeps one
    free angle (64-point grid + refinement)."""
    def party(vals):
        opts = [("dd", None)]
        for c in (0, 1):
            opts.append(("cd", (vals[c] * _I2, None)))
            opts.append(("dc", (None, vals[c] * _I2)))
        for c0 in (0, 1):
            for c1 in (0, 1):
                opts.append(("cc", (vals[c0] * _I2, vals[c1] * _I2)))
        return opts
    best = -math.inf
    for ka, fa in party(av):
        for kb, fb in party(bv):
            if ka == "dd" and kb == "dd":
                continue

            def build(ta, tb, ka=ka, fa=fa, kb=kb, fb=fb):
                if ka == "dd":
                    A = [observable(av, 0.0), observable(av, ta)]
                else:
                    A = [fa[0] if fa[0] is not None else observable(av, 0.0), fa[1] if fa[1] is not None else observable(av, 0.0)]
                if kb == "dd":
                    B = [observable(bv, 0.0), observable(bv, tb)]
                else:
                    B = [fb[0] if fb[0] is not None else observable(bv, 0.0), fb[1] if fb[1] is not None else observable(bv, 0.0)]
                return float(np.linalg.eigvalsh(bell_operator(J, ac, bc, A, B))[-1])
            if ka != "dd" and kb != "dd":
                best = max(best, build(0.0, 0.0))
            else:
                grid = [k * (2 * math.pi / 32) for k in range(32)]
                vals = [(build(t, t), t) for t in grid]
                v0, t = max(vals, key=lambda p: p[0])
                r, _, _ = _refine(lambda ta, tb: build(ta, ta), t, t, math.pi / 32, diagonal=False)
                best = max(best, r)
    return best


def jordan_max(J, ac, bc, av, bv, grid=96, keep=8):
    """Quantum maximum of a (2 settings, 2 outcomes) Bell expression.  Jordan's lemma: two projectors block-diagonalise
    simultaneously into blocks of size <= 2, so the optimum is attained on two qubits with real rank-one projective
    measurements in the Z-X plane (1x1 blocks = deterministic behaviour of that party, embedded as A_1 = +-A_0); local
    rotations fix theta_A0 = theta_B0 = 0.  lambda_max of the 4x4 Bell operator is maximised over (theta_A1, theta_B1) on a
    ``grid`` x ``grid`` lattice, the ``keep`` best local maxima of the lattice are refined by a deterministic pattern search.
    Every value returned is *attained* by an explicit strategy, hence a lower bound on the true quantum maximum.
    Returns dict(value, rank1, degenerate, deterministic, angles)."""
    J = [[float(J[x][y]) for y in range(2)] for x in range(2)]
    ac = [float(t) for t in ac]
    bc = [float(t) for t in bc]
    av = [float(t) for t in av]
    bv = [float(t) for t in bv]
    th, lam = _grid_lam(J, ac, bc, av, bv, grid)
    # lattice points that are local maxima of the (periodic) lattice, best first
    peak = np.ones_like(lam, dtype=bool)
    for di in (-1, 0, 1):
        for dj in (-1, 0, 1):
            if di or dj:
                peak &= lam >= np.roll(np.roll(lam, di, axis=0), dj, axis=1) - 1e-12
    score = np.where(peak, lam, -np.inf)
    flat = [int(i) for i in np.argsort(-score, axis=None, kind="stable")[:keep] if np.isfinite(score.flat[int(i)])]
    best = (-math.inf, 0.0, 0.0)

    def fn(ta, tb):
        return _lam(J, ac, bc, av, bv, ta, tb)
    for idx in flat:
        i, j = divmod(int(idx), grid)
        if abs(fn(th[i], th[j]) - lam[i, j]) > 1e-9:
            raise RuntimeError("harness: batched and scalar Bell operators disagree")
        r = _refine(fn, float(th[i]), float(th[j]), math.pi / grid)
        if r[0] > best[0]:
            best = r
    det = deterministic_max(J, ac, bc, av, bv)
    deg = degenerate_max(J, ac, bc, av, bv)
    return {"value": max(best[0], deg, det), "rank1": best[0], "degenerate": deg, "deterministic": det,
            "angles": [best[1], best[2]]}
