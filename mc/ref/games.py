"""Reference models for two-player nonlocal games (C07): exact, boring Python (loops, itertools, Fractions).

Conventions (the ones documented by ``NonlocalGame``): ``pred[a][b][x][y]`` = V(a,b|x,y), ``prob[x][y]`` = pi(x,y).
Everything is nested Python lists of ``fractions.Fraction``; nothing here imports toqito or numpy.

* ``classical_bruteforce``     max over ALL pairs (f, g) in A^X x B^Y of sum_xy pi(x,y) V(f(x), g(y) | x, y)
* ``classical_best_response``  enumerate one player's functions, the other best-responds per question (either side)
* ``product_game``             r-fold parallel repetition, Kronecker (most-significant-first) index order
* ``bcs_game``                 binary-constraint-system game: Alice gets a constraint and answers an assignment,
                               Bob gets a variable and answers its value
"""

from __future__ import annotations

import itertools
from fractions import Fraction
from math import gcd


def shape_of(pred):
    return len(pred), len(pred[0]), len(pred[0][0]), len(pred[0][0][0])


def frac_tensor(shape, fn):
    """Nested list T[i0][i1][..] = Fraction(fn(i0, i1, ..))."""
    def rec(prefix, dims):
        if not dims:
            return Fraction(fn(*prefix))
        return [rec(prefix + (i,), dims[1:]) for i in range(dims[0])]
    return rec((), tuple(shape))


def _int_weights(prob, pred):
    """W[x][y][a][b] = pi(x,y) * V(a,b|x,y) as integers over one common denominator D."""
    A, B, X, Y = shape_of(pred)
    if len(prob) != X or any(len(r) != Y for r in prob):
        raise ValueError("prob shape does not match pred shape")
    fr = [[[[Fraction(prob[x][y]) * Fraction(pred[a][b][x][y]) for b in range(B)] for a in range(A)]
           for y in range(Y)] for x in range(X)]
    D = 1
    for x in range(X):
        for y in range(Y):
            for a in range(A):
                for b in range(B):
                    d = fr[x][y][a][b].denominator
                    D = D * d // gcd(D, d)
    W = [[[[int(fr[x][y][a][b] * D) for b in range(B)] for a in range(A)] for y in range(Y)] for x in range(X)]
    return W, D, (A, B, X, Y)


def classical_bruteforce(prob, pred) -> Fraction:
    """The definition, literally: every pair of deterministic answer functions is scored."""
    W, D, (A, B, X, Y) = _int_weights(prob, pred)
    best = None
    for f in itertools.product(range(A), repeat=X):
        rows = [[W[x][y][f[x]] for y in range(Y)] for x in range(X)]  # rows[x][y][b]
        for g in itertools.product(range(B), repeat=Y):
            s = 0
            for x in range(X):
                rx = rows[x]
                for y in range(Y):
                    s += rx[y][g[y]]
            if best is None or s > best:
                best = s
    return Fraction(best, D)


def classical_best_response(prob, pred, enumerate_player: str = "bob") -> Fraction:
    """Enumerate the functions of one player; the other answers each question with the best answer."""
    W, D, (A, B, X, Y) = _int_weights(prob, pred)
    best = None
    if enumerate_player == "bob":
        for g in itertools.product(range(B), repeat=Y):
            s = 0
            for x in range(X):
                s += max(sum(W[x][y][a][g[y]] for y in range(Y)) for a in range(A))
            if best is None or s > best:
                best = s
    elif enumerate_player == "alice":
        for f in itertools.product(range(A), repeat=X):
            s = 0
            for y in range(Y):
                s += max(sum(W[x][y][f[x]][b] for x in range(X)) for b in range(B))
            if best is None or s > best:
                best = s
    else:
        raise KeyError(enumerate_player)
    return Fraction(best, D)


def num_strategies(shape):
    A, B, X, Y = shape
    return A ** X, B ** Y


def digits(n: int, base: int, length: int):
    """Most-significant-first digits of n in the given base."""
    out = [0] * length
    for k in range(length - 1, -1, -1):
        n, out[k] = divmod(n, base)
    return out


def product_game(prob, pred, reps: int):
    """r-fold product: questions/answers are r-tuples encoded most-significant-first (Kronecker order)."""
    A, B, X, Y = shape_of(pred)
    prob_r = [[None] * (Y ** reps) for _ in range(X ** reps)]
    for xs in range(X ** reps):
        xd = digits(xs, X, reps)
        for ys in range(Y ** reps):
            yd = digits(ys, Y, reps)
            p = Fraction(1)
            for k in range(reps):
                p *= Fraction(prob[xd[k]][yd[k]])
            prob_r[xs][ys] = p
    pred_r = [[[[None] * (Y ** reps) for _ in range(X ** reps)] for _ in range(B ** reps)] for _ in range(A ** reps)]
    for a_s in range(A ** reps):
        ad = digits(a_s, A, reps)
        for b_s in range(B ** reps):
            bd = digits(b_s, B, reps)
            for xs in range(X ** reps):
                xd = digits(xs, X, reps)
                for ys in range(Y ** reps):
                    yd = digits(ys, Y, reps)
                    v = Fraction(1)
                    for k in range(reps):
                        v *= Fraction(pred[ad[k]][bd[k]][xd[k]][yd[k]])
                    pred_r[a_s][b_s][xs][ys] = v
    return prob_r, pred_r


# ------------------------------------------------------------------------------------------------ BCS games
def bcs_eval(table: int, n: int, assignment) -> int:
    """Constraint = truth table packed in an integer: bit number sum_i assignment[i] * 2^(n-1-i) (variable 0 is the
    most significant position of the row index)."""
    idx = 0
    for v in assignment:
        idx = idx * 2 + int(v)
    return (table >> idx) & 1


def bcs_depends(table: int, n: int):
    dep = []
    for i in range(n):
        d = False
        for asg in itertools.product((0, 1), repeat=n):
            flipped = list(asg)
            flipped[i] ^= 1
            if bcs_eval(table, n, asg) != bcs_eval(table, n, flipped):
                d = True
        dep.append(d)
    return dep


def bcs_game(tables, n: int, msb_first: bool = True):
    """(prob, pred) of the BCS game: x = constraint, a = assignment (integer encoding of the n bits), y = variable,
    b = value.  V = 1 iff the assignment satisfies constraint x and b equals the assignment's value of variable y.
    pi = uniform over constraints times uniform over the variables the constraint depends on."""
    m = len(tables)
    prob = [[Fraction(0)] * n for _ in range(m)]
    for x, t in enumerate(tables):
        dep = bcs_depends(t, n)
        k = sum(dep)
        for y in range(n):
            if dep[y]:
                prob[x][y] = Fraction(1, m * k)
    pred = frac_tensor((2 ** n, 2, m, n), lambda a, b, x, y: 0)
    for a in range(2 ** n):
        bits = digits(a, 2, n)
        if not msb_first:
            bits = bits[::-1]
        for x, t in enumerate(tables):
            sat = bcs_eval(t, n, bits)
            for y in range(n):
                for b in (0, 1):
                    pred[a][b][x][y] = Fraction(1 if (sat and b == bits[y]) else 0)
    return prob, pred
