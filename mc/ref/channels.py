"""Reference model for linear maps on matrix spaces (C04, C05; also usable by C06/C20).

A map  Phi : M_{in_r x in_c} -> M_{out_r x out_c}  is a list of pairs (A_t, B_t), A_t of shape (out_r, in_r), B_t of
shape (out_c, in_c), acting as                Phi(X) = sum_t  A_t X B_t^dagger.
Completely positive maps have B_t = A_t.  Everything below is "boring": explicit loops over the Kraus index and over
matrix / tensor indices; numpy is used only for `@`, `.conj().T`, `kron`, `eigh`, `svd` (none of which is the
mechanism under test: which factor is conjugated, which index is major, which dimension is input or output).

Conventions (DESIGN 9.1, re-confirmed against the docstrings):
  * Choi matrix  J(Phi) = sum_{ij} E_ij (x) Phi(E_ij)   (input factor first), shape (in_r*out_r, in_c*out_c),
    entrywise  J[(i,o),(j,p)] = sum_t A_t[o,i] * conj(B_t[p,j]);
  * `dim` / `dims` arguments for a Choi matrix:  [[in_r, out_r], [in_c, out_c]]  or the vector [in, out];
  * Hilbert-Schmidt inner product <Y, X> = Tr(Y^dagger X) = sum conj(Y_ab) X_ab;
  * row-major vec:  vec_r(X)[i*cols + j] = X[i, j];   natural representation  K = sum_t A_t (x) conj(B_t);
  * dual map  Phi^*(Y) = sum_t A_t^dagger Y B_t ;  complementary map of a CP map {K_t}:  Phi^c(rho)[s,t] = Tr(K_s rho K_t^dagger).
"""

from __future__ import annotations

import itertools

import numpy as np

from mc import catalog

ALG = 1e-9
SPEC = 1e-6


# ------------------------------------------------------------------------------------------------ primitives
def unit(r: int, c: int, i: int, j: int, scale=1.0, dtype=complex) -> np.ndarray:
    m = np.zeros((r, c), dtype=dtype)
    m[i, j] = scale
    return m


def dag(m: np.ndarray) -> np.ndarray:
    return np.asarray(m).conj().T


def basis(r: int, c: int, with_i: bool = False):
    """[(label, matrix)] : all matrix units E_ij of M_{r x c} (and i*E_ij)."""
    out = []
    for i in range(r):
        for j in range(c):
            out.append((f"E{i}{j}", unit(r, c, i, j)))
    if with_i:
        for i in range(r):
            for j in range(c):
                out.append((f"iE{i}{j}", unit(r, c, i, j, 1j)))
    return out


def close(a, b, tol=ALG) -> bool:
    a = np.asarray(a)
    b = np.asarray(b)
    if a.shape != b.shape:
        return False
    if a.size == 0:
        return True
    scale = max(1.0, float(np.max(np.abs(b))))
    return bool(np.max(np.abs(a - b)) <= tol * scale)


def err(a, b) -> float:
    a = np.asarray(a)
    b = np.asarray(b)
    if a.shape != b.shape:
        return float("inf")
    return float(np.max(np.abs(a - b))) if a.size else 0.0


def shape_of(pairs):
    """(out_r, in_r, out_c, in_c)"""
    A, B = pairs[0]
    return (A.shape[0], A.shape[1], B.shape[0], B.shape[1])


# ------------------------------------------------------------------------------------------------ the map itself
def apply_pairs(pairs, X) -> np.ndarray:
    """Phi(X) = sum_t A_t X B_t^dagger  (explicit loop over t)."""
    o_r, i_r, o_c, i_c = shape_of(pairs)
    X = np.asarray(X)
    assert X.shape == (i_r, i_c), (X.shape, (i_r, i_c))
    out = np.zeros((o_r, o_c), dtype=complex)
    for A, B in pairs:
        out = out + A @ X @ dag(B)
    return out


def apply_pairs_loops(pairs, X) -> np.ndarray:
    """Same, by index loops only (used to cross-check apply_pairs in the reference self-check)."""
    o_r, i_r, o_c, i_c = shape_of(pairs)
    out = [[0j] * o_c for _ in range(o_r)]
    for A, B in pairs:
        for o in range(o_r):
            for p in range(o_c):
                s = 0j
                for i in range(i_r):
                    for j in range(i_c):
                        s += complex(A[o, i]) * complex(X[i, j]) * complex(B[p, j]).conjugate()
                out[o][p] += s
    return np.array(out, dtype=complex).reshape(o_r, o_c)


def adjoint_pairs(pairs):
    """Phi^*(Y) = sum_t A_t^dagger Y B_t  = sum_t (A_t^dagger) Y (B_t^dagger)^dagger."""
    return [(dag(A), dag(B)) for A, B in pairs]


def hs(Y, X) -> complex:
    """<Y, X> = Tr(Y^dagger X) by explicit summation."""
    Y = np.asarray(Y)
    X = np.asarray(X)
    assert Y.shape == X.shape, (Y.shape, X.shape)
    s = 0j
    for a in range(Y.shape[0]):
        for b in range(Y.shape[1]):
            s += complex(Y[a, b]).conjugate() * complex(X[a, b])
    return s


# ------------------------------------------------------------------------------------------------ Choi
def choi_from_action(fn, i_r: int, i_c: int) -> np.ndarray:
    """J = sum_ij E_ij (x) fn(E_ij), literally (block (i,j) of J is fn(E_ij))."""
    blocks = [[np.asarray(fn(unit(i_r, i_c, i, j))) for j in range(i_c)] for i in range(i_r)]
    o_r, o_c = blocks[0][0].shape
    J = np.zeros((i_r * o_r, i_c * o_c), dtype=complex)
    for i in range(i_r):
        for j in range(i_c):
            J[i * o_r:(i + 1) * o_r, j * o_c:(j + 1) * o_c] = blocks[i][j]
    return J


def choi_pairs(pairs) -> np.ndarray:
    return choi_from_action(lambda E: apply_pairs(pairs, E), shape_of(pairs)[1], shape_of(pairs)[3])


def choi_pairs_entrywise(pairs) -> np.ndarray:
    """Second formulation: J[(i,o),(j,p)] = sum_t A_t[o,i] conj(B_t[p,j])."""
    o_r, i_r, o_c, i_c = shape_of(pairs)
    J = np.zeros((i_r * o_r, i_c * o_c), dtype=complex)
    for A, B in pairs:
        for i in range(i_r):
            for o in range(o_r):
                for j in range(i_c):
                    for p in range(o_c):
                        J[i * o_r + o, j * o_c + p] += A[o, i] * np.conj(B[p, j])
    return J


def choi_sys1_pairs(pairs) -> np.ndarray:
    """Map applied to the FIRST half of the maximally entangled operator: sum_ij Phi(E_ij) (x) E_ij."""
    o_r, i_r, o_c, i_c = shape_of(pairs)
    J = np.zeros((o_r * i_r, o_c * i_c), dtype=complex)
    for i in range(i_r):
        for j in range(i_c):
            E = unit(i_r, i_c, i, j)
            J = J + np.kron(apply_pairs(pairs, E), E)
    return J


def apply_choi(J, X, o_r: int, o_c: int) -> np.ndarray:
    """Phi(X)[o,p] = sum_ij J[(i,o),(j,p)] X[i,j]  (block (i,j) of J weighted by X[i,j])."""
    X = np.asarray(X)
    i_r, i_c = X.shape
    assert J.shape == (i_r * o_r, i_c * o_c), (J.shape, X.shape, o_r, o_c)
    out = np.zeros((o_r, o_c), dtype=complex)
    for i in range(i_r):
        for j in range(i_c):
            out = out + X[i, j] * J[i * o_r:(i + 1) * o_r, j * o_c:(j + 1) * o_c]
    return out


def dual_choi(J, i_r, o_r, i_c, o_c) -> np.ndarray:
    """Choi matrix of the adjoint map: J*[(o,i),(p,j)] = conj(J[(i,o),(j,p)])."""
    D = np.zeros((o_r * i_r, o_c * i_c), dtype=complex)
    for i in range(i_r):
        for o in range(o_r):
            for j in range(i_c):
                for p in range(o_c):
                    D[o * i_r + i, p * i_c + j] = np.conj(J[i * o_r + o, j * o_c + p])
    return D


# ------------------------------------------------------------------------------------------------ vec / natural representation
def vec_row(X) -> np.ndarray:
    X = np.asarray(X)
    return np.array([X[i, j] for i in range(X.shape[0]) for j in range(X.shape[1])], dtype=complex)


def natural_pairs(pairs) -> np.ndarray:
    """K with K vec_r(X) = vec_r(Phi(X)):  K[(o,p),(i,j)] = sum_t A_t[o,i] conj(B_t[p,j])."""
    o_r, i_r, o_c, i_c = shape_of(pairs)
    K = np.zeros((o_r * o_c, i_r * i_c), dtype=complex)
    for A, B in pairs:
        for o in range(o_r):
            for p in range(o_c):
                for i in range(i_r):
                    for j in range(i_c):
                        K[o * o_c + p, i * i_c + j] += A[o, i] * np.conj(B[p, j])
    return K


# ------------------------------------------------------------------------------------------------ id (x) Phi (x) id
def partial_apply(rho, fn, rdims, cdims, pos: int, o_r: int, o_c: int) -> np.ndarray:
    """(id (x) Phi (x) id)(rho), Phi acting on tensor factor `pos` (0-based) of an operator whose row space is
    (x)_k C^{rdims[k]} and column space (x)_k C^{cdims[k]}.  For every pair of surrounding row/column multi-indices the
    in_r x in_c block of rho is cut out by index arithmetic, mapped with `fn`, and written to the output."""
    rho = np.asarray(rho)
    n = len(rdims)
    lr, lc = rdims[:pos], cdims[:pos]
    rr, rc = rdims[pos + 1:], cdims[pos + 1:]
    i_r, i_c = rdims[pos], cdims[pos]
    LR = int(np.prod(lr)) if lr else 1
    LC = int(np.prod(lc)) if lc else 1
    RR = int(np.prod(rr)) if rr else 1
    RC = int(np.prod(rc)) if rc else 1
    assert rho.shape == (LR * i_r * RR, LC * i_c * RC), (rho.shape, rdims, cdims)
    out = np.zeros((LR * o_r * RR, LC * o_c * RC), dtype=complex)
    for a in range(LR):
        for b in range(LC):
            for g in range(RR):
                for h in range(RC):
                    blk = np.zeros((i_r, i_c), dtype=complex)
                    for e in range(i_r):
                        for f in range(i_c):
                            blk[e, f] = rho[(a * i_r + e) * RR + g, (b * i_c + f) * RC + h]
                    img = fn(blk)
                    for e in range(o_r):
                        for f in range(o_c):
                            out[(a * o_r + e) * RR + g, (b * o_c + f) * RC + h] = img[e, f]
    return out


# ------------------------------------------------------------------------------------------------ complementary map
def complementary_entries(ks, rho) -> np.ndarray:
    """[Tr(K_s rho K_t^dagger)]_{s,t}."""
    r = len(ks)
    out = np.zeros((r, r), dtype=complex)
    for s in range(r):
        for t in range(r):
            m = ks[s] @ rho @ dag(ks[t])
            out[s, t] = sum(m[q, q] for q in range(m.shape[0]))
    return out


# ------------------------------------------------------------------------------------------------ toqito-result helpers
def pairs_from_result(res):
    """Turn what toqito returns / accepts as a Kraus description into reference pairs.  Returns (pairs, form)."""
    if isinstance(res, list) and len(res) and isinstance(res[0], np.ndarray):
        return [(np.asarray(k), np.asarray(k)) for k in res], "flat"
    if isinstance(res, list) and len(res) and isinstance(res[0], (list, tuple)):
        if len(res) == 1 and len(res[0]) > 2:
            return [(np.asarray(k), np.asarray(k)) for k in res[0]], "row"
        if all(len(x) == 2 for x in res):
            return [(np.asarray(x[0]), np.asarray(x[1])) for x in res], "pairs"
        if all(len(x) == 1 for x in res):
            return [(np.asarray(x[0]), np.asarray(x[0])) for x in res], "nested"
    raise TypeError(f"not a Kraus description: {type(res).__name__}")


def to_form(pairs, form: str):
    """Present reference pairs in one of the calling forms toqito documents."""
    if form == "pairs":
        return [[A.copy(), B.copy()] for A, B in pairs]
    if form == "choi":
        return choi_pairs(pairs)
    assert all(A.shape == B.shape and np.array_equal(A, B) for A, B in pairs), "CP forms need A == B"
    if form == "flat":
        return [A.copy() for A, _ in pairs]
    if form == "nested":
        return [[A.copy()] for A, _ in pairs]
    if form == "row":
        assert len(pairs) > 2
        return [[A.copy() for A, _ in pairs]]
    raise KeyError(form)


def forms_for(cp: bool, rank: int):
    out = ["pairs", "choi"]
    if cp:
        out = ["flat", "nested"] + (["row"] if rank > 2 else []) + out
    return out


# ------------------------------------------------------------------------------------------------ catalogue of maps
PH = [1, 1j, -1, -1j]


def _gauss(r: int, c: int, k: int) -> np.ndarray:
    """Gaussian-integer matrix, entries a+ib with a,b in {-3..3}, depends on every index; never all zero."""
    m = np.zeros((r, c), dtype=complex)
    for i in range(r):
        for j in range(c):
            a = (3 * i + 4 * j + 5 * k + 1) % 7 - 3
            b = (2 * i + 3 * j * j + 4 * k + i * j + 3) % 7 - 3
            m[i, j] = a + 1j * b
    if not np.any(m):
        m[0, 0] = 1 + 2j
    return m


def _fourier_block(o: int, i: int, r: int, t: int, roll: int) -> np.ndarray:
    n = max(o * r, i)
    F = catalog.fourier(n)
    if roll:
        F = np.roll(F, roll, axis=1)
    return F[t * o:(t + 1) * o, :i].copy()


def _one(fam: str, o: int, i: int, r: int, t: int, k: int, side: int) -> np.ndarray:
    """Operator number t (of r) of family `fam`; `side` 0 = left (A), 1 = right (B) so that A_t != B_t generically."""
    if fam == "units":
        if side == 0:
            return unit(o, i, (t + k) % o, (2 * t + k + 1) % i, PH[t % 4])
        return unit(o, i, (2 * t + k + 1) % o, (t + 2 * k) % i, PH[(3 * t + 1) % 4])
    if fam == "fourier":
        return _fourier_block(o, i, r, t, roll=(k + 1) * side + k)
    if fam == "gauss":
        return _gauss(o, i, 3 * t + 11 * k + 2 * side)
    if fam == "gen":
        return catalog.generic_matrix(o, i, k=100 * k + 10 * t + side)
    if fam == "genr":
        return catalog.generic_matrix(o, i, k=100 * k + 10 * t + side, real=True).astype(complex)
    raise KeyError(fam)


FAMILIES = ("units", "fourier", "gauss", "gen")


def build_map(spec: dict):
    """spec = {"fam", "shape": [o_r,i_r,o_c,i_c], "r", "k", "kind"}; kind in
         "gen"  : independent left/right operators (not Hermiticity preserving in general),
         "cp"   : B_t = A_t (requires equal row/col shapes),
         "hp"   : pairs (A,B),(B,A): Hermiticity preserving, not CP in general (requires equal shapes),
         "neg"  : CP part minus CP part: pairs (A,A), (B,-B)   (Hermitian indefinite Choi matrix)."""
    o_r, i_r, o_c, i_c = spec["shape"]
    r, k, fam, kind = spec["r"], spec.get("k", 0), spec["fam"], spec.get("kind", "gen")
    if kind == "gen":
        return [(_one(fam, o_r, i_r, r, t, k, 0), _one(fam, o_c, i_c, r, t, k, 1)) for t in range(r)]
    assert (o_r, i_r) == (o_c, i_c), "cp/hp/neg maps act between square spaces"
    if kind == "cp":
        out = []
        for t in range(r):
            A = _one(fam, o_r, i_r, r, t, k, 0)
            out.append((A, A.copy()))
        return out
    if kind == "hp":
        out = []
        for t in range(r):
            A, B = _one(fam, o_r, i_r, r, t, k, 0), _one(fam, o_r, i_r, r, t, k, 1)
            out += [(A, B), (B.copy(), A.copy())]
        return out
    if kind == "neg":
        out = []
        for t in range(r):
            A, B = _one(fam, o_r, i_r, r, t, k, 0), _one(fam, o_r, i_r, r, t, k, 1)
            out += [(A, A.copy()), (B, -B)]
        return out
    raise KeyError(kind)


def discriminating(J, shape) -> bool:
    """Non-triviality rule shared by the clauses: the map is non-zero and not invariant under every convention
    swap at once (conjugation, transposition of its Choi matrix) or its four dimensions are not all equal."""
    if not np.any(np.abs(J) > 1e-12):
        return False
    if len(set(shape)) > 1:
        return True
    if max(shape) == 1:
        return bool(abs(J[0, 0].imag) > 1e-12)
    return (not np.allclose(J, J.conj())) or (not np.allclose(J, J.T))


def generic_unitary_any(n: int, k: int = 0) -> np.ndarray:
    """catalog.generic_unitary where its conditioning filter (no entry within 0.05 of 0) can be met; for larger n the
    filter is unsatisfiable, then: QR of the seed-derived generic matrix (phases of R's diagonal fixed)."""
    if n <= 6:
        return catalog.generic_unitary(n, k)
    q, r = np.linalg.qr(catalog.generic_matrix(n, n, k=900 + k))
    ph = np.diag(r) / np.abs(np.diag(r))
    return q * ph


def structured_unitary(n: int, key: str) -> np.ndarray:
    """I, F (Fourier), XZ (shift*clock), ph (diagonal phases), g<k> (generic) for any n >= 1."""
    if n == 1:
        return np.eye(1, dtype=complex)
    if key == "I":
        return np.eye(n, dtype=complex)
    if key == "F":
        return catalog.fourier(n)
    if key == "XZ":
        return catalog.shift(n) @ catalog.clock(n)
    if key == "ph":
        return np.diag([np.exp(1j * np.pi * q / 4) for q in range(n)])
    if key.startswith("g"):
        return generic_unitary_any(n, int(key[1:]))
    raise KeyError(key)


# ------------------------------------------------------------------------------------------------ trace-preserving CP families
def isometry_family(d: int, r: int, ukey: str):
    """K_t = rows [t*d, (t+1)*d) of the first d columns of a (d*r)x(d*r) unitary  =>  sum K_t^dag K_t = I_d exactly."""
    n = d * r
    if ukey == "F":
        U = catalog.fourier(n)
    elif ukey == "P":  # cyclic shift permutation composed with a phase diagonal
        U = catalog.shift(n) @ np.diag([PH[q % 4] for q in range(n)]) if n > 1 else np.eye(1, dtype=complex)
    elif ukey == "H":  # Hadamard-type (Sylvester where n is a power of two, Fourier otherwise), times a real rotation
        if n & (n - 1) == 0:
            U = np.array([[1.0]])
            while U.shape[0] < n:
                U = np.kron(U, np.array([[1, 1], [1, -1]]) / np.sqrt(2))
            U = U.astype(complex)
        else:
            U = catalog.fourier(n).conj()
    elif ukey.startswith("g"):
        U = generic_unitary_any(n, int(ukey[1:]))
    else:
        raise KeyError(ukey)
    V = np.asarray(U, dtype=complex)[:, :d]
    return [V[t * d:(t + 1) * d, :].copy() for t in range(r)]


def amplitude_damping(gamma: float):
    return [np.array([[1, 0], [0, np.sqrt(1 - gamma)]], dtype=complex), np.array([[0, np.sqrt(gamma)], [0, 0]], dtype=complex)]


# ------------------------------------------------------------------------------------------------ self-check of the reference
def selfcheck() -> int:
    """Cross-checks the independent formulations of the reference against each other (no toqito involved)."""
    n = 0
    for shape in itertools.product((1, 2, 3), repeat=4):
        for fam in FAMILIES:
            pairs = build_map({"fam": fam, "shape": list(shape), "r": 2, "k": 1})
            o_r, i_r, o_c, i_c = shape
            J1, J2 = choi_pairs(pairs), choi_pairs_entrywise(pairs)
            assert close(J1, J2), (shape, fam)
            X = _gauss(i_r, i_c, 7)
            Y = _gauss(o_r, o_c, 9)
            a, b = apply_pairs(pairs, X), apply_pairs_loops(pairs, X)
            assert close(a, b) and close(apply_choi(J1, X, o_r, o_c), a), (shape, fam)
            assert close(natural_pairs(pairs) @ vec_row(X), vec_row(a)), (shape, fam)
            lhs, rhs = hs(Y, a), hs(apply_pairs(adjoint_pairs(pairs), Y), X)
            assert abs(lhs - rhs) <= 1e-9 * max(1, abs(lhs)), (shape, fam)
            D = dual_choi(J1, i_r, o_r, i_c, o_c)
            assert close(D, choi_pairs(adjoint_pairs(pairs))), (shape, fam)
            # partial_apply on a product operator: L (x) X (x) R -> L (x) Phi(X) (x) R
            L, R = _gauss(2, 3, 1), _gauss(3, 1, 2)
            rho = np.kron(np.kron(L, X), R)
            got = partial_apply(rho, lambda M: apply_pairs(pairs, M), [2, i_r, 3], [3, i_c, 1], 1, o_r, o_c)
            assert close(got, np.kron(np.kron(L, a), R)), (shape, fam)
            n += 1
    for d in (2, 3):
        for r in (1, 2, 3):
            for u in ("F", "P", "H", "g0"):
                ks = isometry_family(d, r, u)
                assert close(sum(dag(k) @ k for k in ks), np.eye(d)), (d, r, u)
                n += 1
    return n


def main() -> int:
    return selfcheck()
