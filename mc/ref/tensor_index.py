"""Reference index arithmetic for tensor-product spaces (pure Python integers, row-major / first factor most significant)."""

from __future__ import annotations

import itertools
from functools import reduce


def prod(xs) -> int:
    return reduce(lambda a, b: a * int(b), xs, 1)


def unravel(idx: int, dims) -> tuple:
    out = []
    for d in reversed(dims):
        out.append(idx % d)
        idx //= d
    return tuple(reversed(out))


def ravel(multi, dims) -> int:
    idx = 0
    for m, d in zip(multi, dims):
        idx = idx * d + m
    return idx


def multi_indices(dims):
    return itertools.product(*[range(d) for d in dims])


def argsort_perm(p):
    return sorted(range(len(p)), key=lambda k: p[k])


def gather_for_perm(dims, q) -> list:
    """src[j] for out = in[src]: output factor k is input factor q[k] (A_{q[0]} (x) A_{q[1]} ...)."""
    odims = [dims[k] for k in q]
    src = []
    for j in multi_indices(odims):
        i = [0] * len(dims)
        for k, jk in enumerate(j):
            i[q[k]] = jk
        src.append(ravel(i, dims))
    return src


def perm_matrix_for(dims, q):
    """P with (P v)[j] = v[src[j]] as nested lists of 0/1."""
    src = gather_for_perm(dims, q)
    n = len(src)
    P = [[0] * n for _ in range(n)]
    for j, s in enumerate(src):
        P[j][s] = 1
    return P


def kron_lists(mats):
    """Kronecker product of matrices given as nested lists of Python ints (exact)."""
    def k2(a, b):
        ra, ca, rb, cb = len(a), len(a[0]), len(b), len(b[0])
        return [[a[i // rb][j // cb] * b[i % rb][j % cb] for j in range(ca * cb)] for i in range(ra * rb)]
    return reduce(k2, mats)


_PRIMES = None


def primes(n: int) -> list:
    global _PRIMES
    if _PRIMES is None or len(_PRIMES) < n:
        lim = max(100, n * 20)
        sieve = bytearray([1]) * lim
        out = []
        for i in range(2, lim):
            if sieve[i]:
                out.append(i)
                for j in range(i * i, lim, i):
                    sieve[j] = 0
        _PRIMES = out
    return _PRIMES[:n]


def prime_factors(shapes):
    """Matrices of the given (r,c) shapes filled with pairwise distinct primes (exact Python ints)."""
    total = sum(r * c for r, c in shapes)
    ps = iter(primes(total))
    return [[[next(ps) for _ in range(c)] for _ in range(r)] for r, c in shapes]


def partial_trace_ref(get, dims, traced):
    """out[(i_K),(j_K)] = sum_t X[(i_K,t),(j_K,t)]; kept subsystems in original order.  `get(r,c)` reads X."""
    n = len(dims)
    kept = [k for k in range(n) if k not in traced]
    tr = [k for k in range(n) if k in traced]
    kd = [dims[k] for k in kept]
    td = [dims[k] for k in tr]
    m = prod(kd)
    out = [[None] * m for _ in range(m)]
    for ik in multi_indices(kd):
        for jk in multi_indices(kd):
            cells = []
            for t in multi_indices(td):
                r = [0] * n
                c = [0] * n
                for a, k in enumerate(kept):
                    r[k], c[k] = ik[a], jk[a]
                for a, k in enumerate(tr):
                    r[k] = c[k] = t[a]
                cells.append((ravel(r, dims), ravel(c, dims)))
            out[ravel(ik, kd)][ravel(jk, kd)] = [get(r, c) for r, c in cells]
    return out


def partial_transpose_src(rdims, cdims, S):
    """Returns (out_rdims, out_cdims, src) with out[R][C] = X[src[R][C]]: exchange i_k<->j_k exactly for k in S."""
    n = len(rdims)
    ord_ = [cdims[k] if k in S else rdims[k] for k in range(n)]
    ocd = [rdims[k] if k in S else cdims[k] for k in range(n)]
    src = []
    for R in multi_indices(ord_):
        row = []
        for C in multi_indices(ocd):
            i = [C[k] if k in S else R[k] for k in range(n)]
            j = [R[k] if k in S else C[k] for k in range(n)]
            row.append((ravel(i, rdims), ravel(j, cdims)))
        src.append(row)
    return ord_, ocd, src


def realignment_src(r1, r2, c1, c2):
    """R[(i1,j1),(i2,j2)] = X[(i1,i2),(j1,j2)]: out shape (r1*c1, r2*c2)."""
    src = []
    for i1 in range(r1):
        for j1 in range(c1):
            row = []
            for i2 in range(r2):
                for j2 in range(c2):
                    row.append((i1 * r2 + i2, j1 * c2 + j2))
            src.append(row)
    return src
