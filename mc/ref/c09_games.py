"""Reference models for extended nonlocal games (C09): boring Python / numpy primitives only (eigvalsh, kron, @).

Convention documented by ``ExtendedNonlocalGame``: ``pred[:, :, a, b, x, y]`` = V(a,b|x,y) (an R x R positive semidefinite
operator on the referee's space), ``prob[x, y]`` = pi(x,y).

* ``ops(R)``                finite catalogue of PSD operators on C^R (projectors on catalogue kets, diag(1,1/2,..), a complex
                            rank-2 operator, zero, seed-derived generic ones)
* ``wins(pattern, ...)``    cell patterns: which (a,b|x,y) carry a non-zero operator
* ``build_pred / build_prob``  rebuild the arrays of a case from its keys
* ``unentangled_bruteforce``   the definition, literally: max over ALL (f, g) in A^X x B^Y of lambda_max(sum pi V(f(x),g(y)|x,y))
* ``unentangled_best_constant`` max over CONSTANT answers only (used for the non-triviality rule)
* ``product_game``          r-fold parallel repetition in Kronecker (most significant first) index order
"""

from __future__ import annotations

import itertools
from functools import lru_cache

import numpy as np

from mc import catalog

SHAPES_QUICK = [(2, 2, 2, 2), (2, 2, 1, 2), (2, 2, 2, 1), (3, 2, 2, 2), (2, 3, 2, 2), (2, 2, 3, 2)]
SHAPES_MORE = [(2, 2, 2, 3), (3, 3, 2, 2), (3, 2, 1, 2), (2, 3, 2, 1)]
PATTERNS = ["chsh", "a=x", "b=y", "a=x&b=y", "eq", "b=a+x", "a=y"]
PROBS = ["uniform", "skew", "g0", "diag"]


# ------------------------------------------------------------------------------------------------ operator catalogue
def _proj(v):
    v = np.asarray(v, dtype=complex).reshape(-1)
    return np.outer(v, v.conj())


def ops(R: int) -> dict:
    """name -> PSD operator with 0 <= op <= 1 (complex dtype)."""
    return _ops(R, catalog.seed())


@lru_cache(maxsize=None)
def _ops(R: int, sd: int) -> dict:
    out = {}
    if R == 1:
        out["one"] = np.array([[1.0 + 0j]])
        out["half"] = np.array([[0.5 + 0j]])
        out["third"] = np.array([[1 / 3 + 0j]])
        out["zero"] = np.array([[0.0 + 0j]])
        p = catalog.generic_prior(4, 0)
        for k in range(2):
            out[f"g{k}"] = np.array([[min(1.0, 2.2 * p[k]) + 0j]])
        return out
    names = {2: ["e0", "e1", "+", "-", "+i", "-i", "pi8", "pi8ph"], 3: ["e0", "e1", "e2", "f0", "f1", "f2", "chirp", "0i1"]}[R]
    for n in names:
        out["k:" + n] = _proj(catalog.ket(R, n))
    d = np.zeros(R)
    d[0], d[1] = 1.0, 0.5
    out["d1h"] = np.diag(d).astype(complex)
    if R == 2:
        out["c2"] = 0.6 * _proj(catalog.ket(2, "pi8ph")) + 0.3 * _proj(catalog.ket(2, "-i"))
    else:
        out["c2"] = 0.6 * _proj(catalog.ket(3, "chirp")) + 0.3 * _proj(catalog.ket(3, "0i1"))
    out["zero"] = np.zeros((R, R), dtype=complex)
    for k in range(2):
        g = catalog.generic_density(R, k)
        out[f"g{k}"] = g / np.linalg.eigvalsh(g)[-1] * 0.9
    out["kg0"] = _proj(catalog.ket(R, "g0"))
    return out


def bases(R: int) -> list:
    """Lists of orthonormal bases (as lists of operator names) used by the BB84 / CHSH / MUB-like schemes."""
    if R == 1:
        return [["one"]]
    if R == 2:
        return [["k:e0", "k:e1"], ["k:+", "k:-"], ["k:+i", "k:-i"]]
    return [["k:e0", "k:e1", "k:e2"], ["k:f0", "k:f1", "k:f2"]]


def schemes(R: int) -> list:
    if R == 1:
        return ["flat", "hashA", "hashB"]
    return ["basis_xy", "basis_x", "hashA", "hashB", "gen", "flat"]


def op_name(R: int, scheme: str, a: int, b: int, x: int, y: int) -> str:
    """Which catalogue operator sits at a winning cell (a,b|x,y)."""
    cat = list(ops(R))
    if scheme == "flat":
        return "one" if R == 1 else "I"
    if scheme == "basis_x":
        bs = bases(R)
        return bs[x % len(bs)][a % R]
    if scheme == "basis_xy":
        bs = bases(R)
        return bs[(x * y) % len(bs)][a % R]
    if scheme == "hashA":
        return cat[(a + 2 * b + 3 * x + 5 * y) % len(cat)]
    if scheme == "hashB":
        return cat[(2 * a + b + 5 * x + 3 * y + 1) % len(cat)]
    if scheme == "gen":
        gens = [n for n in cat if n.startswith("g") or n == "kg0"]
        return gens[(a + 2 * b + x + 2 * y) % len(gens)]
    raise KeyError(scheme)


def wins(pattern: str, a: int, b: int, x: int, y: int, shape) -> bool:
    A, B, X, Y = shape
    if pattern == "chsh":
        return (a + b) % 2 == (x * y) % 2
    if pattern == "a=x":
        return a == x % A
    if pattern == "b=y":
        return b == y % B
    if pattern == "a=x&b=y":
        return a == x % A and b == y % B
    if pattern == "eq":
        return a == b
    if pattern == "b=a+x":
        return b == (a + x) % B
    if pattern == "a=y":
        return a == y % A
    raise KeyError(pattern)


def build_pred(R: int, shape, pattern: str, scheme: str) -> np.ndarray:
    """(R, R, A, B, X, Y) array; real dtype when every operator used is real (as a user would write it), else complex."""
    A, B, X, Y = shape
    cat = ops(R)
    cat = dict(cat)
    cat["I"] = np.eye(R, dtype=complex)
    V = np.zeros((R, R, A, B, X, Y), dtype=complex)
    for a, b, x, y in itertools.product(range(A), range(B), range(X), range(Y)):
        if wins(pattern, a, b, x, y, shape):
            V[:, :, a, b, x, y] = cat[op_name(R, scheme, a, b, x, y)]
    if np.abs(V.imag).max() == 0:
        return V.real.copy()
    return V


def build_prob(X: int, Y: int, key: str) -> np.ndarray:
    if key == "uniform":
        return np.ones((X, Y)) / (X * Y)
    if key == "skew":  # product of (1/3, 2/3)-type marginals
        def marg(n):
            w = np.arange(1, n + 1, dtype=float)
            return w / w.sum()
        return np.outer(marg(X), marg(Y))
    if key == "diag":  # only x = y is asked (square case), unequal weights
        if X != Y:
            raise KeyError("diag needs X == Y")
        w = np.arange(X, 0, -1, dtype=float) if X > 2 else np.ones(X)
        return np.diag(w / w.sum())
    if key.startswith("g"):
        return generic_dist(X * Y, int(key[1:])).reshape(X, Y) if X * Y > 1 else np.ones((1, 1))
    raise KeyError(key)


def generic_dist(n: int, k: int = 0) -> np.ndarray:
    """Seed-derived distribution on n points (catalog.generic_prior's filter is too strict beyond n = 4): Dirichlet(2) draw,
    re-drawn deterministically until every weight is >= 1/(4n) and all weights differ by >= 1/(20n)."""
    for attempt in range(500):
        p = catalog.rng(f"c09dist{n}", k, attempt).dirichlet(np.ones(n) * 2.0)
        if p.min() >= 0.25 / n and np.min(np.diff(np.sort(p))) >= 0.05 / n:
            return p
    raise RuntimeError(f"generic_dist filter failed for n={n}")


def probs_for(X: int, Y: int) -> list:
    out = ["uniform"]
    if X * Y > 1:
        out += ["skew", "g0"]
    if X == Y and X > 1:
        out.append("diag")
    return out


def mub_game():
    """The 4-question 3-answer monogamy game of mutually unbiased bases in C^3 (a = b on x = y), built from the definition."""
    w = np.exp(2j * np.pi / 3)
    e = np.eye(3, dtype=complex)
    mubs = [[e[:, k] for k in range(3)]]
    for m in range(3):
        mubs.append([np.array([w ** (k * j + m * j * j) for j in range(3)]) / np.sqrt(3) for k in range(3)])
    V = np.zeros((3, 3, 3, 3, 4, 4), dtype=complex)
    for x in range(4):
        for a in range(3):
            V[:, :, a, a, x, x] = _proj(mubs[x][a])
    return np.eye(4) / 4, V


# ------------------------------------------------------------------------------------------------ unentangled value
def lam_max(M: np.ndarray) -> float:
    return float(np.linalg.eigvalsh((M + M.conj().T) / 2)[-1])


def unentangled_bruteforce(prob: np.ndarray, pred: np.ndarray):
    """(value, argmax (f, g)).  Every pair of answer functions is scored; nothing is pruned."""
    R, _, A, B, X, Y = pred.shape
    best, arg = -np.inf, None
    for f in itertools.product(range(A), repeat=X):
        for g in itertools.product(range(B), repeat=Y):
            M = np.zeros((R, R), dtype=complex)
            for x in range(X):
                for y in range(Y):
                    M = M + prob[x, y] * pred[:, :, f[x], g[y], x, y]
            v = lam_max(M)
            if v > best:
                best, arg = v, (f, g)
    return best, arg


def unentangled_batched(prob: np.ndarray, pred: np.ndarray) -> float:
    """Second formulation (used for the larger product games and as a cross-check): per f, tabulate Bob's terms, then one batched
    eigvalsh over all g."""
    R, _, A, B, X, Y = pred.shape
    gs = np.array(list(itertools.product(range(B), repeat=Y)))  # (n_g, Y)
    best = -np.inf
    for f in itertools.product(range(A), repeat=X):
        T = np.zeros((Y, B, R, R), dtype=complex)
        for x in range(X):
            T += prob[x, :, None, None, None] * np.moveaxis(pred[:, :, f[x], :, x, :], (0, 1, 2, 3), (2, 3, 1, 0))
        M = np.zeros((len(gs), R, R), dtype=complex)
        for y in range(Y):
            M += T[y, gs[:, y]]
        M = (M + np.conj(np.swapaxes(M, 1, 2))) / 2
        best = max(best, float(np.linalg.eigvalsh(M)[:, -1].max()))
    return best


def unentangled_best_constant(prob: np.ndarray, pred: np.ndarray) -> float:
    R, _, A, B, X, Y = pred.shape
    best = -np.inf
    for a in range(A):
        for b in range(B):
            M = sum(prob[x, y] * pred[:, :, a, b, x, y] for x in range(X) for y in range(Y))
            best = max(best, lam_max(M))
    return best


# ------------------------------------------------------------------------------------------------ product game
def digits(n: int, base: int, length: int):
    out = [0] * length
    for k in range(length - 1, -1, -1):
        n, out[k] = divmod(n, base)
    return out


def product_game(prob: np.ndarray, pred: np.ndarray, reps: int):
    """prob_r[(x),(y)] = prod_k pi(x_k,y_k); pred_r[:, :, (a),(b),(x),(y)] = V(a_1,b_1|x_1,y_1) (x) ... (x) V(a_r,b_r|x_r,y_r);
    tuples encoded most-significant-first."""
    R, _, A, B, X, Y = pred.shape
    prob_r = np.zeros((X ** reps, Y ** reps))
    pred_r = np.zeros((R ** reps, R ** reps, A ** reps, B ** reps, X ** reps, Y ** reps), dtype=complex)
    for xs in range(X ** reps):
        xd = digits(xs, X, reps)
        for ys in range(Y ** reps):
            yd = digits(ys, Y, reps)
            p = 1.0
            for k in range(reps):
                p *= prob[xd[k], yd[k]]
            prob_r[xs, ys] = p
            for a_s in range(A ** reps):
                ad = digits(a_s, A, reps)
                for b_s in range(B ** reps):
                    bd = digits(b_s, B, reps)
                    M = np.ones((1, 1), dtype=complex)
                    for k in range(reps):
                        M = np.kron(M, pred[:, :, ad[k], bd[k], xd[k], yd[k]])
                    pred_r[:, :, a_s, b_s, xs, ys] = M
    return prob_r, pred_r
