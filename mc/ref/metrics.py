"""Reference models for C13: every state-metric's *documented* formula, evaluated independently.

Only ``numpy.linalg.eigh`` / ``eigvalsh`` / ``svd`` and ``@`` are used as primitives (none of them is the mechanism
under test: toqito uses ``scipy.linalg.sqrtm``, ``np.linalg.norm(ord=...)``, ``np.trace`` of products).  Where a
second, structurally different evaluation of the same formula exists it is implemented too (``*_alt``) and the two
are compared on every case by the check itself (a disagreement is a harness error, not a verdict about toqito).

Conventions read from the docstrings at the pinned commit:
  fidelity            F = || sqrt(rho) sqrt(sigma) ||_1                       (the *root* fidelity)
  trace_distance      T = 1/2 Tr|rho - sigma|
  hilbert_schmidt     HS = Tr((rho - sigma)^2) = ||rho - sigma||_2^2           (Schatten-2 = Frobenius)
  hs inner product    (A|B) = Tr(A^dagger B)
  helstrom_holevo     1/2 + 1/2 (1/2 ||rho - sigma||_1)
  bures_distance      sqrt(2 (1 - round(F, decimals)))
  bures_angle         arccos sqrt(round(F, decimals))                          (F the root fidelity, as documented)
  sub_fidelity        E = Tr(rho sigma) + sqrt(2 [ Tr(rho sigma)^2 - Tr(rho sigma rho sigma) ])
  matsumoto_fidelity  Tr(rho # sigma),  rho # sigma = rho^1/2 sqrt(rho^-1/2 sigma rho^-1/2) rho^1/2  (rho invertible)
  trace_norm          sum of singular values
"""

from __future__ import annotations

import math

import numpy as np


# ------------------------------------------------------------------------------------------------ primitives
def herm(m: np.ndarray) -> np.ndarray:
    m = np.asarray(m, dtype=complex)
    return (m + m.conj().T) / 2


def psd_power(rho: np.ndarray, p: float, floor: float = 0.0) -> np.ndarray:
    """rho^p for a Hermitian PSD matrix through eigh; eigenvalues <= floor are treated as exact zeros."""
    w, v = np.linalg.eigh(herm(rho))
    out = np.zeros_like(w)
    pos = w > floor
    out[pos] = w[pos] ** p
    return (v * out) @ v.conj().T


def spectrum(rho: np.ndarray) -> np.ndarray:
    return np.linalg.eigvalsh(herm(rho))


def rank(rho: np.ndarray, tol: float = 1e-9) -> int:
    return int(np.sum(spectrum(rho) > tol))


def min_eig(rho: np.ndarray) -> float:
    return float(spectrum(rho)[0])


# ------------------------------------------------------------------------------------------------ documented formulas
def trace_norm(x: np.ndarray) -> float:
    """Sum of the singular values."""
    return float(np.sum(np.linalg.svd(np.asarray(x, dtype=complex), compute_uv=False)))


def trace_norm_alt(x: np.ndarray) -> float:
    """Roots of the eigenvalues of X X^* (the docstring's second sentence)."""
    x = np.asarray(x, dtype=complex)
    w = np.linalg.eigvalsh(herm(x @ x.conj().T))
    return float(np.sum(np.sqrt(np.clip(w, 0.0, None))))


def fidelity(rho: np.ndarray, sigma: np.ndarray) -> float:
    """|| sqrt(rho) sqrt(sigma) ||_1 ; singular values of the product of the two eigh square roots (no sqrt-eps loss)."""
    return trace_norm(psd_power(rho, 0.5) @ psd_power(sigma, 0.5))


def fidelity_alt(rho: np.ndarray, sigma: np.ndarray) -> float:
    """Tr sqrt( sqrt(rho) sigma sqrt(rho) ) through eigvalsh (accurate to ~sqrt(eps) on rank-deficient inputs)."""
    r = psd_power(rho, 0.5)
    w = np.linalg.eigvalsh(herm(r @ herm(sigma) @ r))
    return float(np.sum(np.sqrt(np.clip(w, 0.0, None))))


def trace_distance(rho: np.ndarray, sigma: np.ndarray) -> float:
    return 0.5 * float(np.sum(np.abs(spectrum(np.asarray(rho, dtype=complex) - sigma))))


def trace_distance_alt(rho: np.ndarray, sigma: np.ndarray) -> float:
    return 0.5 * trace_norm(np.asarray(rho, dtype=complex) - sigma)


def hilbert_schmidt(rho: np.ndarray, sigma: np.ndarray) -> float:
    """Tr((rho - sigma)^2) = sum of squared eigenvalues of the Hermitian difference."""
    return float(np.sum(spectrum(np.asarray(rho, dtype=complex) - sigma) ** 2))


def hilbert_schmidt_alt(rho: np.ndarray, sigma: np.ndarray) -> float:
    """The same number as the plain sum of squared moduli of the entries (Schatten-2 norm squared)."""
    dlt = np.asarray(rho, dtype=complex) - sigma
    tot = 0.0
    for i in range(dlt.shape[0]):
        for j in range(dlt.shape[1]):
            tot += dlt[i, j].real ** 2 + dlt[i, j].imag ** 2
    return tot


def hs_inner(a: np.ndarray, b: np.ndarray) -> complex:
    """Tr(A^dagger B) = sum_ij conj(A_ij) B_ij, written as a loop."""
    a = np.asarray(a, dtype=complex)
    b = np.asarray(b, dtype=complex)
    tot = 0j
    for i in range(a.shape[0]):
        for j in range(a.shape[1]):
            tot += a[i, j].conjugate() * b[i, j]
    return complex(tot)


def helstrom_holevo(rho: np.ndarray, sigma: np.ndarray) -> float:
    return 0.5 + 0.5 * trace_distance(rho, sigma)


def bures_distance_of_f(f: float) -> float:
    return math.sqrt(max(0.0, 2.0 * (1.0 - f)))


def bures_angle_of_f(f: float) -> float:
    return math.acos(math.sqrt(min(1.0, max(0.0, f))))


def derived_interval(g, f: float, eps: float, decimals: int | None):
    """Interval of g(round(F', decimals)) over F' in [f - eps, f + eps] for a *decreasing* g (Bures distance / angle);
    F' is clamped to [0, 1] (a fidelity) before g is applied."""
    lo_f, hi_f = f - eps, f + eps
    if decimals is not None:
        lo_f, hi_f = round(lo_f, decimals), round(hi_f, decimals)
    lo_f, hi_f = min(1.0, max(0.0, lo_f)), min(1.0, max(0.0, hi_f))
    return g(hi_f), g(lo_f)


def sub_fidelity(rho: np.ndarray, sigma: np.ndarray) -> float:
    """E = Tr(rho sigma) + sqrt(2[(Tr rho sigma)^2 - Tr(rho sigma rho sigma)]) from the spectrum lam of
    sqrt(rho) sigma sqrt(rho) (same non-zero eigenvalues as rho sigma): E = sum lam + 2 sqrt(e_2(lam))."""
    r = psd_power(rho, 0.5)
    lam = np.clip(np.linalg.eigvalsh(herm(r @ herm(sigma) @ r)), 0.0, None)
    e2 = 0.0
    for i in range(len(lam)):
        for j in range(i + 1, len(lam)):
            e2 += lam[i] * lam[j]
    return float(np.sum(lam) + 2.0 * math.sqrt(e2))


def sub_fidelity_alt(rho: np.ndarray, sigma: np.ndarray) -> float:
    """The docstring formula literally, with matrix products, the radicand clamped at 0."""
    rs = np.asarray(rho, dtype=complex) @ np.asarray(sigma, dtype=complex)
    t1 = np.trace(rs).real
    t2 = np.trace(rs @ rs).real
    return float(t1 + math.sqrt(max(0.0, 2.0 * (t1 * t1 - t2))))


def matsumoto(rho: np.ndarray, sigma: np.ndarray) -> float:
    """Tr( rho^1/2 sqrt(rho^-1/2 sigma rho^-1/2) rho^1/2 ), rho must be invertible (documented formula)."""
    r = psd_power(rho, 0.5)
    ri = psd_power(rho, -0.5)
    m = psd_power(herm(ri @ herm(sigma) @ ri), 0.5)
    return float(np.trace(r @ m @ r).real)


def matsumoto_sym(rho: np.ndarray, sigma: np.ndarray) -> float:
    """The geometric mean is symmetric; use whichever argument is better conditioned as the inverted one."""
    if min_eig(rho) >= min_eig(sigma):
        return matsumoto(rho, sigma)
    return matsumoto(sigma, rho)


# ------------------------------------------------------------------------------------------------ closed forms (pure states)
def overlap(psi: np.ndarray, phi: np.ndarray) -> float:
    """|<psi|phi>| by a loop."""
    tot = 0j
    for a, b in zip(np.asarray(psi).ravel(), np.asarray(phi).ravel()):
        tot += complex(a).conjugate() * complex(b)
    return abs(tot)


def pure_closed_forms(c: float) -> dict:
    """Values of every measure on two pure states with |<psi|phi>| = c."""
    c = min(1.0, max(0.0, c))
    s = math.sqrt(max(0.0, 1.0 - c * c))
    return {
        "fidelity": c,
        "trace_distance": s,
        "hilbert_schmidt": 2.0 * (1.0 - c * c),
        "hilbert_schmidt_inner_product": c * c,
        "helstrom_holevo": 0.5 + 0.5 * s,
        "bures_distance": math.sqrt(2.0 * (1.0 - c)),
        "bures_angle": math.acos(math.sqrt(c)),
        "sub_fidelity": c * c,
    }
