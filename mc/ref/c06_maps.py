"""C06 reference: a ground-truth catalogue of linear maps + independent arithmetic for every channel predicate.

A map  Phi : M_{d_in} -> M_{d_out}  is a list of pairs (A_t, B_t), both of shape (d_out, d_in):  Phi(X) = sum_t A_t X B_t^dagger.
Completely positive presentations have B_t = A_t.  Each catalogue entry carries

  * ``claims``  : the verdicts that hold BY CONSTRUCTION (a theorem about the way the map was built), and
  * ``truth()`` : the same verdicts evaluated from the definition by boring arithmetic (loops over the operator basis,
                  eigvalsh / svd of the reference Choi matrix), each with a margin status: True / False only when the
                  definition is satisfied to <= LO or violated by >= HI; None = inside the band (never asserted).

``claims`` and ``truth`` must agree wherever both speak (checked on every case: a disagreement is a harness error, never a
finding).  numpy is used for `@`, `kron`, `eigvalsh`, `svd`, `qr` only; which index is input/output, which factor is
conjugated, which subsystem is traced are written out by hand.

Conventions (docstrings of kraus_to_choi / is_trace_preserving / channel_dim):
  Choi matrix J = sum_ij E_ij (x) Phi(E_ij)  (input factor first; the map acts on the SECOND subsystem, `sys=2`);
  `sys=1` variant  J1 = sum_ij Phi(E_ij) (x) E_ij;   `dim` for a Choi matrix = [d_in, d_out] (or [[d_in,d_out],[d_in,d_out]]).
"""

from __future__ import annotations

import itertools
import json
from fractions import Fraction
from functools import lru_cache

import numpy as np

from mc import catalog

LO = 1e-10   # "satisfied": deviation from the definition at most LO (pure rounding)
HI = 1e-3    # "violated by a margin": deviation at least HI  (>= 100 x rtol=1e-5 of the predicates on O(1) entries)


# ------------------------------------------------------------------------------------------------ primitives
def unit(r, c, i, j, scale=1.0):
    m = np.zeros((r, c), dtype=complex)
    m[i, j] = scale
    return m


def dag(m):
    return np.asarray(m).conj().T


def apply_pairs(pairs, X):
    out = None
    for A, B in pairs:
        t = A @ X @ dag(B)
        out = t if out is None else out + t
    return out


def choi_of(pairs, d_in, d_out):
    """J = sum_ij E_ij (x) Phi(E_ij): block (i,j) of J is Phi(E_ij)."""
    J = np.zeros((d_in * d_out, d_in * d_out), dtype=complex)
    for i in range(d_in):
        for j in range(d_in):
            J[i * d_out:(i + 1) * d_out, j * d_out:(j + 1) * d_out] = apply_pairs(pairs, unit(d_in, d_in, i, j))
    return J


def choi_entrywise(pairs, d_in, d_out):
    """Second formulation: J[(i,o),(j,p)] = sum_t A_t[o,i] conj(B_t[p,j])."""
    J = np.zeros((d_in * d_out, d_in * d_out), dtype=complex)
    for A, B in pairs:
        for i in range(d_in):
            for o in range(d_out):
                for j in range(d_in):
                    for p in range(d_out):
                        J[i * d_out + o, j * d_out + p] += A[o, i] * np.conj(B[p, j])
    return J


def choi_sys1(pairs, d_in, d_out):
    """Map applied to the FIRST half: J1 = sum_ij Phi(E_ij) (x) E_ij."""
    J = np.zeros((d_in * d_out, d_in * d_out), dtype=complex)
    for i in range(d_in):
        for j in range(d_in):
            E = unit(d_in, d_in, i, j)
            J = J + np.kron(apply_pairs(pairs, E), E)
    return J


def apply_choi(J, X, d_out):
    """Phi(X) = sum_ij X[i,j] * block_(i,j)(J)."""
    d_in = X.shape[0]
    out = np.zeros((d_out, d_out), dtype=complex)
    for i in range(d_in):
        for j in range(d_in):
            out = out + X[i, j] * J[i * d_out:(i + 1) * d_out, j * d_out:(j + 1) * d_out]
    return out


def frac(x):
    """[num, den] -> float (exact rational parameter of a case)."""
    return float(Fraction(int(x[0]), int(x[1])))


# ------------------------------------------------------------------------------------------------ building blocks
PAULI = {
    "I": np.eye(2, dtype=complex),
    "X": np.array([[0, 1], [1, 0]], dtype=complex),
    "Y": np.array([[0, -1j], [1j, 0]], dtype=complex),
    "Z": np.array([[1, 0], [0, -1]], dtype=complex),
}
WEYL_KEYS = ("I", "X", "Z", "XZ")  # Hilbert-Schmidt orthogonal unitaries of catalog.unitaries(d) for every d >= 2


def weyl(d, a, b):
    """X^a Z^b (shift^a clock^b): d^2 unitaries, pairwise Hilbert-Schmidt orthogonal."""
    return np.linalg.matrix_power(catalog.shift(d).astype(complex), a) @ np.linalg.matrix_power(catalog.clock(d), b)


def big_unitary(n, key):
    """n x n unitary used to cut Stinespring isometries: F Fourier, P shift * phases, H real/complex Hadamard type, g<k> generic."""
    if n == 1:
        return np.eye(1, dtype=complex)
    if key == "F":
        return catalog.fourier(n)
    if key == "P":
        return catalog.shift(n).astype(complex) @ np.diag([1j ** q for q in range(n)])
    if key == "H":
        if n & (n - 1) == 0:
            U = np.array([[1.0 + 0j]])
            while U.shape[0] < n:
                U = np.kron(U, np.array([[1, 1], [1, -1]], dtype=complex) / np.sqrt(2))
            return U
        return catalog.fourier(n).conj() @ np.diag([np.exp(1j * np.pi * q * q / n) for q in range(n)])
    if key.startswith("g"):
        q, r = np.linalg.qr(catalog.generic_matrix(n, n, k=700 + int(key[1:])))
        return q * (np.diag(r) / np.abs(np.diag(r)))
    raise KeyError(key)


def struct_matrix(r, c, k):
    """Gaussian-rational matrix with entries (a+ib)/3, a,b in {-3..3}, depending on every index; never zero."""
    m = np.zeros((r, c), dtype=complex)
    for i in range(r):
        for j in range(c):
            a = (3 * i + 4 * j + 5 * k + 1) % 7 - 3
            b = (2 * i + 3 * j * j + 4 * k + i * j + 3) % 7 - 3
            m[i, j] = (a + 1j * b) / 3
    if not np.any(m):
        m[0, 0] = (1 + 2j) / 3
    return m


def op_matrix(fam, r, c, k):
    if fam == "s":
        return struct_matrix(r, c, k)
    if fam == "g":
        return catalog.generic_matrix(r, c, k=300 + k)
    raise KeyError(fam)


def cp(kraus):
    return [(K, K.copy()) for K in kraus]


# ------------------------------------------------------------------------------------------------ the catalogue
def build(spec: dict) -> dict:
    """spec -> {"pairs", "d_in", "d_out", "claims", "identity"}.  `claims` keys: hp cp tp unital unitary qc rank extremal
    positive ('cp' | 'nonpos' | 'either').  A key that is absent is not claimed by construction (truth() decides)."""
    return dict(_build(json.dumps(spec, sort_keys=True), catalog.seed()))


@lru_cache(maxsize=4096)
def _build(spec_json: str, sd: int):
    spec = json.loads(spec_json)
    kind = spec["kind"]
    ident = False
    if kind == "unitary":
        d = spec["d"]
        U = catalog.unitary(d, spec["u"])
        pairs, din, dout = cp([U]), d, d
        claims = dict(hp=True, cp=True, tp=True, unital=True, unitary=True, qc=True, rank=1, extremal=True, positive="cp")
        ident = bool(np.allclose(U, U[0, 0] * np.eye(d)))
    elif kind == "mix":
        d = spec["d"]
        ws = [Fraction(int(a), int(spec["den"])) for a in spec["w"]]
        assert sum(ws) == 1 and all(w > 0 for w in ws) and len(ws) == len(spec["us"]) >= 2
        pairs = cp([np.sqrt(float(w)) * catalog.unitary(d, u) for w, u in zip(ws, spec["us"])])
        din = dout = d
        claims = dict(hp=True, cp=True, tp=True, unital=True, qc=True, positive="cp")
        if set(spec["us"]) <= set(WEYL_KEYS) and len(set(spec["us"])) == len(spec["us"]):
            claims.update(rank=len(ws), unitary=False, extremal=False)
    elif kind == "stine":
        din, dout, r = spec["din"], spec["dout"], spec["r"]
        n = dout * r
        assert n >= din
        V = big_unitary(n, spec["u"])[:, :din]
        pairs = cp([V[t * dout:(t + 1) * dout, :].copy() for t in range(r)])
        claims = dict(hp=True, cp=True, tp=True, qc=True, positive="cp")
        if din != dout:
            claims.update(unital=False, unitary=False)
        if r == 1:
            claims.update(rank=1, extremal=True, unitary=(din == dout))
    elif kind == "scaled":
        base = dict(_build(json.dumps(spec["base"], sort_keys=True), sd))
        base["claims"] = dict(base["claims"])
        c = frac(spec["c"])
        assert abs(c - 1) >= 2 * HI and c > 0
        pairs = [(np.sqrt(c) * A, np.sqrt(c) * B) for A, B in base["pairs"]]
        din, dout = base["d_in"], base["d_out"]
        bc = base["claims"]
        assert bc.get("cp") and bc.get("tp")
        claims = dict(hp=True, cp=True, tp=False, qc=False, unitary=False, positive="cp")
        if "rank" in bc:
            claims["rank"] = bc["rank"]
        if bc.get("unital") is True:
            claims["unital"] = False
    elif kind == "notcp":
        d, m = spec["d"], frac(spec["m"])
        U, V = catalog.unitary(d, spec["u"]), catalog.unitary(d, spec["v"])
        a = 1 + m if spec["tp"] else 1.0
        pairs = [(np.sqrt(a) * U, np.sqrt(a) * U), (np.sqrt(m) * V, -np.sqrt(m) * V)]
        din = dout = d
        claims = dict(hp=True, unitary=False)
        if spec["u"] in WEYL_KEYS and spec["v"] in WEYL_KEYS and spec["u"] != spec["v"]:
            # J = a|U>><<U| - m|V>><<V| with <<U|V>> = 0: eigenvalues a*d and -m*d
            claims.update(cp=False, qc=False, rank=2, tp=bool(spec["tp"]), unital=bool(spec["tp"]), positive="nonpos")
    elif kind == "hp_pair":
        din, dout = spec["din"], spec["dout"]
        A = op_matrix(spec["fam"], dout, din, 2 * spec["k"])
        B = op_matrix(spec["fam"], dout, din, 2 * spec["k"] + 1)
        pairs = [(A, B), (B.copy(), A.copy())]
        claims = dict(hp=True)
    elif kind == "nonhp_pair":
        din, dout, r = spec["din"], spec["dout"], spec["r"]
        pairs = [(op_matrix(spec["fam"], dout, din, 10 * spec["k"] + 2 * t), op_matrix(spec["fam"], dout, din, 10 * spec["k"] + 2 * t + 1))
                 for t in range(r)]
        claims = dict()
    elif kind == "uv_pair":
        # X -> U X V^dagger with two unitaries: a single pair of unitary operators that is NOT a unitary channel unless V = U
        d = spec["d"]
        U = catalog.unitary(d, spec["u"])
        V = {"neg": -U, "iU": 1j * U}.get(spec["v"])
        if V is None:
            V = catalog.unitary(d, spec["v"])
        pairs, din, dout = [(U, V)], d, d
        claims = dict(unitary=False, cp=False, qc=False, rank=1)
        if spec["v"] == "neg":
            claims.update(hp=True, tp=False, unital=False, positive="nonpos")
        elif spec["v"] == "iU":
            claims.update(hp=False, tp=False, unital=False, positive="nonpos")
    elif kind == "upper_tri":
        # a CP map plus c * (the map whose Choi matrix is the single strictly-upper-triangular unit |a><b|, a < b):
        # Hermiticity preservation fails by c, but the LOWER triangle of the Choi matrix is that of a PSD matrix
        base = dict(_build(json.dumps(spec["base"], sort_keys=True), sd))
        din, dout = base["d_in"], base["d_out"]
        c = frac(spec["c"])
        n = din * dout
        a, b = spec["ab"]
        assert 0 <= a < b < n and c >= 2 * HI and dict(base["claims"]).get("cp")
        ea = np.zeros(n, dtype=complex)
        eb = np.zeros(n, dtype=complex)
        ea[a], eb[b] = 1.0, 1.0
        A = np.sqrt(c) * ea.reshape(din, dout).T
        B = np.sqrt(c) * eb.reshape(din, dout).T
        pairs = list(base["pairs"]) + [(A, B)]
        claims = dict(hp=False, cp=False, qc=False, unitary=False)
    elif kind == "transpose":
        d = spec["d"]
        pairs = [(unit(d, d, i, j), unit(d, d, j, i)) for i in range(d) for j in range(d)]
        din = dout = d
        claims = dict(hp=True, tp=True, unital=True, cp=False, qc=False, unitary=False, rank=d * d, positive="either")
    elif kind == "neg":
        d = spec["d"]
        pairs = [(np.eye(d, dtype=complex), -np.eye(d, dtype=complex))]
        din = dout = d
        claims = dict(hp=True, cp=False, tp=False, unital=False, unitary=False, qc=False, rank=1, positive="nonpos")
    elif kind == "minus2diag":
        d = spec["d"]
        pairs = [(np.eye(d, dtype=complex), np.eye(d, dtype=complex))]
        pairs += [(np.sqrt(2) * unit(d, d, i, i), -np.sqrt(2) * unit(d, d, i, i)) for i in range(d)]
        din = dout = d
        claims = dict(hp=True, cp=False, tp=False, unital=False, unitary=False, qc=False, positive="nonpos")
    elif kind == "reduction":
        d, k = spec["d"], spec["k"]
        assert d >= 2 and k != d  # k == d sits exactly on the CP boundary
        pairs = [(np.sqrt(k) * unit(d, d, i, j), np.sqrt(k) * unit(d, d, i, j)) for i in range(d) for j in range(d)]
        pairs += [(np.eye(d, dtype=complex), -np.eye(d, dtype=complex))]
        din = dout = d
        is_cp, is_tp = k > d, (k * d - 1 == 1)
        claims = dict(hp=True, cp=is_cp, tp=is_tp, unital=is_tp, qc=is_cp and is_tp, unitary=False, rank=d * d,
                      positive="cp" if is_cp else "either")
    elif kind == "ad":
        g = frac(spec["g"])
        assert 0 < g < 1
        pairs = cp([np.array([[1, 0], [0, np.sqrt(1 - g)]], dtype=complex), np.array([[0, np.sqrt(g)], [0, 0]], dtype=complex)])
        din = dout = 2
        claims = dict(hp=True, cp=True, tp=True, qc=True, unital=False, unitary=False, rank=2, extremal=True, positive="cp")
    elif kind == "gad":
        g, p = frac(spec["g"]), frac(spec["p"])
        assert 0 < g < 1 and 0 < p < 1
        s = np.sqrt
        pairs = cp([s(p) * np.array([[1, 0], [0, s(1 - g)]], dtype=complex), s(p * g) * np.array([[0, 1], [0, 0]], dtype=complex),
                    s(1 - p) * np.array([[s(1 - g), 0], [0, 1]], dtype=complex), s((1 - p) * g) * np.array([[0, 0], [1, 0]], dtype=complex)])
        din = dout = 2
        claims = dict(hp=True, cp=True, tp=True, qc=True, unitary=False, rank=4, extremal=False, positive="cp",
                      unital=(Fraction(*map(int, spec["p"])) == Fraction(1, 2)))
    elif kind == "watrous233":
        s = 1 / np.sqrt(6)
        pairs = cp([s * np.array([[2, 0], [0, 1], [0, 1], [0, 0]], dtype=complex), s * np.array([[0, 0], [1, 0], [1, 0], [0, 2]], dtype=complex)])
        din, dout = 2, 4
        claims = dict(hp=True, cp=True, tp=True, qc=True, unital=False, unitary=False, rank=2, extremal=True, positive="cp")
    elif kind == "depol":
        d, p = spec["d"], frac(spec["p"])
        assert 0 <= p < 1
        ks = []
        for a in range(d):
            for b in range(d):
                w = (1 - p) / d ** 2 + (p if (a, b) == (0, 0) else 0.0)
                ks.append(np.sqrt(w) * weyl(d, a, b))
        pairs, din, dout = cp(ks), d, d
        claims = dict(hp=True, cp=True, tp=True, qc=True, unital=True, unitary=False, rank=d * d, extremal=False, positive="cp")
    elif kind == "dephase":
        d, p = spec["d"], frac(spec["p"])
        assert 0 <= p < 1
        ks = [np.sqrt((1 - p) / d + (p if b == 0 else 0.0)) * weyl(d, 0, b) for b in range(d)]
        pairs, din, dout = cp(ks), d, d
        claims = dict(hp=True, cp=True, tp=True, qc=True, unital=True, unitary=False, rank=d, extremal=False, positive="cp")
    elif kind == "reset":
        din, dout = spec["din"], spec["dout"]
        v = catalog.ket(dout, spec["ket"]).reshape(-1, 1)
        pairs = cp([v @ unit(1, din, 0, j) for j in range(din)])
        # {A_i^dagger A_j} = {|i><j|} is linearly independent: X -> Tr(X)|v><v| is an extreme point with d_in Kraus operators
        claims = dict(hp=True, cp=True, tp=True, qc=True, rank=din, extremal=True, positive="cp", unitary=(din == 1 and dout == 1))
        if din != dout:
            claims.update(unital=False)
        elif din > 1:
            claims.update(unital=False)  # Phi(I) = d |v><v| has rank one
    elif kind == "ptrace":
        da, db = spec["da"], spec["db"]
        pairs = cp([np.kron(np.eye(da, dtype=complex), unit(1, db, 0, j)) for j in range(db)])
        din, dout = da * db, da
        claims = dict(hp=True, cp=True, tp=True, qc=True, rank=db, positive="cp", unital=(db == 1), unitary=(db == 1))
    else:
        raise KeyError(kind)
    return (("pairs", tuple((A, B) for A, B in pairs)), ("d_in", int(din)), ("d_out", int(dout)),
            ("claims", tuple(sorted(claims.items()))), ("identity", ident))


def unpack(m: dict):
    return list(m["pairs"]), m["d_in"], m["d_out"], dict(m["claims"])


# ------------------------------------------------------------------------------------------------ arithmetic truth
def _tri(dev, scale=1.0):
    """deviation -> True (satisfied) / False (violated by a margin) / None (inside the band)."""
    if dev <= LO * scale:
        return True
    if dev >= HI * scale:
        return False
    return None


def canonical_kraus(J, d_in, d_out, cut=1e-7):
    """Linearly independent Kraus operators of a PSD Choi matrix: K_k[o,i] = sqrt(l_k) v_k[i*d_out+o]."""
    w, v = np.linalg.eigh((J + dag(J)) / 2)
    out = []
    for lam, vec in zip(w, v.T):
        if lam > cut:
            out.append(np.sqrt(lam) * vec.reshape(d_in, d_out).T)
    return out


def truth(m: dict) -> dict:
    """Verdicts from the definitions.  Keys: hp cp tp unital unitary qc rank extremal positive + 'dev' (the measured margins)."""
    pairs, din, dout, _ = unpack(m)
    J = choi_of(pairs, din, dout)
    scale = max(1.0, float(np.max(np.abs(J))))
    out, dev = {}, {}
    # Hermiticity preserving: Phi(H) Hermitian for all Hermitian H  <=>  Phi(E_ij)^dagger = Phi(E_ji)
    d_hp = 0.0
    for i in range(din):
        for j in range(din):
            d_hp = max(d_hp, float(np.max(np.abs(dag(apply_pairs(pairs, unit(din, din, i, j))) - apply_pairs(pairs, unit(din, din, j, i))))))
    dev["hp"] = d_hp
    out["hp"] = _tri(d_hp, scale)
    # completely positive: Choi matrix Hermitian and PSD (Choi's theorem)
    lam = np.linalg.eigvalsh((J + dag(J)) / 2)
    dev["lmin"] = float(lam[0])
    if out["hp"] is False:
        out["cp"] = False
    elif out["hp"] is True:
        out["cp"] = True if lam[0] >= -LO * scale else (False if lam[0] <= -HI * scale else None)
    else:
        out["cp"] = None
    # trace preserving: Tr Phi(E_ij) = delta_ij
    d_tp = 0.0
    for i in range(din):
        for j in range(din):
            img = apply_pairs(pairs, unit(din, din, i, j))
            tr = sum(img[q, q] for q in range(dout))
            d_tp = max(d_tp, abs(tr - (1.0 if i == j else 0.0)))
    dev["tp"] = float(d_tp)
    out["tp"] = _tri(d_tp)
    # unital: Phi(I) = I
    d_un = float(np.max(np.abs(apply_pairs(pairs, np.eye(din, dtype=complex)) - np.eye(dout))))
    dev["unital"] = d_un
    out["unital"] = _tri(d_un)
    # quantum channel
    if out["cp"] is False or out["tp"] is False:
        out["qc"] = False
    elif out["cp"] and out["tp"]:
        out["qc"] = True
    else:
        out["qc"] = None
    # Choi rank: singular values of J
    sv = np.linalg.svd(J, compute_uv=False)
    big = [s for s in sv if s >= HI * scale]
    small = [s for s in sv if s < HI * scale]
    out["rank"] = len(big) if all(s <= LO * scale for s in small) else None
    dev["sv_min_nonzero"] = float(min(big)) if big else 0.0
    # unitary channel: Phi = U . U^dagger
    if din != dout or out["cp"] is False:
        out["unitary"] = False
    elif out["cp"] is True and out["rank"] is not None:
        if out["rank"] != 1:
            out["unitary"] = False
        else:
            K = canonical_kraus(J, din, dout)[0]
            out["unitary"] = _tri(float(np.max(np.abs(dag(K) @ K - np.eye(din)))))
    else:
        out["unitary"] = None
    # extremal (only defined for channels): {K_a^dagger K_b} linearly independent for a linearly independent Kraus set
    out["extremal"] = None
    if out["qc"] is True and out["rank"] is not None:
        ks = canonical_kraus(J, din, dout)
        r = len(ks)
        assert r == out["rank"]
        if r * r > din * din:
            out["extremal"] = False
        else:
            M = np.array([(dag(a) @ b).reshape(-1) for a in ks for b in ks]).T
            s = np.linalg.svd(M, compute_uv=False)
            dev["extremal_smin"] = float(s[-1])
            out["extremal"] = True if s[-1] >= 1e-4 else (False if s[-1] <= 1e-11 else None)
    # positivity: CP => positive;  a witness ket with Phi(|v><v|) not PSD by a margin => not positive
    if out["cp"] is True:
        out["positive"] = "cp"
    else:
        worst = 0.0
        for name, v in catalog.kets(din).items():
            img = apply_pairs(pairs, np.outer(v, v.conj()))
            anti = float(np.max(np.abs(img - dag(img))))
            lmin = float(np.linalg.eigvalsh((img + dag(img)) / 2)[0])
            worst = max(worst, anti, -lmin)
        dev["nonpos_witness"] = worst
        out["positive"] = "nonpos" if worst >= HI * scale else "either"
    out["dev"] = dev
    return out


@lru_cache(maxsize=4096)
def _truth_cached(spec_json: str, sd: int):
    m = build(json.loads(spec_json))
    t = truth(m)
    check_claims(m, t)
    return t


def truth_of(spec: dict) -> dict:
    """truth(build(spec)) with the construction claims cross-checked (cached per worker)."""
    return _truth_cached(json.dumps(spec, sort_keys=True), catalog.seed())


def check_claims(m: dict, t: dict):
    """Construction claims vs arithmetic: any disagreement is a bug in the catalogue (harness error)."""
    claims = dict(m["claims"])
    for k, v in claims.items():
        got = t.get(k)
        if k == "extremal":
            assert got is None or got == v, (k, v, got, t["dev"])
        else:
            assert got == v, (k, v, got, t["dev"])


# ------------------------------------------------------------------------------------------------ representations
def is_cp_presentation(pairs):
    return all(A.shape == B.shape and np.array_equal(A, B) for A, B in pairs)


def representation(m: dict, rep: str):
    """The object handed to toqito for representation key `rep` (list forms are rebuilt from copies)."""
    pairs, din, dout, _ = unpack(m)
    if rep == "pairs":
        return [[A.copy(), B.copy()] for A, B in pairs]
    if rep.startswith("choi_sys1"):
        return choi_sys1(pairs, din, dout)
    if rep.startswith("choi"):
        return choi_of(pairs, din, dout)
    assert is_cp_presentation(pairs), "flat / nested / row forms need B_t = A_t"
    ks = [A.copy() for A, _ in pairs]
    if rep == "flat" or rep == "flat+dim":
        return ks
    if rep == "nested":
        return [[K] for K in ks]
    if rep == "row":
        assert len(ks) > 2
        return [ks]
    if rep == "flat_dup":
        # the same map presented with a linearly dependent Kraus list: sqrt(1/3) K_t  and  i sqrt(2/3) K_t
        return [np.sqrt(1 / 3) * K for K in ks] + [1j * np.sqrt(2 / 3) * K for K in ks]
    raise KeyError(rep)


# ------------------------------------------------------------------------------------------------ textbook actions of the built-ins
def pauli_string(idx, q):
    """P_idx for q qubits, lexicographic over (I, X, Y, Z), last factor fastest."""
    digits = []
    for _ in range(q):
        digits.append(idx % 4)
        idx //= 4
    out = np.eye(1, dtype=complex)
    for dgt in reversed(digits):
        out = np.kron(out, PAULI["IXYZ"[dgt]])
    return out


def textbook(ctor: str, par: dict, X: np.ndarray) -> np.ndarray:
    """Closed formula of each built-in channel, written entry by entry (no Kraus operators)."""
    X = np.asarray(X, dtype=complex)
    d = X.shape[0]
    tr = sum(X[q, q] for q in range(d))
    if ctor == "depolarizing":
        p = par["p"]
        return (1 - p) * tr * np.eye(d) / d + p * X
    if ctor == "dephasing":
        p = par["p"]
        return (1 - p) * np.diag(np.diag(X)) + p * X
    if ctor == "amplitude_damping":
        g, p = par["gamma"], par["prob"]
        s = np.sqrt(1 - g)
        return np.array([[p * (X[0, 0] + g * X[1, 1]) + (1 - p) * (1 - g) * X[0, 0], s * X[0, 1]],
                         [s * X[1, 0], p * (1 - g) * X[1, 1] + (1 - p) * (g * X[0, 0] + X[1, 1])]], dtype=complex)
    if ctor == "phase_damping":
        s = np.sqrt(1 - par["gamma"])
        return np.array([[X[0, 0], s * X[0, 1]], [s * X[1, 0], X[1, 1]]], dtype=complex)
    if ctor == "bitflip":
        p = par["prob"]
        return np.array([[(1 - p) * X[0, 0] + p * X[1, 1], (1 - p) * X[0, 1] + p * X[1, 0]],
                         [(1 - p) * X[1, 0] + p * X[0, 1], (1 - p) * X[1, 1] + p * X[0, 0]]], dtype=complex)
    if ctor == "pauli_channel":
        probs = par["probs"]
        q = par["q"]
        out = np.zeros_like(X)
        for idx, w in enumerate(probs):
            P = pauli_string(idx, q)
            out = out + w * (P @ X @ dag(P))
        return out
    if ctor == "reduction":
        return par["k"] * tr * np.eye(d) - X
    if ctor == "choi":
        a, b, c = par["a"], par["b"], par["c"]
        out = -X.copy()
        for i in range(3):
            out[i, i] = a * X[i, i] + b * X[(i + 1) % 3, (i + 1) % 3] + c * X[(i + 2) % 3, (i + 2) % 3]
        return out
    raise KeyError(ctor)


def textbook_choi(ctor, par, d):
    J = np.zeros((d * d, d * d), dtype=complex)
    for i in range(d):
        for j in range(d):
            J[i * d:(i + 1) * d, j * d:(j + 1) * d] = textbook(ctor, par, unit(d, d, i, j))
    return J


def textbook_flags(ctor, par, d):
    """(cp, tp, unital) of the textbook map, each True / False / None (None: on the boundary, not asserted)."""
    if ctor in ("depolarizing", "dephasing", "phase_damping", "bitflip", "pauli_channel"):
        return True, True, True
    if ctor == "amplitude_damping":
        dev = abs(par["gamma"] * (2 * par["prob"] - 1))
        return True, True, _tri(dev)
    if ctor == "reduction":
        k = par["k"]
        cp_ = None if k == d else (k > d)
        if d == 1:
            cp_ = k >= 1
        tp = (k * d - 1 == 1)
        return cp_, tp, tp
    if ctor == "choi":
        a, b, c = par["a"], par["b"], par["c"]
        lam = min(b, c, a + 1, a - 2)
        cp_ = None if abs(lam) < HI else (lam > 0)
        s = a + b + c
        return cp_, (s == 1), (s == 1)
    raise KeyError(ctor)


def choi_map_spectrum(a, b, c):
    """Eigenvalues of toqito.channels.choi(a,b,c) in closed form: b (x3), c (x3), a+1 (x2), a-2."""
    return sorted([b] * 3 + [c] * 3 + [a + 1] * 2 + [a - 2])


# ------------------------------------------------------------------------------------------------ self-check (no toqito)
def selfcheck() -> int:
    n = 0
    specs = [{"kind": "unitary", "d": 3, "u": "F"}, {"kind": "stine", "din": 2, "dout": 3, "r": 2, "u": "g0"},
             {"kind": "hp_pair", "din": 2, "dout": 3, "fam": "s", "k": 0}, {"kind": "nonhp_pair", "din": 3, "dout": 2, "fam": "g", "k": 1, "r": 2},
             {"kind": "transpose", "d": 3}, {"kind": "reduction", "d": 3, "k": 1}, {"kind": "ptrace", "da": 2, "db": 2},
             {"kind": "depol", "d": 3, "p": [1, 4]}, {"kind": "gad", "g": [1, 3], "p": [1, 4]}]
    for spec in specs:
        m = build(spec)
        pairs, din, dout, _ = unpack(m)
        J = choi_of(pairs, din, dout)
        assert np.allclose(J, choi_entrywise(pairs, din, dout), atol=1e-12), spec
        X = struct_matrix(din, din, 5)
        assert np.allclose(apply_choi(J, X, dout), apply_pairs(pairs, X), atol=1e-12), spec
        # sys=1 Choi matrix is the swap-conjugated one
        J1 = choi_sys1(pairs, din, dout)
        for i, j, o, p in itertools.product(range(din), range(din), range(dout), range(dout)):
            assert abs(J1[o * din + i, p * din + j] - J[i * dout + o, j * dout + p]) < 1e-12
        check_claims(m, truth(m))
        n += 1
    # textbook formulas vs Kraus sums written independently
    X = struct_matrix(2, 2, 3)
    g, p = 0.3, 0.25
    m = build({"kind": "gad", "g": [3, 10], "p": [1, 4]})
    assert np.allclose(apply_pairs(list(m["pairs"]), X), textbook("amplitude_damping", {"gamma": g, "prob": p}, X), atol=1e-12)
    m = build({"kind": "depol", "d": 3, "p": [1, 4]})
    X3 = struct_matrix(3, 3, 4)
    assert np.allclose(apply_pairs(list(m["pairs"]), X3), textbook("depolarizing", {"p": 0.25}, X3), atol=1e-12)
    m = build({"kind": "dephase", "d": 3, "p": [1, 4]})
    assert np.allclose(apply_pairs(list(m["pairs"]), X3), textbook("dephasing", {"p": 0.25}, X3), atol=1e-12)
    m = build({"kind": "reduction", "d": 3, "k": 2})
    assert np.allclose(apply_pairs(list(m["pairs"]), X3), textbook("reduction", {"k": 2}, X3), atol=1e-12)
    Jc = textbook_choi("choi", {"a": 1, "b": 2, "c": 3}, 3)
    assert np.allclose(np.linalg.eigvalsh(Jc), choi_map_spectrum(1, 2, 3), atol=1e-9)
    return n + 5


def from_choi(J, d_in, d_out) -> dict:
    """A map given by its Choi matrix, as reference pairs (SVD: J = sum_k s_k |a_k>><<b_k|), so that truth() applies to it."""
    u, s, vh = np.linalg.svd(np.asarray(J, dtype=complex))
    pairs = []
    for k in range(len(s)):
        if s[k] > 1e-13 * max(1.0, s[0]):
            A = np.sqrt(s[k]) * u[:, k].reshape(d_in, d_out).T
            B = np.sqrt(s[k]) * vh[k, :].conj().reshape(d_in, d_out).T
            pairs.append((A, B))
    if not pairs:
        pairs = [(np.zeros((d_out, d_in), dtype=complex), np.zeros((d_out, d_in), dtype=complex))]
    return {"pairs": tuple(pairs), "d_in": d_in, "d_out": d_out, "claims": (), "identity": False}


def list_dependence(ks):
    """Is the Kraus list linearly dependent?  True / False / None (inside the band) from the Gram matrix Tr(K_s^dagger K_t)."""
    G = np.array([[np.sum(a.conj() * b) for b in ks] for a in ks])
    w = np.linalg.eigvalsh((G + dag(G)) / 2)
    top = max(float(w[-1]), 1e-300)
    if w[0] <= 1e-12 * top:
        return True
    if w[0] >= 1e-6 * top:
        return False
    return None
