"""Certified primal/dual brackets for state discrimination / exclusion (DESIGN 4.1 item 3), shared by C10 and C11.

Method.  For an ensemble {w_i, rho_i} the harness writes down its OWN primal and dual semidefinite program in cvxpy and
solves them with CLARABEL (toqito uses picos + CVXOPT).  The solver output is *not trusted*: each returned point is
repaired arithmetically into an exactly feasible one (clip negative eigenvalues, renormalise so that sum_i M_i = I; shift
the dual operator by its largest eigenvalue violation) and is then verified with plain numpy (``eigvalsh``, traces).
Weak duality gives  L <= optimum <= U  whatever any solver did.  The same arithmetic is offered for operators returned by
toqito (``povm_report``, ``gram_primal_report`` ...).

Only numpy primitives that are not the mechanism under test are used outside the cvxpy solve: eigh/eigvalsh, svd, @.
"""

from __future__ import annotations

import numpy as np

EPS_IPM = 1e-4  # tolerance class "ipm" (picos + CVXOPT values)
ARITH = 1e-10  # slack granted to the harness's own floating-point verification of a repaired point
WIDE = 1e-5  # a bracket wider than this is reported by the clauses as indeterminate (never as a violation)


# ------------------------------------------------------------------------------------------------ small linear algebra
def herm(a: np.ndarray) -> np.ndarray:
    a = np.asarray(a, dtype=complex)
    return (a + a.conj().T) / 2


def lam_min(a) -> float:
    return float(np.linalg.eigvalsh(herm(a))[0])


def lam_max(a) -> float:
    return float(np.linalg.eigvalsh(herm(a))[-1])


def psd_clip(a: np.ndarray) -> np.ndarray:
    w, v = np.linalg.eigh(herm(a))
    w = np.clip(w, 0.0, None)
    return herm((v * w) @ v.conj().T)


def as_density(x) -> np.ndarray:
    """The harness's own reading of the three accepted input forms (1-D ket, column/row ket, square matrix)."""
    x = np.asarray(x)
    if x.ndim == 1:
        v = x.astype(complex)
        return np.outer(v, v.conj())
    if x.ndim == 2 and (x.shape[0] == 1 or x.shape[1] == 1):
        v = x.reshape(-1).astype(complex)
        return np.outer(v, v.conj())
    if x.ndim == 2 and x.shape[0] == x.shape[1]:
        return x.astype(complex)
    raise ValueError("not a ket or a square matrix")


def to_np(m) -> np.ndarray:
    """picos variable / picos expression / cvxopt matrix / ndarray -> complex ndarray."""
    if hasattr(m, "value") and not isinstance(m, np.ndarray):
        m = m.value
    if m is None:
        raise ValueError("no value")
    a = np.array(m, dtype=complex)
    if a.ndim == 0:
        a = a.reshape(1, 1)
    return a


def kernel_projector(rho: np.ndarray, tol: float = 1e-12) -> np.ndarray:
    w, v = np.linalg.eigh(herm(rho))
    k = v[:, w < tol]
    return k @ k.conj().T


def trace_norm_h(a) -> float:
    return float(np.sum(np.abs(np.linalg.eigvalsh(herm(a)))))


# ------------------------------------------------------------------------------------------------ feasibility repairs
def repair_povm(ms):
    """Clip to PSD and renormalise by S^{-1/2} so that the operators sum to the identity.  None if S is far from I."""
    ms = [psd_clip(m) for m in ms]
    s = herm(sum(ms))
    w, v = np.linalg.eigh(s)
    if w[0] < 0.5:
        return None
    r = (v * w ** -0.5) @ v.conj().T
    return [herm(r @ m @ r) for m in ms]


def povm_defect(ms) -> tuple[float, float]:
    """(most negative eigenvalue over the operators (<= 0), operator-norm distance of the sum from I)."""
    d = ms[0].shape[0]
    neg = min(0.0, min(lam_min(m) for m in ms))
    dev = float(np.max(np.abs(np.linalg.eigvalsh(herm(sum(ms)) - np.eye(d)))))
    return neg, dev


def _exact_povm(ms) -> bool:
    neg, dev = povm_defect(ms)
    return neg >= -1e-13 and dev <= 1e-12


def success(rhos, w, ms) -> float:
    return float(sum(w[i] * np.trace(rhos[i] @ ms[i]).real for i in range(len(rhos))))


def _solve(problem) -> bool:
    import cvxpy as cp

    for solver, kw in ((cp.CLARABEL, {}), (cp.SCS, {"eps": 1e-9, "max_iters": 20000})):
        try:
            problem.solve(solver=solver, **kw)
        except Exception:  # noqa: BLE001 - any solver failure just means "try the next one"
            continue
        if problem.status in ("optimal", "optimal_inaccurate"):
            return True
    return False


# ------------------------------------------------------------------------------------------------ min-error discrimination
def bracket_discrimination(rhos, w):
    """max sum_i w_i Tr(rho_i M_i) over POVMs.  Returns {"L","U","M","Y"} or None (solver failure)."""
    import cvxpy as cp

    n, d = len(rhos), rhos[0].shape[0]
    rhos = [herm(r) for r in rhos]
    mv = [cp.Variable((d, d), hermitian=True) for _ in range(n)]
    prim = cp.Problem(cp.Maximize(sum(float(w[i]) * cp.real(cp.trace(rhos[i] @ mv[i])) for i in range(n))),
                      [m >> 0 for m in mv] + [sum(mv) == np.eye(d)])
    if not _solve(prim):
        return None
    ms = repair_povm([m.value for m in mv])
    if ms is None or not _exact_povm(ms):
        return None
    low = success(rhos, w, ms) - ARITH

    yv = cp.Variable((d, d), hermitian=True)
    dual = cp.Problem(cp.Minimize(cp.real(cp.trace(yv))), [yv >> float(w[i]) * rhos[i] for i in range(n)])
    cands = []
    if _solve(dual):
        cands.append(herm(yv.value))
    cands.append(herm(sum(w[i] * rhos[i] @ ms[i] for i in range(n))))  # the primal point's own Lagrange operator
    best = None
    for y in cands:
        delta = max(0.0, max(lam_max(w[i] * rhos[i] - y) for i in range(n)))
        y = y + delta * np.eye(d)
        if min(lam_min(y - w[i] * rhos[i]) for i in range(n)) < -1e-12:
            continue
        up = float(np.trace(y).real) + ARITH
        if best is None or up < best[0]:
            best = (up, y)
    if best is None:
        return None
    return {"L": low, "U": best[0], "M": ms, "Y": best[1]}


def _herm_basis(k: int):
    out = []
    for a in range(k):
        e = np.zeros((k, k), dtype=complex)
        e[a, a] = 1
        out.append(e)
        for b in range(a + 1, k):
            e = np.zeros((k, k), dtype=complex)
            e[a, b] = e[b, a] = 1
            out.append(e)
            e = np.zeros((k, k), dtype=complex)
            e[a, b], e[b, a] = 1j, -1j
            out.append(e)
    return out


def _hvec(h: np.ndarray) -> np.ndarray:
    return np.concatenate([h.real.ravel(), h.imag.ravel()])


def polish_excluding(ms, rhos):
    """Move a nearly excluding POVM onto the affine set {M_i = V_i B_i V_i^dagger (V_i spans ker rho_i), sum_i M_i = I} by a
    minimum-norm least-squares correction of the B_i, clip to PSD and renormalise.  Pure arithmetic; the caller re-verifies
    the result (POVM by eigvalsh, value by traces), so a failed polish can only leave the bracket as wide as it was."""
    d = rhos[0].shape[0]
    vs = []
    for r in rhos:
        ev, v = np.linalg.eigh(herm(r))
        vs.append(v[:, ev < 1e-12])
    bs = [v.conj().T @ m @ v for v, m in zip(vs, ms)]
    cols, index = [], []
    for i, v in enumerate(vs):
        for e in _herm_basis(v.shape[1]):
            cols.append(_hvec(v @ e @ v.conj().T))
            index.append((i, e))
    if not cols:
        return None
    s = sum(v @ b @ v.conj().T for v, b in zip(vs, bs))
    x = np.linalg.lstsq(np.array(cols).T, _hvec(np.eye(d) - s), rcond=None)[0]
    for (i, e), xi in zip(index, x):
        bs[i] = bs[i] + xi * e
    return repair_povm([v @ psd_clip(b) @ v.conj().T if v.shape[1] else np.zeros((d, d), dtype=complex) for v, b in zip(vs, bs)])


# ------------------------------------------------------------------------------------------------ min-error exclusion
def bracket_exclusion(rhos, w):
    """min sum_i w_i Tr(rho_i M_i) over POVMs (w: priors, or all ones for the unnormalised value)."""
    import cvxpy as cp

    n, d = len(rhos), rhos[0].shape[0]
    rhos = [herm(r) for r in rhos]
    mv = [cp.Variable((d, d), hermitian=True) for _ in range(n)]
    prim = cp.Problem(cp.Minimize(sum(float(w[i]) * cp.real(cp.trace(rhos[i] @ mv[i])) for i in range(n))),
                      [m >> 0 for m in mv] + [sum(mv) == np.eye(d)])
    if not _solve(prim):
        return None
    ms = repair_povm([m.value for m in mv])
    if ms is None or not _exact_povm(ms):
        return None
    up = success(rhos, w, ms)
    if up < 1e-6:
        # polish towards an exactly excluding measurement (every M_i inside the kernel of rho_i, sum exactly I)
        for _ in range(3):
            ms2 = polish_excluding(ms, rhos)
            if ms2 is None or not _exact_povm(ms2):
                break
            up2 = success(rhos, w, ms2)
            if up2 >= up:
                break
            up, ms = up2, ms2
    up = up + ARITH

    yv = cp.Variable((d, d), hermitian=True)
    dual = cp.Problem(cp.Maximize(cp.real(cp.trace(yv))), [yv << float(w[i]) * rhos[i] for i in range(n)])
    cands = []
    if _solve(dual):
        cands.append(herm(yv.value))
    cands.append(herm(sum(w[i] * rhos[i] @ ms[i] for i in range(n))))
    best = None
    for y in cands:
        delta = max(0.0, max(lam_max(y - w[i] * rhos[i]) for i in range(n)))
        y = y - delta * np.eye(d)
        if max(lam_max(y - w[i] * rhos[i]) for i in range(n)) > 1e-12:
            continue
        low = float(np.trace(y).real) - ARITH
        if best is None or low > best[0]:
            best = (low, y)
    if best is None:
        return None
    return {"L": min(best[0], up), "U": up, "M": ms, "Y": best[1]}


# ------------------------------------------------------------------------------------------------ reports on toqito's operators
def povm_report(ms, rhos, w, value, sense):
    """Arithmetic certificate for operators returned by toqito.

    sense = "max": discrimination (Y = sum w_i rho_i M_i must satisfy Y >= w_i rho_i);
    sense = "min": exclusion      (Y <= w_i rho_i).
    Returns dict of defects, all >= 0: "neg" (negativity), "sum" (||sum M - I||), "attain" (|sum w Tr(rho M) - value|),
    "yherm" (||Y - Y^dagger||), "yfeas" (largest eigenvalue violation of the dual constraint).
    """
    ms = [np.asarray(m, dtype=complex) for m in ms]
    d = rhos[0].shape[0]
    neg = max(0.0, -min(lam_min(m) for m in ms))
    nonherm = max(float(np.max(np.abs(m - m.conj().T))) for m in ms)
    dev = float(np.linalg.norm(sum(ms) - np.eye(d), 2))
    att = float(sum(w[i] * np.trace(rhos[i] @ ms[i]) for i in range(len(ms))).real)
    y = sum(w[i] * rhos[i] @ ms[i] for i in range(len(ms)))
    yherm = float(np.linalg.norm(y - y.conj().T, 2))
    yh = herm(y)
    if sense == "max":
        yfeas = max(0.0, max(lam_max(w[i] * rhos[i] - yh) for i in range(len(ms))))
    else:
        yfeas = max(0.0, max(lam_max(yh - w[i] * rhos[i]) for i in range(len(ms))))
    return {"neg": neg, "nonherm": nonherm, "sum": dev, "attained": att, "attain": abs(att - float(value)), "yherm": yherm,
            "yfeas": yfeas, "ytrace": float(np.trace(yh).real)}


# ------------------------------------------------------------------------------------------------ closed forms
def helstrom(rhos, w) -> float:
    return 0.5 * (float(w[0] + w[1]) + trace_norm_h(w[0] * rhos[0] - w[1] * rhos[1]))


def exclusion_two(rhos, w) -> float:
    """two states: min over {M, I-M} of w0 Tr(rho0 M) + w1 Tr(rho1 (I-M)) = 1/2 (w0 + w1 - ||w0 rho0 - w1 rho1||_1)."""
    return 0.5 * (float(w[0] + w[1]) - trace_norm_h(w[0] * rhos[0] - w[1] * rhos[1]))


def pretty_good(rhos, w) -> float:
    """Success probability of the pretty-good (square-root) measurement, computed on the support of sigma."""
    sigma = herm(sum(w[i] * rhos[i] for i in range(len(rhos))))
    ev, v = np.linalg.eigh(sigma)
    keep = ev > 1e-12
    r = (v[:, keep] * ev[keep] ** -0.5) @ v[:, keep].conj().T
    return float(sum(w[i] * np.trace(rhos[i] @ r @ (w[i] * rhos[i]) @ r).real for i in range(len(rhos))))


def pairwise_orthogonal(rhos, tol=1e-12) -> bool:
    return all(abs(np.trace(rhos[i] @ rhos[j])) < tol for i in range(len(rhos)) for j in range(i))


def max_pair_overlap(rhos) -> float:
    return max([abs(np.trace(rhos[i] @ rhos[j])) for i in range(len(rhos)) for j in range(i)] or [0.0])


# ------------------------------------------------------------------------------------------------ unambiguous discrimination
def gram(kets) -> np.ndarray:
    """G[i, j] = <psi_i | psi_j>, by explicit loops."""
    n = len(kets)
    g = np.zeros((n, n), dtype=complex)
    for i in range(n):
        for j in range(n):
            g[i, j] = np.sum(np.conj(kets[i]) * kets[j])
    return g


def residuals(kets):
    """For every ket: (a_i, u_i) with a_i = squared norm of its component orthogonal to the span of the *other* kets and
    u_i the normalised component (None if a_i = 0).  Returns None if some a_i is in the ill-conditioned band."""
    out = []
    n = len(kets)
    for i in range(n):
        others = np.array([kets[j] for j in range(n) if j != i], dtype=complex).T  # d x (n-1)
        u, s, _ = np.linalg.svd(others, full_matrices=False)
        if np.any((s > 1e-9) & (s < 1e-4)):
            return None
        b = u[:, s >= 1e-4]
        r = kets[i] - b @ (b.conj().T @ kets[i])
        a = float(np.vdot(r, r).real)
        if 1e-9 < a < 1e-6:
            return None
        out.append((a, r / np.sqrt(a)) if a >= 1e-6 else (a, None))
    return out


def bracket_unambiguous(kets, w):
    """Optimal unambiguous discrimination of pure states in OPERATOR form (independent of the Gram-matrix program
    toqito implements).

    An unambiguous measurement {M_1..M_n, M_?} has M_i >= 0 with Tr(M_i rho_j) = 0 for j != i, so M_i |psi_j> = 0: after
    compressing to S = span{psi_j} (which changes no probability) M_i is supported on the orthocomplement, inside S, of
    span{psi_j : j != i}, which is spanned by u_i = normalised component of psi_i orthogonal to the others (or is {0}).
    Hence M_i = c_i u_i u_i^dagger and the problem is
        max sum_i w_i a_i c_i   s.t.  c >= 0,  sum_i c_i u_i u_i^dagger <= I         (a_i = |<u_i|psi_i>|^2)
    with dual   min Tr W   s.t.  W >= 0,  <u_i|W|u_i> >= w_i a_i
    (weak duality: sum w_i a_i c_i <= sum c_i <u_i|W|u_i> = Tr(W sum c_i u_i u_i^dagger) <= Tr W).
    The lower bound is re-verified from the definition: M_i >= 0, I - sum M_i >= 0, Tr(M_i rho_j) = 0 (j != i).
    """
    import cvxpy as cp

    kets = [np.asarray(k, dtype=complex).reshape(-1) for k in kets]
    n, d = len(kets), kets[0].shape[0]
    res = residuals(kets)
    if res is None:
        return None
    det = [i for i in range(n) if res[i][1] is not None]
    slack = sum(w[i] * res[i][0] for i in range(n) if res[i][1] is None)  # <= n * 1e-9
    if not det:
        return {"L": 0.0, "U": slack + ARITH, "a": [r[0] for r in res], "c": [0.0] * n}
    us = {i: res[i][1] for i in det}
    ps = {i: np.outer(us[i], us[i].conj()) for i in det}
    a = {i: res[i][0] for i in det}

    cv = cp.Variable(len(det), nonneg=True)
    prim = cp.Problem(cp.Maximize(sum(float(w[i] * a[i]) * cv[k] for k, i in enumerate(det))),
                      [np.eye(d) - sum(cv[k] * ps[i] for k, i in enumerate(det)) >> 0])
    if not _solve(prim):
        return None
    c = np.clip(np.asarray(cv.value, dtype=float), 0.0, None)
    top = lam_max(sum(c[k] * ps[i] for k, i in enumerate(det)))
    if top > 1.0:
        c = c / (top * (1 + 1e-13))
    # verification from the definition
    ms = {i: c[k] * ps[i] for k, i in enumerate(det)}
    if lam_min(np.eye(d) - sum(ms.values())) < -1e-12:
        return None
    for i in det:
        for j in range(n):
            if j != i and abs(np.vdot(kets[j], ms[i] @ kets[j])) > 1e-12:
                return None
    low = float(sum(w[i] * np.vdot(kets[i], ms[i] @ kets[i]).real for i in det)) - ARITH

    wv = cp.Variable((d, d), hermitian=True)
    dual = cp.Problem(cp.Minimize(cp.real(cp.trace(wv))),
                      [wv >> 0] + [cp.real(cp.trace(ps[i] @ wv)) >= float(w[i] * a[i]) for i in det])
    if not _solve(dual):
        return None
    wm = psd_clip(wv.value)
    scale = 1.0
    for i in det:
        have = float(np.vdot(us[i], wm @ us[i]).real)
        need = float(w[i] * a[i])
        if have < need:
            if have <= 1e-14:
                return None
            scale = max(scale, need / have)
    wm = wm * scale * (1 + 1e-13)
    up = float(np.trace(wm).real) + slack + ARITH
    cfull = [0.0] * n
    for k, i in enumerate(det):
        cfull[i] = float(c[k])
    return {"L": max(0.0, low), "U": up, "a": [r[0] for r in res], "c": cfull}


def gram_primal_report(q, kets, w, value):
    """toqito's unambiguous primal point: q >= 0, Gram - diag(q) >= 0, w.q = value."""
    q = np.asarray(q, dtype=complex).reshape(-1)
    g = gram(kets)
    return {"imag": float(np.max(np.abs(q.imag))), "neg": max(0.0, -float(q.real.min())),
            "feas": max(0.0, -lam_min(g - np.diag(q.real))),
            "attain": abs(float(np.dot(np.asarray(w, dtype=float), q.real)) - float(value))}


def gram_dual_report(z, kets, w, value):
    """toqito's unambiguous dual point: Z >= 0 (Hermitian), Z_ii >= w_i, Tr(Gram Z) = value."""
    z = np.asarray(z, dtype=complex)
    g = gram(kets)
    return {"nonherm": float(np.max(np.abs(z - z.conj().T))), "neg": max(0.0, -lam_min(z)),
            "diag": max(0.0, max(float(w[i]) - z[i, i].real for i in range(len(kets)))),
            "attain": abs(float(np.trace(g @ z).real) - float(value))}


# ------------------------------------------------------------------------------------------------ unambiguous exclusion
def bracket_unambiguous_exclusion(rhos, w):
    """The program in state_exclusion's docstring (strategy="unambiguous"):
        min Tr(sigma (I - sum M_i))  s.t.  M_i >= 0, sum M_i <= I, Tr(M_i rho_i) = 0          (sigma = sum w_i rho_i)
        max Tr(sigma) - Tr N         s.t.  N >= 0,  N + a_i w_i rho_i >= sigma
    (weak duality: sum_i Tr(M_i sigma) <= sum_i Tr(M_i (N + a_i w_i rho_i)) = Tr(S N) <= Tr N)."""
    import cvxpy as cp

    n, d = len(rhos), rhos[0].shape[0]
    rhos = [herm(r) for r in rhos]
    sigma = herm(sum(w[i] * rhos[i] for i in range(n)))
    ks = [kernel_projector(r) for r in rhos]
    # primal, parametrised inside the kernels so that Tr(M_i rho_i) = 0 holds by construction
    mv = [cp.Variable((d, d), hermitian=True) for _ in range(n)]
    cons = [m >> 0 for m in mv] + [np.eye(d) - sum(mv) >> 0] + [cp.real(cp.trace(rhos[i] @ mv[i])) == 0 for i in range(n)]
    prim = cp.Problem(cp.Minimize(cp.real(cp.trace(sigma @ (np.eye(d) - sum(mv))))), cons)
    if not _solve(prim):
        return None
    ms = [psd_clip(k @ m.value @ k) for k, m in zip(ks, mv)]
    top = lam_max(sum(ms))
    if top > 1.0:
        ms = [m / (top * (1 + 1e-13)) for m in ms]
    if lam_min(np.eye(d) - sum(ms)) < -1e-12 or max(abs(np.trace(r @ m)) for r, m in zip(rhos, ms)) > 1e-12:
        return None
    up = float(np.trace(sigma @ (np.eye(d) - sum(ms))).real) + ARITH

    nv = cp.Variable((d, d), hermitian=True)
    av = cp.Variable(n)
    dual = cp.Problem(cp.Maximize(float(np.trace(sigma).real) - cp.real(cp.trace(nv))),
                      [nv >> 0] + [nv + av[i] * (float(w[i]) * rhos[i]) >> sigma for i in range(n)])
    if not _solve(dual):
        return None
    nm = psd_clip(nv.value)
    avv = np.asarray(av.value, dtype=float)
    delta = max(0.0, max(lam_max(sigma - nm - avv[i] * w[i] * rhos[i]) for i in range(n)))
    nm = nm + delta * np.eye(d)
    if min(lam_min(nm + avv[i] * w[i] * rhos[i] - sigma) for i in range(n)) < -1e-12:
        return None
    low = float(np.trace(sigma).real - np.trace(nm).real) - ARITH
    return {"L": min(low, up), "U": up}
