"""Reference models for C14 (entanglement / entropy quantities).

Boring by construction: explicit loops over multi-indices for every reshuffling (amplitude matrix, partial transpose,
realignment), closed forms written directly in the Schmidt coefficients, and numpy only for primitives that are not the
mechanism under test (``svd`` / ``eigvalsh`` of an explicitly built matrix, ``kron``, ``@``).

Index convention (the statement's): a bipartite vector v in C^dA (x) C^dB has amplitudes v[a*dB + b]; an operator X on
that space has entries X[a*dB + b, a'*dB + b'].
"""

from __future__ import annotations

import math

import numpy as np


# ------------------------------------------------------------------------------------------------ construction
def schmidt_coefficients(parts) -> list:
    """Partition (p_1 >= p_2 >= ...) -> unit 2-norm Schmidt vector p / ||p||_2 (non-increasing, all > 0)."""
    nrm = math.sqrt(sum(int(p) * int(p) for p in parts))
    return [int(p) / nrm for p in parts]


def schmidt_state(d_a: int, d_b: int, s, u_a: np.ndarray, u_b: np.ndarray) -> np.ndarray:
    """sum_i s_i |a_i>|b_i> with a_i, b_i the i-th columns of the local unitaries (1-D complex vector)."""
    v = np.zeros(d_a * d_b, dtype=complex)
    for i, si in enumerate(s):
        for a in range(d_a):
            for b in range(d_b):
                v[a * d_b + b] += si * u_a[a, i] * u_b[b, i]
    return v


def proj(v) -> np.ndarray:
    v = np.asarray(v, dtype=complex).reshape(-1)
    m = np.outer(v, v.conj())
    return (m + m.conj().T) / 2


def herm(m) -> np.ndarray:
    return (m + m.conj().T) / 2


# ------------------------------------------------------------------------------------------------ closed forms in s_i
def negativity_cf(s) -> float:
    return (sum(s) ** 2 - 1.0) / 2.0


def log_negativity_cf(s) -> float:
    return math.log2(sum(s) ** 2)


def entropy_bits(p) -> float:
    return -sum(x * math.log2(x) for x in p if x > 0)


def eof_cf(s) -> float:
    return entropy_bits([x * x for x in s])


def concurrence_cf(s) -> float:
    return 2.0 * s[0] * s[1] if len(s) > 1 else 0.0


def sk_vector_norm_cf(s, k: int) -> float:
    top = sorted(s, reverse=True)[:k]
    return math.sqrt(sum(x * x for x in top))


def l1_coherence_of_vector(v) -> float:
    """sum_{i != j} |v_i conj(v_j)| by a double loop."""
    a = [abs(complex(x)) for x in np.asarray(v).reshape(-1)]
    tot = 0.0
    for i in range(len(a)):
        for j in range(len(a)):
            if i != j:
                tot += a[i] * a[j]
    return tot


def l1_coherence_of_matrix(rho) -> float:
    rho = np.asarray(rho)
    tot = 0.0
    for i in range(rho.shape[0]):
        for j in range(rho.shape[1]):
            if i != j:
                tot += abs(complex(rho[i, j]))
    return tot


# ------------------------------------------------------------------------------------------------ index reshufflings
def amplitude_matrix(v, d_a: int, d_b: int) -> np.ndarray:
    v = np.asarray(v).reshape(-1)
    m = np.zeros((d_a, d_b), dtype=complex)
    for a in range(d_a):
        for b in range(d_b):
            m[a, b] = v[a * d_b + b]
    return m


def schmidt_of_vector(v, d_a, d_b) -> np.ndarray:
    return np.linalg.svd(amplitude_matrix(v, d_a, d_b), compute_uv=False)


def partial_transpose_b(rho, d_a: int, d_b: int) -> np.ndarray:
    """Transpose on the second factor: out[(a,b'),(a',b)] = rho[(a,b),(a',b')]."""
    out = np.zeros_like(np.asarray(rho, dtype=complex))
    for a in range(d_a):
        for b in range(d_b):
            for a2 in range(d_a):
                for b2 in range(d_b):
                    out[a * d_b + b2, a2 * d_b + b] = rho[a * d_b + b, a2 * d_b + b2]
    return out


def realigned(rho, d_a: int, d_b: int) -> np.ndarray:
    """R[(a,a'),(b,b')] = rho[(a,b),(a',b')]; rank(R) is the operator Schmidt rank, svd(R) the operator Schmidt coefficients."""
    out = np.zeros((d_a * d_a, d_b * d_b), dtype=complex)
    for a in range(d_a):
        for b in range(d_b):
            for a2 in range(d_a):
                for b2 in range(d_b):
                    out[a * d_a + a2, b * d_b + b2] = rho[a * d_b + b, a2 * d_b + b2]
    return out


def rank_with_margin(sv, lo=1e-9, hi=1e-4):
    """(rank, decidable): singular values above `hi` count, below `lo` do not; anything in between is undecidable."""
    sv = np.asarray(sv, dtype=float)
    scale = max(1.0, float(sv.max()) if sv.size else 1.0)
    big = int(np.sum(sv > hi * scale))
    small = int(np.sum(sv < lo * scale))
    return big, (big + small == sv.size)


# ------------------------------------------------------------------------------------------------ definitions (mixed states)
def trace_norm_hermitian(m) -> float:
    return float(np.sum(np.abs(np.linalg.eigvalsh(herm(m)))))


def negativity_ref(rho, d_a, d_b) -> float:
    return (trace_norm_hermitian(partial_transpose_b(rho, d_a, d_b)) - 1.0) / 2.0


def negativity_alt(rho, d_a, d_b) -> float:
    """Second formulation: sum of |negative eigenvalues| of the partial transpose (needs Tr rho = 1)."""
    w = np.linalg.eigvalsh(herm(partial_transpose_b(rho, d_a, d_b)))
    return float(-np.sum(w[w < 0]))


def log_negativity_ref(rho, d_a, d_b) -> float:
    return math.log2(trace_norm_hermitian(partial_transpose_b(rho, d_a, d_b)))


def min_pt_eig(rho, d_a, d_b) -> float:
    return float(np.linalg.eigvalsh(herm(partial_transpose_b(rho, d_a, d_b)))[0])


def purity_ref(rho) -> float:
    rho = np.asarray(rho)
    return float(sum(abs(complex(x)) ** 2 for x in rho.reshape(-1)))


def vn_entropy_ref(rho) -> float:
    w = np.linalg.eigvalsh(herm(rho))
    return float(-sum(x * math.log2(x) for x in w if x > 1e-15))


def psd_sqrt(rho) -> np.ndarray:
    w, v = np.linalg.eigh(herm(rho))
    w = np.clip(w, 0.0, None)
    return (v * np.sqrt(w)) @ v.conj().T


def concurrence_ref(rho) -> float:
    """Wootters concurrence of a two-qubit state through the Hermitian matrix sqrt(rho) rho~ sqrt(rho) (eigvalsh)."""
    sy = np.array([[0, -1j], [1j, 0]])
    yy = np.kron(sy, sy)
    tilde = yy @ np.asarray(rho).conj() @ yy
    r = psd_sqrt(rho)
    w = np.linalg.eigvalsh(herm(r @ tilde @ r))
    lam = np.sqrt(np.clip(w, 0.0, None))[::-1]
    return float(max(0.0, lam[0] - lam[1] - lam[2] - lam[3]))


def eof_of_concurrence(c: float) -> float:
    x = (1.0 + math.sqrt(max(0.0, 1.0 - c * c))) / 2.0
    return entropy_bits([x, 1.0 - x])


def operator_schmidt_coefficients(rho, d_a, d_b) -> np.ndarray:
    return np.linalg.svd(realigned(rho, d_a, d_b), compute_uv=False)


# ------------------------------------------------------------------------------------------------ S(k) helpers
def truncate_to_schmidt_rank(v, d_a, d_b, k):
    """Best Schmidt-rank-k approximation of v, normalised (None if it vanishes)."""
    u, s, vh = np.linalg.svd(amplitude_matrix(v, d_a, d_b))
    m = (u[:, :k] * s[:k]) @ vh[:k, :]
    w = m.reshape(-1)
    n = np.linalg.norm(w)
    return None if n < 1e-12 else w / n


def see_saw_product(x, d_a, d_b, a0, b0, iters=60):
    """Alternating maximisation of <a b|X|a b> over unit product vectors for Hermitian X, from the start (a0, b0).
    Returns (value, vector); the value is attained by the returned explicit product vector (a certified lower bound
    on the S(1)-norm of X)."""
    xt = np.asarray(x, dtype=complex).reshape(d_a, d_b, d_a, d_b)
    a = np.asarray(a0, dtype=complex)
    b = np.asarray(b0, dtype=complex)
    val = -np.inf
    for _ in range(iters):
        ma = np.einsum("j,ijkl,l->ik", b.conj(), xt, b)
        w, vec = np.linalg.eigh(herm(ma))
        a = vec[:, -1]
        mb = np.einsum("i,ijkl,k->jl", a.conj(), xt, a)
        w, vec = np.linalg.eigh(herm(mb))
        b = vec[:, -1]
        if w[-1] <= val + 1e-13:
            val = max(val, float(w[-1]))
            break
        val = float(w[-1])
    v = np.kron(a, b)
    return float(np.real(v.conj() @ np.asarray(x) @ v)), v


def expectation(x, v) -> float:
    v = np.asarray(v).reshape(-1)
    return float(np.real(v.conj() @ np.asarray(x) @ v))
