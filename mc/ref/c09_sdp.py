"""Certified primal/dual brackets for the 'Tr_Y X = I' programs of quantum hedging and optimal cloning (C09).

    maximise / minimise  <Q, X>   subject to  Tr_Y(X) = I_X,  X in Pos(Y (x) X)          (Y is the FIRST tensor factor here)
    dual:  minimise Tr(W) s.t. I_Y (x) W >= Q        /        maximise Tr(W) s.t. I_Y (x) W <= Q,      W Hermitian on X

The harness writes both programs in cvxpy with its own constant matrices for the partial trace and for I (x) W (no toqito code, no
cvxpy partial_trace / kron), solves them with CLARABEL, *repairs* the returned points into exactly feasible ones by plain
arithmetic and verifies feasibility with eigvalsh.  Weak duality (<Q,X> <= <I(x)W, X> = Tr(W Tr_Y X) = Tr W) then gives
L <= optimum <= U whatever any solver did.

Also here: the Molina-Watrous hedging operators from the QuantumHedging docstring, index reordering of tensor factors by
reshape/transpose, and the cloning operator Q = sum_k p_k |psi psi conj(psi)><psi psi conj(psi)|.
"""

from __future__ import annotations

import numpy as np

ARITH = 1e-10


def herm(a):
    a = np.asarray(a, dtype=complex)
    return (a + a.conj().T) / 2


def lam_min(a) -> float:
    return float(np.linalg.eigvalsh(herm(a))[0])


def lam_max(a) -> float:
    return float(np.linalg.eigvalsh(herm(a))[-1])


def psd_clip(a):
    w, v = np.linalg.eigh(herm(a))
    return herm((v * np.clip(w, 0, None)) @ v.conj().T)


def ptrace_first(M, dY, dX):
    return np.einsum("kikj->ij", np.asarray(M).reshape(dY, dX, dY, dX))


def embed_second(W, dY):
    """I_Y (x) W by explicit block placement."""
    dX = W.shape[0]
    out = np.zeros((dY * dX, dY * dX), dtype=complex)
    for k in range(dY):
        out[k * dX:(k + 1) * dX, k * dX:(k + 1) * dX] = W
    return out


def reorder(Q, dims, perm):
    """Operator on (x)_k C^{dims[k]}  ->  the same operator with output factor j = input factor perm[j]."""
    n = len(dims)
    T = np.asarray(Q).reshape(list(dims) + list(dims))
    T = np.transpose(T, list(perm) + [n + p for p in perm])
    d = int(np.prod(dims))
    return T.reshape(d, d)


def _solve(problem) -> bool:
    import cvxpy as cp

    for solver, kw in ((cp.CLARABEL, {}), (cp.SCS, {"eps": 1e-9, "max_iters": 50000})):
        try:
            problem.solve(solver=solver, **kw)
        except Exception:  # noqa: BLE001
            continue
        if problem.status in ("optimal", "optimal_inaccurate"):
            return True
    return False


def bracket(Q, dY: int, dX: int, sense: str):
    """{"L","U","X","W"} with L <= opt <= U certified by arithmetic, or None on solver failure."""
    import cvxpy as cp

    n = dY * dX
    Q = herm(Q)
    Ks = [np.kron(np.eye(dY)[:, [k]], np.eye(dX)) for k in range(dY)]  # n x dX, |k> (x) I
    Xv = cp.Variable((n, n), hermitian=True)
    obj = cp.real(cp.trace(Q @ Xv))
    prim = cp.Problem(cp.Maximize(obj) if sense == "max" else cp.Minimize(obj),
                      [Xv >> 0, sum(K.conj().T @ Xv @ K for K in Ks) == np.eye(dX)])
    if not _solve(prim):
        return None
    Xn = psd_clip(Xv.value)
    M = herm(ptrace_first(Xn, dY, dX))
    w, v = np.linalg.eigh(M)
    if w[0] < 0.5:
        return None
    S = embed_second((v * w ** -0.5) @ v.conj().T, dY)
    Xn = herm(S @ Xn @ S)
    if lam_min(Xn) < -1e-12 or np.abs(ptrace_first(Xn, dY, dX) - np.eye(dX)).max() > 1e-11:
        return None
    pv = float(np.trace(Q @ Xn).real)

    Wv = cp.Variable((dX, dX), hermitian=True)
    emb = sum(K @ Wv @ K.conj().T for K in Ks)
    if sense == "max":
        dual = cp.Problem(cp.Minimize(cp.real(cp.trace(Wv))), [emb >> Q])
    else:
        dual = cp.Problem(cp.Maximize(cp.real(cp.trace(Wv))), [emb << Q])
    if not _solve(dual):
        return None
    Wn = herm(Wv.value)
    if sense == "max":
        Wn = Wn + (max(0.0, lam_max(Q - embed_second(Wn, dY))) + 1e-13) * np.eye(dX)
        if lam_min(embed_second(Wn, dY) - Q) < -1e-12:
            return None
        out = {"L": pv - ARITH, "U": float(np.trace(Wn).real) + ARITH, "X": Xn, "W": Wn}
        assert out["L"] <= out["U"], "weak duality contradicted by two verified-feasible points (harness bug)"
        return out
    Wn = Wn - (max(0.0, lam_max(embed_second(Wn, dY) - Q)) + 1e-13) * np.eye(dX)
    if lam_max(embed_second(Wn, dY) - Q) > 1e-12:
        return None
    out = {"L": float(np.trace(Wn).real) - ARITH, "U": pv + ARITH, "X": Xn, "W": Wn}
    assert out["L"] <= out["U"], "weak duality contradicted by two verified-feasible points (harness bug)"
    return out


# ------------------------------------------------------------------------------------------------ hedging operators
def molina_watrous(alpha: float, theta: float):
    """(Q0, Q1) exactly as written in the QuantumHedging docstring (factor order Y (x) X)."""
    e = np.eye(4)
    e00, e01, e10, e11 = e[:, 0], e[:, 1], e[:, 2], e[:, 3]
    beta = np.sqrt(1 - alpha ** 2)
    w = alpha * np.cos(theta) * e00 + beta * np.sin(theta) * e11
    l1 = -alpha * np.sin(theta) * e00 + beta * np.cos(theta) * e11
    l2 = alpha * np.sin(theta) * e10
    l3 = beta * np.cos(theta) * e01
    q1 = np.outer(w, w)
    q0 = np.outer(l1, l1) + np.outer(l2, l2) + np.outer(l3, l3)
    return q0, q1


def hedging_bracket(Q, reps: int, sense: str):
    """Q acts on Y1 (x) X1 [(x) Y2 (x) X2] (the order documented by QuantumHedging); bracket of the max / min program."""
    if reps == 1:
        return bracket(Q, 2, 2, sense)
    return bracket(reorder(Q, [2, 2, 2, 2], [0, 2, 1, 3]), 4, 4, sense)


# ------------------------------------------------------------------------------------------------ cloning operator
def clone_operator(kets, probs):
    """Q on Y (x) Z (x) X = sum_k p_k |psi_k psi_k conj(psi_k)><...| (the operator documented by optimal_clone)."""
    Q = np.zeros((8, 8), dtype=complex)
    for p, k in zip(probs, kets):
        k = np.asarray(k, dtype=complex).reshape(-1)
        v = np.kron(np.kron(k, k), k.conj())
        Q += float(p) * np.outer(v, v.conj())
    return Q
