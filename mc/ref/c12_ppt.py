"""Reference models for C12 (PPT / symmetric-extension discrimination).

* bipartite ket catalogues on 2x2 and 2x3 (4 maximally entangled, 4 product, 2 partially entangled, G seed-derived generic kets);
* ``pt``: partial transpose by index shuffling (reshape / axis swap — no toqito, no picos, no cvxpy);
* ``locc_lower``: value of explicit product / one-way LOCC measurements built from catalogue bases (pure arithmetic);
* ``global_bracket`` / ``ppt_bracket``: certified [L, U] for the unrestricted and the PPT-restricted minimum-error optimum.  The
  harness solves its OWN primal and dual with cvxpy + CLARABEL (toqito: picos + CVXOPT, cvxpy + SCS); the solver output is not
  trusted: the primal point is repaired into an exactly feasible PPT POVM (mixing with I/n), the dual point into an exactly
  feasible (Y, Q_i) (eigenvalue clipping and a shift of Y), both are re-verified with eigvalsh, and weak duality

      Tr Y = sum_i Tr(Y M_i) >= sum_i Tr((w_i rho_i + T(Q_i)) M_i) = sum_i w_i Tr(rho_i M_i) + sum_i Tr(Q_i T(M_i)) >= sum_i w_i Tr(rho_i M_i)

  gives L <= optimum <= U whatever any solver did.
* ``povm_report``: the same arithmetic applied to operators returned by toqito.
"""

from __future__ import annotations

import itertools

import numpy as np

from mc import catalog

ARITH = 1e-10
SYSTEMS = {"2x2": (2, 2), "2x3": (2, 3), "3x2": (3, 2)}  # "3x2" = the 2x3 catalogue with the two parties exchanged


# ------------------------------------------------------------------------------------------------ small linear algebra
def herm(a):
    a = np.asarray(a, dtype=complex)
    return (a + a.conj().T) / 2


def lam_min(a) -> float:
    return float(np.linalg.eigvalsh(herm(a))[0])


def lam_max(a) -> float:
    return float(np.linalg.eigvalsh(herm(a))[-1])


def psd_clip(a):
    w, v = np.linalg.eigh(herm(a))
    return herm((v * np.clip(w, 0.0, None)) @ v.conj().T)


def pt(m, da, db, party):
    """Partial transpose of a (da*db)x(da*db) matrix on party 0 (first factor) or 1 (second factor)."""
    t = np.asarray(m).reshape(da, db, da, db)
    t = t.transpose(2, 1, 0, 3) if party == 0 else t.transpose(0, 3, 2, 1)
    return t.reshape(da * db, da * db)


def proj(v):
    v = np.asarray(v, dtype=complex).reshape(-1)
    return herm(np.outer(v, v.conj()))


def to_np(m):
    """picos variable / cvxopt matrix / ndarray -> complex ndarray."""
    if hasattr(m, "value") and not isinstance(m, np.ndarray):
        m = m.value
    if m is None:
        raise ValueError("no value")
    return np.array(m, dtype=complex)


# ------------------------------------------------------------------------------------------------ catalogues
def _e(d, k):
    v = np.zeros(d, dtype=complex)
    v[k] = 1
    return v


def ket_catalogue(system: str) -> dict:
    """name -> 1-D complex unit vector on C^da (x) C^db (first factor = party 0)."""
    if system == "3x2":
        return {k: swap_parties(v, 2, 3) for k, v in ket_catalogue("2x3").items()}
    da, db = SYSTEMS[system]
    s = 1 / np.sqrt(2)
    kA, kB = catalog.kets(da), catalog.kets(db)

    def kk(i, j):
        return np.kron(_e(da, i), _e(db, j))
    out = {}
    if system == "2x2":
        for nm, v in catalog.bell_kets().items():
            out["bell:" + nm] = v.copy()
        out["prod:e0,e0"] = np.kron(kA["e0"], kB["e0"])
        out["prod:e1,+"] = np.kron(kA["e1"], kB["+"])
        out["prod:+i,pi8"] = np.kron(kA["+i"], kB["pi8"])
        out["prod:g0,g1"] = np.kron(kA["g0"], kB["g1"])
        out["pe:pi8"] = np.cos(np.pi / 8) * kk(0, 0) + np.sin(np.pi / 8) * kk(1, 1)
        out["pe:pi6"] = np.cos(np.pi / 6) * kk(0, 1) + np.sin(np.pi / 6) * kk(1, 0)
    else:
        out["me:00+11"] = s * (kk(0, 0) + kk(1, 1))
        out["me:00-11"] = s * (kk(0, 0) - kk(1, 1))
        out["me:01+12"] = s * (kk(0, 1) + kk(1, 2))
        out["me:02+i10"] = s * (kk(0, 2) + 1j * kk(1, 0))
        out["prod:e0,e0"] = np.kron(kA["e0"], kB["e0"])
        out["prod:e1,f1"] = np.kron(kA["e1"], kB["f1"])
        out["prod:+i,ramp"] = np.kron(kA["+i"], kB["ramp"])
        out["prod:g0,g0"] = np.kron(kA["g0"], kB["g0"])
        out["pe:pi8"] = np.cos(np.pi / 8) * kk(0, 0) + np.sin(np.pi / 8) * kk(1, 1)
        out["pe:pi6"] = np.cos(np.pi / 6) * kk(0, 1) + np.sin(np.pi / 6) * kk(1, 2)
    for k in range(catalog.G):
        out[f"g{k}"] = catalog.generic_ket(da * db, k)
    return {k: np.asarray(v, dtype=complex) for k, v in out.items()}


def swap_parties(v, da, db):
    """|a>|b> -> |b>|a> on a ket of C^da (x) C^db (result lives on C^db (x) C^da)."""
    return np.asarray(v).reshape(da, db).T.reshape(-1).copy()


def mixed_catalogue(system: str) -> dict:
    """A few mixed bipartite states (density-matrix form only)."""
    da, db = SYSTEMS[system]
    d = da * db
    kc = ket_catalogue(system)
    names = list(kc)
    out = {
        "mix:ent+noise": 0.8 * proj(kc[names[0]]) + 0.2 * np.eye(d) / d,
        "mix:two": 0.6 * proj(kc[names[2]]) + 0.4 * proj(kc["g0"]),
        "mix:gfull": catalog.generic_density(d, 0),
        "mix:grank2": catalog.generic_density(d, 1, rank=2),
    }
    return {k: herm(v) for k, v in out.items()}


def state(system: str, key: str):
    if key.startswith("mix:"):
        return mixed_catalogue(system)[key]
    return ket_catalogue(system)[key]


def local_bases(d: int) -> dict:
    """name -> unitary whose columns are the basis vectors of a projective measurement on C^d."""
    U = catalog.unitaries(d)
    out = {"I": U["I"], "F": U["F"], "g0": U["g0"], "g1": U["g1"]}
    if d == 2:
        out["SH"] = U["S"] @ U["H"]
        out["Ry"] = U["Ry"]
        out["TH"] = U["T"] @ U["H"]
    else:
        out["phF"] = U["ph"] @ U["F"]
    return out


def local_unitary_pairs(system: str, tier: str):
    da, db = SYSTEMS[system]
    ua, ub = list(catalog.unitaries(da)), list(catalog.unitaries(db))
    if tier == "thorough":
        return [(a, b) for a in ua for b in ub if (a, b) != ("I", "I")]
    # quick: every unitary of each side at least once, generic on both sides, non-trivial on exactly one side
    pairs = [("I", b) for b in ub if b != "I"] + [(a, "I") for a in ua if a != "I"]
    pairs += [("g0", "g1"), ("g1", "F"), ("F", "g0"), ("XZ", "ph")]
    return pairs


# ------------------------------------------------------------------------------------------------ explicit LOCC measurements
def _trace_norm_h(a) -> float:
    return float(np.sum(np.abs(np.linalg.eigvalsh(herm(a)))))


def locc_lower(rhos, w, da, db):
    """Largest success probability over the harness's alphabet of explicit LOCC (hence separable, hence PPT) measurements:

    * guess the most probable state;
    * one-way LOCC A->B: Alice measures in a catalogue basis and announces a; Bob measures in the catalogue basis that is best
      for the conditional ensemble (adaptive), the answer is the best classical post-processing max_i of the joint outcome;
      for two states Bob may instead perform the Helstrom measurement of the conditional pair;
    * the same with the roles exchanged.
    Returns (value, description).  Pure arithmetic (matrix products, eigvalsh)."""
    n = len(rhos)
    best, how = float(max(w)), "guess"
    for first in (0, 1):
        d1, d2 = (da, db) if first == 0 else (db, da)
        for n1, U1 in local_bases(d1).items():
            total = 0.0
            for a in range(d1):
                va = U1[:, a]
                # conditional unnormalised operators on the other party: q_i = w_i (<a| (x) I) rho_i (|a> (x) I)
                if first == 0:
                    K = np.kron(va.conj().reshape(1, -1), np.eye(db))
                else:
                    K = np.kron(np.eye(da), va.conj().reshape(1, -1))
                qs = [w[i] * herm(K @ rhos[i] @ K.conj().T) for i in range(n)]
                cand = 0.0
                for n2, U2 in local_bases(d2).items():
                    val = 0.0
                    for b in range(d2):
                        vb = U2[:, b]
                        val += max(float(np.real(vb.conj() @ q @ vb)) for q in qs)
                    cand = max(cand, val)
                if n == 2:
                    cand = max(cand, 0.5 * (float(np.trace(qs[0] + qs[1]).real) + _trace_norm_h(qs[0] - qs[1])))
                total += cand
            if total > best:
                best, how = total, f"one-way from party {first} in basis {n1}"
    return best, how


# ------------------------------------------------------------------------------------------------ certified brackets
def _solve(problem) -> bool:
    import cvxpy as cp

    for solver, kw in ((cp.CLARABEL, {"max_threads": 1}), (cp.SCS, {"eps": 1e-9, "max_iters": 50000})):  # Clarabel defaults to one thread per core
        try:
            problem.solve(solver=solver, **kw)
        except Exception:  # noqa: BLE001 - a solver failure only means: try the next one / no bracket
            continue
        if problem.status in ("optimal", "optimal_inaccurate"):
            return True
    return False


def success(rhos, w, ms) -> float:
    return float(sum(w[i] * np.trace(rhos[i] @ ms[i]).real for i in range(len(rhos))))


def global_bracket(rhos, w):
    """Certified [L, U] for max sum_i w_i Tr(rho_i M_i) over all POVMs; None on solver failure."""
    n, d = len(rhos), rhos[0].shape[0]
    if n == 2:
        v = 0.5 * (1.0 + _trace_norm_h(w[0] * rhos[0] - w[1] * rhos[1]))
        return v - ARITH, v + ARITH
    da = 2 if d % 2 == 0 else 1
    ar, ai, mv, prim, _yv, _qv, _dual = _param_problems(n, da, d // da, False)
    for i in range(n):
        a = w[i] * herm(rhos[i])
        ar[i].value, ai[i].value = np.ascontiguousarray(a.real), np.ascontiguousarray(a.imag)
    if not _solve(prim):
        return None
    ms = [psd_clip(m.value) for m in mv]
    sw, sv = np.linalg.eigh(herm(sum(ms)))
    if sw[0] < 0.5:
        return None
    r = (sv * sw ** -0.5) @ sv.conj().T
    ms = [herm(r @ m @ r) for m in ms]
    if min(lam_min(m) for m in ms) < -1e-13 or np.abs(sum(ms) - np.eye(d)).max() > 1e-12:
        return None
    low = success(rhos, w, ms) - ARITH
    y = herm(sum(w[i] * rhos[i] @ ms[i] for i in range(n)))
    y = y + max(0.0, max(lam_max(w[i] * rhos[i] - y) for i in range(n))) * np.eye(d)
    if min(lam_min(y - w[i] * rhos[i]) for i in range(n)) < -1e-12:
        return None
    return low, float(np.trace(y).real) + ARITH


def _pt_expr(m, da, db):
    """cvxpy expression of the partial transpose on party 0:  T(M) = sum_ij (E_ij (x) I) M (E_ij (x) I)."""
    terms = []
    for i in range(da):
        for j in range(da):
            e = np.zeros((da, da))
            e[i, j] = 1
            k = np.kron(e, np.eye(db))
            terms.append(k @ m @ k)
    return sum(terms)


def repair_ppt_povm(ms, da, db):
    """Hermitise, make the sum exactly I, then mix with I/n until every operator and every partial transpose is PSD."""
    n, d = len(ms), da * db
    ms = [herm(m) for m in ms]
    corr = (np.eye(d) - sum(ms)) / n
    ms = [herm(m + corr) for m in ms]
    lam = min(min(lam_min(m), lam_min(pt(m, da, db, 0))) for m in ms)
    t = 0.0
    if lam < 1e-13:
        t = min(1.0, (1e-13 - lam) / (1.0 / n - lam) * (1 + 1e-9) + 1e-13)
    ms = [herm((1 - t) * m + t * np.eye(d) / n) for m in ms]
    return ms, t


def ppt_feasibility(ms, da, db):
    """(most negative eigenvalue of any operator, of any partial transpose, deviation of the sum from I, non-Hermiticity)."""
    d = da * db
    neg = min(lam_min(m) for m in ms)
    negpt = min(lam_min(pt(herm(m), da, db, 0)) for m in ms)
    dev = float(np.abs(sum(ms) - np.eye(d)).max())
    nonherm = float(max(np.abs(m - m.conj().T).max() for m in ms))
    return neg, negpt, dev, nonherm


_PROBLEMS: dict = {}


def _param_problems(n, da, db, ppt: bool):
    """cvxpy primal and dual problems for n states on C^da (x) C^db with the weighted states w_i rho_i as PARAMETERS (real and
    imaginary parts), built once per shape and process so that cvxpy's canonicalisation is paid once (DPP)."""
    import cvxpy as cp

    key = (n, da, db, ppt)
    if key in _PROBLEMS:
        return _PROBLEMS[key]
    d = da * db
    ar = [cp.Parameter((d, d)) for _ in range(n)]  # Re(w_i rho_i)
    ai = [cp.Parameter((d, d)) for _ in range(n)]  # Im(w_i rho_i)
    mv = [cp.Variable((d, d), hermitian=True) for _ in range(n)]
    cons = [m >> 0 for m in mv] + [sum(mv) == np.eye(d)]
    if ppt:
        cons += [_pt_expr(m, da, db) >> 0 for m in mv]
    # Re Tr(A M) = sum_ij Re(A_ji) Re(M_ij) - Im(A_ji) Im(M_ij)
    obj = sum(cp.sum(cp.multiply(ar[i].T, cp.real(mv[i]))) - cp.sum(cp.multiply(ai[i].T, cp.imag(mv[i]))) for i in range(n))
    prim = cp.Problem(cp.Maximize(obj), cons)
    yv = cp.Variable((d, d), hermitian=True)
    if ppt:
        qv = [cp.Variable((d, d), hermitian=True) for _ in range(n)]
        dcons = [yv - (ar[i] + 1j * ai[i]) - _pt_expr(qv[i], da, db) >> 0 for i in range(n)] + [q >> 0 for q in qv]
    else:
        qv = []
        dcons = [yv - (ar[i] + 1j * ai[i]) >> 0 for i in range(n)]
    dual = cp.Problem(cp.Minimize(cp.real(cp.trace(yv))), dcons)
    _PROBLEMS[key] = (ar, ai, mv, prim, yv, qv, dual)
    return _PROBLEMS[key]


def ppt_bracket(rhos, w, da, db):
    """Certified {"L","U","M"} for the optimum over PPT POVMs; None on solver failure."""
    n, d = len(rhos), da * db
    rhos = [herm(r) for r in rhos]
    ar, ai, mv, prim, yv, qv, dual = _param_problems(n, da, db, True)
    for i in range(n):
        a = w[i] * rhos[i]
        ar[i].value, ai[i].value = np.ascontiguousarray(a.real), np.ascontiguousarray(a.imag)
    if not _solve(prim):
        return None
    ms, t = repair_ppt_povm([m.value for m in mv], da, db)
    neg, negpt, dev, nonherm = ppt_feasibility(ms, da, db)
    if neg < -1e-13 or negpt < -1e-13 or dev > 1e-12:
        return None
    low = success(rhos, w, ms) - ARITH

    cands = []
    if _solve(dual):
        cands.append((herm(yv.value), [psd_clip(q.value) for q in qv]))
    # the unrestricted certificate (Q_i = 0) is always available as a fall-back
    cands.append((herm(sum(w[i] * rhos[i] @ ms[i] for i in range(n))), [np.zeros((d, d), dtype=complex)] * n))
    best = None
    for y, qs in cands:
        delta = max(0.0, max(lam_max(w[i] * rhos[i] + pt(qs[i], da, db, 0) - y) for i in range(n)))
        y = y + delta * np.eye(d)
        if min(lam_min(y - w[i] * rhos[i] - pt(qs[i], da, db, 0)) for i in range(n)) < -1e-12 or min(lam_min(q) for q in qs) < -1e-13:
            continue
        up = float(np.trace(y).real) + ARITH
        if best is None or up < best:
            best = up
    if best is None:
        return None
    return {"L": low, "U": best, "M": ms, "repair_t": t}


def povm_report(ms, rhos, w, value, da, db):
    """Arithmetic facts about operators returned by toqito."""
    ms = [to_np(m) for m in ms]
    neg, negpt, dev, nonherm = ppt_feasibility(ms, da, db)
    att = success(rhos, w, [herm(m) for m in ms])
    att_t = success(rhos, w, [herm(m).T for m in ms])
    return {"neg": neg, "negpt": negpt, "sum": dev, "nonherm": nonherm, "attained": att, "attained_transposed": att_t,
            "gap": abs(att - float(value)), "gap_transposed": abs(att_t - float(value))}


# ------------------------------------------------------------------------------------------------ self test
def selftest():
    """Reference models against each other: pt is an involution and matches the Kraus-sum form; brackets are ordered."""
    for system, (da, db) in SYSTEMS.items():
        d = da * db
        x = catalog.generic_matrix(d, d, 0)
        assert np.abs(pt(pt(x, da, db, 0), da, db, 0) - x).max() == 0
        assert np.abs(pt(pt(x, da, db, 1), da, db, 0) - x.T).max() == 0
        ref = np.zeros((d, d), dtype=complex)
        for i in range(da):
            for j in range(da):
                e = np.zeros((da, da))
                e[i, j] = 1
                k = np.kron(e, np.eye(db))
                ref += k @ x @ k
        assert np.abs(ref - pt(x, da, db, 0)).max() < 1e-14
        a, b = catalog.generic_matrix(da, da, 1), catalog.generic_matrix(db, db, 1)
        assert np.abs(pt(np.kron(a, b), da, db, 0) - np.kron(a.T, b)).max() < 1e-14
        assert np.abs(pt(np.kron(a, b), da, db, 1) - np.kron(a, b.T)).max() < 1e-14
        kc = ket_catalogue(system)
        for v in kc.values():
            assert abs(np.linalg.norm(v) - 1) < 1e-12
        for sub in itertools.combinations(list(kc)[:4], 2):
            assert abs(np.vdot(kc[sub[0]], kc[sub[1]])) < 1e-12
    return True
