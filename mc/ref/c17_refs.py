"""Reference arithmetic for C17 (named states / standard matrices).  Boring on purpose: explicit loops over
multi-indices (via mc/ref/tensor_index.py), explicit literal matrices copied from the docstrings / cited definitions,
numpy only for ``kron``, ``@``, ``eigvalsh``, ``svd`` and ``matrix_rank`` (none of which is a mechanism under test).
Nothing here imports toqito.
"""

from __future__ import annotations

import itertools
import math
from functools import lru_cache

import numpy as np

from mc.ref import tensor_index as ti

TOL = 1e-9  # tolerance class "alg"


# ------------------------------------------------------------------------------------------------ comparisons
def dense(x):
    """ndarray view of a numpy / scipy.sparse result."""
    if hasattr(x, "toarray"):
        return np.asarray(x.toarray())
    return np.asarray(x)


def err(a, b) -> float:
    a, b = np.asarray(a), np.asarray(b)
    if a.shape != b.shape:
        return float("inf")
    if a.size == 0:
        return 0.0
    return float(np.max(np.abs(a - b)))


def close(a, b, tol=TOL) -> bool:
    b = np.asarray(b)
    scale = max(1.0, float(np.max(np.abs(b))) if b.size else 1.0)
    return err(a, b) <= tol * scale


def is_hermitian(m, tol=TOL) -> bool:
    m = np.asarray(m)
    return m.ndim == 2 and m.shape[0] == m.shape[1] and close(m, m.conj().T, tol)


def min_eig(m) -> float:
    m = np.asarray(m, dtype=complex)
    return float(np.min(np.linalg.eigvalsh((m + m.conj().T) / 2)))


def eigs(m):
    m = np.asarray(m, dtype=complex)
    return np.sort(np.linalg.eigvalsh((m + m.conj().T) / 2))


def col(v):
    return np.asarray(v).reshape(-1, 1)


def proj(v):
    v = np.asarray(v, dtype=complex).reshape(-1, 1)
    return v @ v.conj().T


def e(d: int, k: int) -> np.ndarray:
    v = np.zeros(d)
    v[k] = 1.0
    return v


# ------------------------------------------------------------------------------------------------ tensor index operators
@lru_cache(maxsize=None)
def _perm_op(dims: tuple, q: tuple):
    return np.array(ti.perm_matrix_for(list(dims), list(q)), dtype=float)


def perm_op(dims, q) -> np.ndarray:
    """P with P (v_0 (x) ... (x) v_{n-1}) = v_{q[0]} (x) ... (x) v_{q[n-1]} (integer index arithmetic)."""
    return _perm_op(tuple(int(x) for x in dims), tuple(int(x) for x in q)).copy()


def swap_op(d: int) -> np.ndarray:
    return perm_op((d, d), (1, 0))


def ptrace(rho, dims, traced) -> np.ndarray:
    """Partial trace by explicit index contraction (mc/ref/tensor_index.partial_trace_ref)."""
    rho = np.asarray(rho)
    cells = ti.partial_trace_ref(lambda r, c: rho[r, c], list(dims), set(traced))
    return np.array([[sum(cell) for cell in row] for row in cells])


@lru_cache(maxsize=None)
def _pt_src(dims: tuple, sys_: tuple):
    _, _, src = ti.partial_transpose_src(list(dims), list(dims), set(sys_))
    n = len(src)
    rows = np.array([[src[r][c][0] for c in range(n)] for r in range(n)])
    cols = np.array([[src[r][c][1] for c in range(n)] for r in range(n)])
    return rows, cols


def ptranspose(rho, dims, sys_) -> np.ndarray:
    """Partial transpose on the subsystems in ``sys_`` (gather built from integer index arithmetic)."""
    rows, cols = _pt_src(tuple(dims), tuple(sorted(sys_)))
    return np.asarray(rho)[rows, cols]


def kron_all(mats):
    out = np.array([[1.0]])
    for m in mats:
        out = np.kron(out, m)
    return out


def schmidt_rank_bip(v, d_a: int, d_b: int, tol=1e-10) -> int:
    """Rank of the d_a x d_b coefficient matrix of a bipartite vector (1 <=> product vector)."""
    m = np.asarray(v).reshape(d_a, d_b)
    s = np.linalg.svd(m, compute_uv=False)
    return int(np.sum(s > tol))


# ------------------------------------------------------------------------------------------------ clock / shift / Fourier
def omega(d: int) -> complex:
    return complex(math.cos(2 * math.pi / d), math.sin(2 * math.pi / d))


def shift(d: int) -> np.ndarray:
    """X e_j = e_{j+1 mod d}  (the matrix printed in gen_pauli_x's docstring)."""
    m = np.zeros((d, d))
    for j in range(d):
        m[(j + 1) % d, j] = 1.0
    return m


def clock(d: int) -> np.ndarray:
    """Z = diag(1, w, ..., w^{d-1}), w = exp(2 pi i / d)."""
    m = np.zeros((d, d), dtype=complex)
    for j in range(d):
        m[j, j] = complex(math.cos(2 * math.pi * j / d), math.sin(2 * math.pi * j / d))
    return m


def fourier(d: int) -> np.ndarray:
    m = np.zeros((d, d), dtype=complex)
    for j in range(d):
        for k in range(d):
            a = 2 * math.pi * ((j * k) % d) / d
            m[j, k] = complex(math.cos(a), math.sin(a)) / math.sqrt(d)
    return m


def mpow(m, k: int):
    out = np.eye(m.shape[0], dtype=complex)
    for _ in range(k):
        out = out @ m
    return out


def weyl(k1: int, k2: int, d: int) -> np.ndarray:
    """X^k1 Z^k2 as documented by gen_pauli."""
    return mpow(shift(d), k1) @ mpow(clock(d), k2)


# ------------------------------------------------------------------------------------------------ Pauli / Gell-Mann literals
PAULI = {
    0: np.array([[1, 0], [0, 1]], dtype=complex),
    1: np.array([[0, 1], [1, 0]], dtype=complex),
    2: np.array([[0, -1j], [1j, 0]], dtype=complex),
    3: np.array([[1, 0], [0, -1]], dtype=complex),
}
PAULI_NAMES = {0: "I", 1: "X", 2: "Y", 3: "Z"}

_S3 = 1 / math.sqrt(3)
GELL_MANN = {
    0: np.eye(3, dtype=complex),
    1: np.array([[0, 1, 0], [1, 0, 0], [0, 0, 0]], dtype=complex),
    2: np.array([[0, -1j, 0], [1j, 0, 0], [0, 0, 0]], dtype=complex),
    3: np.array([[1, 0, 0], [0, -1, 0], [0, 0, 0]], dtype=complex),
    4: np.array([[0, 0, 1], [0, 0, 0], [1, 0, 0]], dtype=complex),
    5: np.array([[0, 0, -1j], [0, 0, 0], [1j, 0, 0]], dtype=complex),
    6: np.array([[0, 0, 0], [0, 0, 1], [0, 1, 0]], dtype=complex),
    7: np.array([[0, 0, 0], [0, 0, -1j], [0, 1j, 0]], dtype=complex),
    8: np.array([[_S3, 0, 0], [0, _S3, 0], [0, 0, -2 * _S3]], dtype=complex),
}


def gen_gell_mann(i: int, j: int, d: int) -> np.ndarray:
    """Generalised Gell-Mann matrices (the cited definition): i<j symmetric E_ij+E_ji, i>j antisymmetric
    i E_ij - i E_ji, i=j=l>0 diagonal sqrt(2/(l(l+1))) (sum_{k<l} E_kk - l E_ll), (0,0) identity."""
    m = np.zeros((d, d), dtype=complex)
    if i == j:
        if i == 0:
            return np.eye(d, dtype=complex)
        s = math.sqrt(2.0 / (i * (i + 1)))
        for k in range(i):
            m[k, k] = s
        m[i, i] = -i * s
        return m
    if i < j:
        m[i, j] = 1
        m[j, i] = 1
    else:
        m[i, j] = 1j
        m[j, i] = -1j
    return m


def gram(ops) -> np.ndarray:
    """G[a,b] = Tr(A_a^dagger A_b)."""
    vs = np.array([np.asarray(o, dtype=complex).reshape(-1) for o in ops])
    return vs.conj() @ vs.T


def span_rank(ops) -> int:
    vs = np.array([np.asarray(o, dtype=complex).reshape(-1) for o in ops])
    return int(np.linalg.matrix_rank(vs, tol=1e-9))


# ------------------------------------------------------------------------------------------------ named states (cited definitions)
def werner(d: int, alpha: float) -> np.ndarray:
    return (np.eye(d * d) - alpha * swap_op(d)) / (d * d - d * alpha)


def lex_perms(p: int) -> list:
    return list(itertools.permutations(range(p)))


def werner_multi(d: int, alphas) -> np.ndarray:
    """Normalisation of I - alpha(1) P(2) - ... - alpha(p!-1) P(p!), P(i) = operator of the i-th permutation in
    lexicographic order (werner's docstring; P(4) for p = 3 is permutation_operator(dim, [2,3,1]))."""
    nfac = len(alphas) + 1
    p = next(k for k in range(2, 8) if math.factorial(k) == nfac)
    perms = lex_perms(p)
    rho = np.eye(d**p)
    for k, a in enumerate(alphas):
        rho = rho - a * perm_op((d,) * p, perms[k + 1])
    return rho / np.trace(rho)


def max_ent(d: int) -> np.ndarray:
    v = np.zeros(d * d)
    for k in range(d):
        v[k * d + k] = 1 / math.sqrt(d)
    return v


def isotropic(d: int, alpha: float) -> np.ndarray:
    return (1 - alpha) * np.eye(d * d) / d**2 + alpha * proj(max_ent(d)).real


def horodecki33(a: float) -> np.ndarray:
    """Horodecki 1997, section 4.1: (8a rho_insep + |Psi_a><Psi_a|)/(8a+1), rho_insep = (3/8) P_+ + (1/8) Q,
    Q = I - sum_i |ii><ii| - |2 0><2 0|, Psi_a = |2>(sqrt((1+a)/2)|0> + sqrt((1-a)/2)|2>)."""
    q = np.eye(9)
    for i in range(3):
        q[4 * i, 4 * i] = 0
    q[6, 6] = 0
    psi = np.zeros(9)
    psi[6] = math.sqrt((1 + a) / 2)
    psi[8] = math.sqrt(max(0.0, (1 - a) / 2))
    return (3 * a * proj(max_ent(3)).real + a * q + proj(psi).real) / (8 * a + 1)


def horodecki24(a: float) -> np.ndarray:
    """Horodecki 1997, section 4.2: (7a sigma_insep + |phi_a><phi_a|)/(7a+1),
    sigma_insep = (2/7) sum_{i=1..3} P(|0,i-1> + |1,i>)/sqrt2 + (1/7) P(|0,3>)."""
    m = np.zeros((8, 8))
    for i in (1, 2, 3):
        v = np.zeros(8)
        v[i - 1] = 1
        v[4 + i] = 1
        m += a * np.outer(v, v)
    m[3, 3] += a
    phi = np.zeros(8)
    phi[4] = math.sqrt((1 + a) / 2)
    phi[7] = math.sqrt(max(0.0, (1 - a) / 2))
    return (m + np.outer(phi, phi)) / (7 * a + 1)


def gisin(lam: float, theta: float) -> np.ndarray:
    s, c = math.sin(theta), math.cos(theta)
    rho_t = np.zeros((4, 4))
    rho_t[1, 1] = s * s
    rho_t[1, 2] = rho_t[2, 1] = -s * c
    rho_t[2, 2] = c * c
    mix = np.zeros((4, 4))
    mix[0, 0] = mix[3, 3] = 1
    return lam * rho_t + (1 - lam) / 2 * mix


def sym_projector(d: int) -> np.ndarray:
    return (np.eye(d * d) + swap_op(d)) / 2


def hamming_weight(x: int) -> int:
    return bin(x).count("1")


def perfect_matchings(n: int):
    """All perfect matchings of range(n) as lists of pairs."""
    items = list(range(n))

    def rec(rest):
        if not rest:
            yield []
            return
        a = rest[0]
        for k in range(1, len(rest)):
            b = rest[k]
            for m in rec(rest[1:k] + rest[k + 1:]):
                yield [(a, b)] + m
    return list(rec(items))


def brauer_support(d: int, matching) -> frozenset:
    """Indices x in [d]^{2p} (first factor most significant) with x_a = x_b for every pair of the matching."""
    n = 2 * len(matching)
    out = []
    for x in itertools.product(range(d), repeat=n):
        if all(x[a] == x[b] for a, b in matching):
            out.append(ti.ravel(x, [d] * n))
    return frozenset(out)
