"""Labelled arrays, formal symbols and exact comparison helpers shared by C02 (partial trace) and C03
(partial transpose / realignment).  Boring Python on purpose: loops, Python ints, dicts.

Labellings (``entries`` key of a case), cell (r, c) of an R x C array has flat index ``idx = r*C + c``:

* ``sym``   C03: pairwise distinct strings "x<r>_<c>" (object dtype; a gather moves them, nothing can be computed);
            C02: :class:`Sym` formal sums (object dtype; ``+`` merges multisets of cells, so the result of a
            partial trace *is* the multiset of contracted input cells)
* ``pow``   object dtype exact Python ints 256**idx: a sum of at most 255 cells identifies the multiset exactly
* ``int``   int64; 2**idx when R*C <= 62 (sum identifies the set of cells), else an affine scramble (pairwise distinct)
* ``intB``  int64 idx + 1 (an unrelated second labelling)
* ``float`` float64 idx*1.25 + 0.5 (all sums of the sizes used here are exact in binary64)
* ``complex`` complex128 (idx+1) + 1j*scramble(idx) with independent real and imaginary parts (integers: exact sums)
"""

from __future__ import annotations

import numpy as np

from mc.ref import tensor_index as ti


class Sym:
    """Formal non-negative integer combination of input cells: {cell index: multiplicity}."""

    __slots__ = ("t",)

    def __init__(self, t):
        self.t = dict(t)

    def __add__(self, other):
        if isinstance(other, Sym):
            out = dict(self.t)
            for k, v in other.t.items():
                out[k] = out.get(k, 0) + v
            return Sym(out)
        if isinstance(other, (int, float)) and other == 0:
            return self
        return NotImplemented

    __radd__ = __add__

    def __eq__(self, other):
        return isinstance(other, Sym) and self.t == other.t

    def __hash__(self):
        return hash(tuple(sorted(self.t.items())))

    def __repr__(self):
        return "Sym(" + "+".join(f"{v}*c{k}" if v != 1 else f"c{k}" for k, v in sorted(self.t.items())) + ")"


def scramble(idx: int) -> int:
    return (idx * 7919 + 13) % 10007


def label_value(idx: int, size: int, entries: str, additive: bool):
    """Label of flat cell ``idx`` in an array of ``size`` cells."""
    if entries == "sym":
        return Sym({idx: 1}) if additive else None
    if entries == "pow":
        return 256 ** idx
    if entries == "int":
        if size <= 62:
            return 1 << idx
        return (idx * 7919 + 13) % 1000003 + 1
    if entries == "intB":
        return idx + 1
    if entries == "float":
        return idx * 1.25 + 0.5
    if entries == "complex":
        return complex(idx + 1, scramble(idx))
    if entries == "ctiny":  # ordinary real parts, imaginary parts of order 1e-15 (integers times 2^-60: all sums stay exact) - added after
        # seeded change C02-8, which passed the result through np.real_if_close (absolute threshold 100 eps)
        return complex(idx + 1, scramble(idx) * 2.0 ** -60)
    if entries == "cscaled":  # a complex operator of ordinary shape scaled by 2^-60
        return complex((idx + 1) * 2.0 ** -60, scramble(idx) * 2.0 ** -60)
    if entries in ("neardiag", "nearzero"):
        # operators that LOOK diagonal / zero to np.allclose (off-diagonal entries k * 2^-40 <= 1e-8) but are not: a data-dependent shortcut
        # guarded by allclose would take them.  Diagonal sums and off-diagonal sums never mix in a partial trace, so all sums stay exact.
        n = int(round(size ** 0.5))
        if entries == "neardiag" and idx % (n + 1) == 0:
            return float(2 ** 20 * (idx + 1))
        return (idx % 8191 + 1) * 2.0 ** -40
    if entries == "nearherm":
        # large entries that are symmetric up to a perturbation of a few units: np.allclose(X, X^T) holds (1e-5 relative) although X is
        # not symmetric - added after seeded change C02-5 (a "Hermitian" fast path guarded by allclose rebuilt the lower triangle)
        n = int(round(size ** 0.5))
        r, c = divmod(idx, n)
        return 10_000_000 + 1000 * (min(r, c) * n + max(r, c)) + (r * n + c) % 7
    if entries == "u8":  # narrow unsigned integers whose sums leave the dtype's range (added after seeded change C02-3)
        return 100 + (idx * 37) % 150
    if entries == "i8":
        return 60 + (idx * 29) % 60
    if entries == "bool":
        return (idx * 7) % 3 != 1
    raise KeyError(entries)


_DTYPES = {"sym": object, "pow": object, "int": np.int64, "intB": np.int64, "float": np.float64, "complex": np.complex128,
           "u8": np.uint8, "i8": np.int8, "bool": np.bool_, "nearherm": np.int64, "ctiny": np.complex128, "cscaled": np.complex128,
           "neardiag": np.float64, "nearzero": np.float64}


def labelled(rows: int, cols: int, entries: str, additive: bool = False) -> np.ndarray:
    """R x C array with pairwise distinct labels.  ``additive``: the labels must support ``+`` exactly (C02)."""
    a = np.empty((rows, cols), dtype=_DTYPES[entries])
    size = rows * cols
    for r in range(rows):
        for c in range(cols):
            if entries == "sym" and not additive:
                a[r, c] = f"x{r}_{c}"
            else:
                a[r, c] = label_value(r * cols + c, size, entries, additive)
    return a


def plain(x):
    """numpy scalar -> Python scalar (Sym / str / int stay)."""
    if isinstance(x, np.generic):
        return x.item()
    return x


def same_cells(got, exp_rows) -> bool:
    """Exact equality of a returned 2-D array with nested lists of expected Python values."""
    g = np.asarray(got)
    m, k = len(exp_rows), len(exp_rows[0])
    if g.shape != (m, k):
        if not (m == 1 and k == 1 and g.size == 1):  # full trace: any container holding the one number is accepted
            return False
        g = g.reshape(1, 1)
    gl = g.tolist()
    for r in range(m):
        for c in range(k):
            if not plain(gl[r][c]) == exp_rows[r][c]:
                return False
    return True


def close_cells(got, exp_rows, tol=1e-9) -> bool:
    """|got - exp| <= tol*max(1, max|exp|) entrywise (tolerance class alg), shape as in same_cells."""
    g = np.asarray(got)
    e = np.array(exp_rows, dtype=complex)
    if g.shape != e.shape:
        if not (e.size == 1 and g.size == 1):
            return False
        g = g.reshape(e.shape)
    try:
        g = g.astype(complex)
    except (TypeError, ValueError):
        return False
    scale = max(1.0, float(np.max(np.abs(e))))
    return bool(np.all(np.abs(g - e) <= tol * scale))


# ------------------------------------------------------------------------------------------------ oracles
def ptrace_expected(X, dims, traced):
    """Nested lists: out[(i_K),(j_K)] = sum_t X[(i_K,t),(j_K,t)] evaluated with Python ``+`` on the labels."""
    cells = ti.partial_trace_ref(lambda r, c: plain(X[r, c]), list(dims), set(traced))
    out = []
    for row in cells:
        orow = []
        for cell in row:
            acc = cell[0]
            for v in cell[1:]:
                acc = acc + v
            orow.append(acc)
        out.append(orow)
    return out


def gather_expected(X, src):
    """Nested lists out[R][C] = X[src[R][C]]."""
    return [[plain(X[r, c]) for (r, c) in row] for row in src]


def sublists_in_every_order(n):
    """All non-empty subsets of range(n), each in every listing order (sum_k n!/(n-k)! lists), shortest first."""
    import itertools

    out = []
    for k in range(1, n + 1):
        out += [list(p) for p in itertools.permutations(range(n), k)]
    return out


# ------------------------------------------------------------------------------------------------ cvxpy inputs
def held_values(N, M, kind, which):
    """Two unrelated arrays a Variable of the given kind can hold (integer-valued: all sums exact)."""
    idx = np.arange(N * M, dtype=np.int64).reshape(N, M)
    if which == 0:
        re, im = idx + 1.0, ((idx * 7919 + 13) % 10007).astype(float)
    else:
        re, im = ((idx * 31 + 7) % 1009).astype(float) - 500.0, ((idx * 17 + 3) % 211).astype(float) - 100.0
    if kind == "real":
        return re
    if kind == "complex":
        return re + 1j * im
    if kind == "hermitian":
        z = re + 1j * im
        return z + z.conj().T
    if kind == "symmetric":
        return re + re.T
    raise KeyError(kind)


def make_variable(N, M, kind):
    import cvxpy

    if kind == "real":
        return cvxpy.Variable((N, M))
    if kind == "complex":
        return cvxpy.Variable((N, M), complex=True)
    if kind == "hermitian":
        return cvxpy.Variable((N, N), hermitian=True)
    if kind == "symmetric":
        return cvxpy.Variable((N, N), symmetric=True)
    raise KeyError(kind)
