"""Reference definitions for C16: matrix / state-set predicates and linear-algebra helpers, evaluated independently.

Everything here is "boring": loops, ``itertools``, ``fractions.Fraction`` and numpy only for primitives that are not the
mechanism under test (``eigvalsh``, ``svd``, ``@``, ``kron``, ``inv``).

Three-valued verdicts: every ``*_verdict`` function returns ``True`` (the definition holds exactly / far inside the
predicate's own tolerance), ``False`` (the definition is violated by >= 100x the predicate's own tolerance) or ``None``
(inside the band between the two: not judged, DESIGN 4.2).
"""

from __future__ import annotations

import itertools
from fractions import Fraction

import numpy as np

MARGIN = 100.0
RTOL, ATOL = 1e-05, 1e-08  # the defaults every toqito predicate documents


# ------------------------------------------------------------------------------------------------ "L = R up to rtol/atol"
def eq_verdict(L, R, rtol=RTOL, atol=ATOL):
    """Defining equation L = R under an allclose-type tolerance tau_ij = atol + rtol*|reference entry|.

    True  iff every |L-R|_ij <= tau_lo_ij / 100   (tau_lo uses the smaller of |L_ij|, |R_ij|)
    False iff some  |L-R|_ij >= 100 * tau_hi_ij   (tau_hi uses the larger of |L_ij|, |R_ij|)
    """
    L = np.asarray(L)
    R = np.asarray(R)
    if L.shape != R.shape:
        return False
    if L.size == 0:
        return True
    D = np.abs(L - R)
    lo = atol + rtol * np.minimum(np.abs(L), np.abs(R))
    hi = atol + rtol * np.maximum(np.abs(L), np.abs(R))
    if np.all(D <= lo / MARGIN):
        return True
    if np.any(D >= MARGIN * hi):
        return False
    return None


def and3(*vs):
    """Three-valued conjunction."""
    if any(v is False for v in vs):
        return False
    if all(v is True for v in vs):
        return True
    return None


def is2d(M) -> bool:
    return np.asarray(M).ndim == 2


def square(M) -> bool:
    M = np.asarray(M)
    return M.ndim == 2 and M.shape[0] == M.shape[1]


def dag(M):
    return np.asarray(M).conj().T


# ------------------------------------------------------------------------------------------------ equation predicates
def hermitian_verdict(M, rtol=RTOL, atol=ATOL):
    if not square(M):
        return False
    return eq_verdict(M, dag(M), rtol, atol)


def anti_hermitian_verdict(M, rtol=RTOL, atol=ATOL):
    if not square(M):
        return False
    return eq_verdict(M, -dag(M), rtol, atol)


def symmetric_verdict(M, rtol=RTOL, atol=ATOL):
    if not square(M):
        return False
    return eq_verdict(M, np.asarray(M).T, rtol, atol)


def normal_verdict(M, rtol=RTOL, atol=ATOL):
    if not square(M):
        return False
    M = np.asarray(M)
    return eq_verdict(M @ dag(M), dag(M) @ M, rtol, atol)


def unitary_verdict(M, rtol=RTOL, atol=ATOL):
    if not square(M):
        return False
    M = np.asarray(M)
    I = np.eye(M.shape[0])
    return and3(eq_verdict(dag(M) @ M, I, rtol, atol), eq_verdict(M @ dag(M), I, rtol, atol))


def identity_verdict(M, rtol=RTOL, atol=ATOL):
    if not square(M):
        return False
    return eq_verdict(M, np.eye(np.asarray(M).shape[0]), rtol, atol)


def idempotent_verdict(M, rtol=RTOL, atol=ATOL):
    if not square(M):
        return False
    M = np.asarray(M)
    return eq_verdict(M @ M, M, rtol, atol)


def pseudo_unitary_verdict(M, p, q, rtol=RTOL, atol=ATOL):
    if not square(M):
        return False
    M = np.asarray(M)
    if p + q != M.shape[0]:
        return False
    J = np.diag([1.0] * p + [-1.0] * q)
    return eq_verdict(dag(M) @ J @ M, J, rtol, atol)


def pseudo_hermitian_verdict(M, eta, rtol=RTOL, atol=ATOL):
    """eta H eta^{-1} = H^dagger (eta Hermitian and invertible is the caller's responsibility)."""
    M = np.asarray(M)
    eta = np.asarray(eta)
    if not square(M) or M.shape != eta.shape:
        return False
    return eq_verdict(eta @ M @ np.linalg.inv(eta), dag(M), rtol, atol)


# ------------------------------------------------------------------------------------------------ spectral predicates
def min_eig_herm(M) -> float:
    M = np.asarray(M, dtype=complex)
    return float(np.linalg.eigvalsh((M + dag(M)) / 2).min())


def max_eig_herm(M) -> float:
    M = np.asarray(M, dtype=complex)
    return float(np.linalg.eigvalsh((M + dag(M)) / 2).max())


def psd_verdict(M, rtol=RTOL, atol=ATOL):
    """Hermitian (within rtol/atol) and every eigenvalue >= -|atol| (toqito's documented absolute tolerance).

    For a matrix that is Hermitian only within the tolerance, "its eigenvalues" are defined only up to the asymmetry (Hermitian
    part vs. either triangle); the eigenvalue test is therefore judged with an uncertainty of ||M - M^dagger||_F."""
    h = hermitian_verdict(M, rtol, atol)
    if h is False:
        return False
    Mx = np.asarray(M, dtype=complex)
    unc = float(np.linalg.norm(Mx - dag(Mx)))
    lam = min_eig_herm(M)
    a = abs(atol)
    if lam - unc >= -a / MARGIN:
        e = True
    elif lam + unc <= -MARGIN * a:
        e = False
    else:
        e = None
    return and3(h, e)


def pd_verdict(M):
    """No tolerance argument: exactly Hermitian and smallest eigenvalue > 0.  Margin 1e-6 * scale on both tests."""
    M = np.asarray(M)
    if not square(M):
        return False
    s = max(1.0, float(np.max(np.abs(M)))) if M.size else 1.0
    dh = float(np.max(np.abs(M - dag(M)))) if M.size else 0.0
    if dh >= 1e-6 * s:
        return False
    if dh != 0.0:
        return None  # Hermitian only up to rounding: neither satisfies the definition exactly nor violates it by a margin
    lam = min_eig_herm(M)
    if lam >= 1e-6 * s:
        return True
    if lam <= -1e-6 * s:
        return False
    return None


def density_verdict(M):
    p = psd_verdict(M)
    if p is False:
        return False
    tr = complex(np.trace(np.asarray(M)))
    dev = abs(tr - 1.0)
    tau = ATOL + RTOL * 1.0
    if dev <= tau / MARGIN:
        t = True
    elif dev >= MARGIN * tau:
        t = False
    else:
        t = None
    return and3(p, t)


def projection_verdict(M, rtol=RTOL, atol=ATOL):
    """Docstring prose: PSD and X^2 = X; docstring example: a non-Hermitian idempotent is accepted.  Judged only where both
    readings agree: Hermitian-PSD idempotent -> True; not idempotent -> False; otherwise "ambiguous"."""
    idem = idempotent_verdict(M, rtol, atol)
    if idem is False:
        return False
    if idem is None:
        return None
    p = psd_verdict(M, rtol, atol)
    if p is True:
        return True
    if p is False:
        return "ambiguous"
    return None


# ------------------------------------------------------------------------------------------------ exact (no tolerance) predicates
def diagonal_verdict(M):
    """Square, all off-diagonal entries exactly zero.  The docstring adds "the diagonal of the matrix is non-zero": a zero on the
    diagonal is reported as ambiguous."""
    M = np.asarray(M)
    if not square(M):
        return False
    n = M.shape[0]
    off = M[~np.eye(n, dtype=bool)]
    mx = float(np.max(np.abs(off))) if off.size else 0.0
    if mx >= 1e-9:
        return False
    if mx != 0.0:
        return None
    if np.any(np.diag(M) == 0):
        return "ambiguous"
    return True


def dd_gap(M):
    M = np.abs(np.asarray(M))
    d = np.diag(M)
    rest = M.sum(axis=1) - d
    return d - rest


def diagonally_dominant_verdict(M, strict):
    """strict in {True, False, None}; None = argument omitted (prose says >=, default says strict: ties are ambiguous)."""
    M = np.asarray(M)
    if not square(M):
        return False
    s = max(1.0, float(np.max(np.abs(M)))) if M.size else 1.0
    exact = np.issubdtype(M.dtype, np.integer)
    if exact:
        n = M.shape[0]
        gaps = [abs(int(M[i, i])) - sum(abs(int(M[i, j])) for j in range(n) if j != i) for i in range(n)]
    else:
        gaps = [float(g) for g in dd_gap(M)]
    if any(g <= -1e-9 * s for g in gaps):
        return False
    ties = [g for g in gaps if g == 0]
    small = [g for g in gaps if g != 0 and abs(g) < 1e-9 * s]
    if small:
        return None
    if not ties:
        return True
    if not exact:
        return None  # a float "tie" is a rounding accident, not a construction
    if strict is None:
        return "ambiguous"
    return not strict


def permutation_verdict(M):
    M = np.asarray(M)
    if M.ndim != 2:
        return None
    vals = M.ravel().tolist()
    off = [min(abs(v), abs(v - 1)) for v in vals if not (v == 0 or v == 1)]
    if off:
        return False if max(off) >= 1e-9 else None
    r, c = M.shape
    rows_ok = all(sum(1 for j in range(c) if M[i, j] == 1) == 1 for i in range(r))
    cols_ok = all(sum(1 for i in range(r) if M[i, j] == 1) == 1 for j in range(c))
    return bool(rows_ok and cols_ok and r == c)


def circulant_verdict(M):
    M = np.asarray(M)
    if not square(M):
        return False
    n = M.shape[0]
    vs = []
    for i in range(n - 1):
        shifted = np.array([M[i, (j - 1) % n] for j in range(n)])
        vs.append(eq_verdict(M[i + 1], shifted))
    return and3(*vs) if vs else True


def nonnegative_entries_verdict(M):
    M = np.asarray(M)
    if np.iscomplexobj(M):
        return None
    mn = float(M.min()) if M.size else 0.0
    if mn >= 0:
        return True
    if mn <= -1e-9:
        return False
    return None


def positive_entries_verdict(M):
    M = np.asarray(M)
    if np.iscomplexobj(M):
        return None
    mn = float(M.min()) if M.size else 1.0
    if mn >= 1e-9:
        return True
    if mn <= 0:
        return False
    return None


def nonnegative_verdict(M, mat_type="nonnegative"):
    e = nonnegative_entries_verdict(M)
    if mat_type == "nonnegative":
        return e
    if e is False:
        return False
    return and3(e, psd_verdict(M))


def stochastic_verdict(M, mat_type):
    M = np.asarray(M)
    if not square(M):
        return False
    e = nonnegative_entries_verdict(M)
    if e is False:
        return False

    def sums_ok(axis):
        s = M.sum(axis=axis)
        dev = float(np.max(np.abs(s - 1.0)))
        tau = ATOL + RTOL
        if dev <= tau / MARGIN:
            return True
        if dev >= MARGIN * tau:
            return False
        return None
    parts = [e]
    if mat_type in ("left", "doubly"):
        parts.append(sums_ok(0))
    if mat_type in ("right", "doubly"):
        parts.append(sums_ok(1))
    return and3(*parts)


# ------------------------------------------------------------------------------------------------ exact rational linear algebra
def to_frac(x):
    if isinstance(x, Fraction):
        return x
    if isinstance(x, (int, np.integer)):
        return Fraction(int(x))
    return Fraction(float(x))  # exact: every float is a dyadic rational


def frac_matrix(M):
    return [[to_frac(x) for x in row] for row in np.asarray(M).tolist()]


def det_frac(A) -> Fraction:
    """Determinant by fraction Gaussian elimination (exact)."""
    A = [row[:] for row in A]
    n = len(A)
    det = Fraction(1)
    for c in range(n):
        piv = next((r for r in range(c, n) if A[r][c] != 0), None)
        if piv is None:
            return Fraction(0)
        if piv != c:
            A[c], A[piv] = A[piv], A[c]
            det = -det
        det *= A[c][c]
        for r in range(c + 1, n):
            f = A[r][c] / A[c][c]
            if f != 0:
                for k in range(c, n):
                    A[r][k] -= f * A[c][k]
    return det


def rank_frac(A) -> int:
    A = [row[:] for row in A]
    if not A or not A[0]:
        return 0
    rows, cols = len(A), len(A[0])
    rank = 0
    for c in range(cols):
        piv = next((r for r in range(rank, rows) if A[r][c] != 0), None)
        if piv is None:
            continue
        A[rank], A[piv] = A[piv], A[rank]
        for r in range(rows):
            if r != rank and A[r][c] != 0:
                f = A[r][c] / A[rank][c]
                for k in range(c, cols):
                    A[r][k] -= f * A[rank][k]
        rank += 1
        if rank == rows:
            break
    return rank


def minors(M, sizes=None):
    """Yield (size, rows, cols, exact minor) of a real matrix (entries converted exactly to Fractions)."""
    F = frac_matrix(M)
    r, c = len(F), len(F[0])
    for j in (sizes if sizes is not None else range(1, min(r, c) + 1)):
        for kr in itertools.combinations(range(r), j):
            for kc in itertools.combinations(range(c), j):
                yield j, kr, kc, det_frac([[F[a][b] for b in kc] for a in kr])


def totally_positive_verdict(M, tol=1e-6, sizes=None):
    """All (selected) minors positive.  True iff every minor >= 100*tol; False iff some minor <= -100*tol (or an entry has
    |imag| >= 100*tol); otherwise None.  Rectangular all-positive matrices are "ambiguous" (prose says square, the default
    sub_sizes says min(shape))."""
    M = np.asarray(M)
    if np.iscomplexobj(M):
        if sizes is None or 1 in sizes:
            im = float(np.max(np.abs(M.imag)))
            if im >= MARGIN * tol:
                return False
            if im != 0.0:
                return None
        elif float(np.max(np.abs(M.imag))) != 0.0:
            return None
        M = M.real
    lo = None
    for _, _, _, m in minors(M, sizes):
        lo = m if lo is None or m < lo else lo
    if lo is None:
        return True
    if lo <= -Fraction(MARGIN * tol):
        return False
    if lo >= Fraction(MARGIN * tol):
        return True if M.shape[0] == M.shape[1] else "ambiguous"
    return None


def spark_ref(M) -> int:
    """Smallest number of linearly dependent columns (exact rank); min(m, n) + 1 when no subset up to that size is dependent
    (the library's documented return value for 'all columns independent')."""
    F = frac_matrix(M)
    m, n = len(F), len(F[0])
    for k in range(1, min(m, n) + 1):
        for cols in itertools.combinations(range(n), k):
            sub = [[F[r][c] for c in cols] for r in range(m)]
            if rank_frac(sub) < k:
                return k
    return min(m, n) + 1


def spark_definition(M) -> int:
    """The textbook value: smallest k such that some k columns are dependent; n + 1 if all n columns are independent."""
    F = frac_matrix(M)
    m, n = len(F), len(F[0])
    for k in range(1, n + 1):
        for cols in itertools.combinations(range(n), k):
            sub = [[F[r][c] for c in cols] for r in range(m)]
            if rank_frac(sub) < k:
                return k
    return n + 1


def majorizes_ref(a, b) -> bool:
    """Weak majorisation from below on sorted (descending) sequences, zero padded: all partial sums of a >= those of b."""
    a = sorted(a, reverse=True)
    b = sorted(b, reverse=True)
    n = max(len(a), len(b))
    a = a + [0] * (n - len(a))
    b = b + [0] * (n - len(b))
    sa = sb = 0
    for k in range(n):
        sa += a[k]
        sb += b[k]
        if sa < sb:
            return False
    return True


def partitions(n: int):
    """All partitions of n as non-increasing tuples."""
    def rec(rem, mx):
        if rem == 0:
            yield ()
            return
        for f in range(min(rem, mx), 0, -1):
            for rest in rec(rem - f, f):
                yield (f,) + rest
    return list(rec(n, n))


def kp_norm_ref(M, k, p) -> float:
    s = np.linalg.svd(np.asarray(M, dtype=complex), compute_uv=False)
    s = sorted((float(x) for x in s), reverse=True)[:k]
    if p == np.inf or p == "inf":
        return max(s)
    return float(sum(x ** p for x in s) ** (1.0 / p))


def trace_norm_ref(M) -> float:
    return float(np.sum(np.linalg.svd(np.asarray(M, dtype=complex), compute_uv=False)))


# ------------------------------------------------------------------------------------------------ vec / unvec / kron (index level)
def vec_ref(M):
    """Column stacking: entry (i, j) of an r x c matrix goes to position j*r + i."""
    rows = np.asarray(M).tolist()
    r, c = len(rows), len(rows[0])
    return [rows[i][j] for j in range(c) for i in range(r)]


def unvec_ref(v, r, c):
    v = list(np.asarray(v).ravel().tolist())
    return [[v[j * r + i] for j in range(c)] for i in range(r)]


def kron_ref(A, B):
    A = np.asarray(A)
    B = np.asarray(B)
    if A.ndim == 1 and B.ndim == 1:
        return np.array([a * b for a in A.tolist() for b in B.tolist()])
    A2 = A.reshape(1, -1) if A.ndim == 1 else A
    B2 = B.reshape(1, -1) if B.ndim == 1 else B
    ra, ca = A2.shape
    rb, cb = B2.shape
    out = np.zeros((ra * rb, ca * cb), dtype=np.result_type(A2, B2))
    for i in range(ra):
        for j in range(ca):
            out[i * rb:(i + 1) * rb, j * cb:(j + 1) * cb] = A2[i, j] * B2
    return out


# ------------------------------------------------------------------------------------------------ state-set predicates
def gram(vectors):
    V = np.array([np.asarray(v).ravel() for v in vectors], dtype=complex)
    return V.conj() @ V.T  # G[i, j] = <v_i, v_j>, conjugate-linear in the first argument


def mutually_orthogonal_verdict(vectors):
    G = gram(vectors)
    n = G.shape[0]
    off = np.abs(G[~np.eye(n, dtype=bool)])
    mx = float(off.max()) if off.size else 0.0
    if mx <= ATOL / MARGIN:
        return True
    if mx >= MARGIN * ATOL:
        return False
    return None


def orthonormal_verdict(vectors):
    G = gram(vectors)
    n = G.shape[0]
    return and3(mutually_orthogonal_verdict(vectors), eq_verdict(G, np.eye(n)))


def linear_independence_ratio(vectors):
    V = np.array([np.asarray(v).ravel() for v in vectors], dtype=complex).T
    s = np.linalg.svd(V, compute_uv=False)
    if len(vectors) > V.shape[0]:
        return 0.0
    return float(s.min() / s.max()) if s.max() > 0 else 0.0


def mub_verdict(vectors, d):
    """Cross-basis |<u,v>|^2 = 1/d for vectors from different consecutive blocks of d; also says whether every block is
    itself orthonormal (precondition of the definition)."""
    n = len(vectors)
    if n % d != 0:
        return False, None
    nb = n // d
    vs = [np.asarray(v).ravel() for v in vectors]
    tau = ATOL + RTOL / d
    res = []
    for i in range(nb):
        for j in range(i + 1, nb):
            for k in range(d):
                for l in range(d):
                    ip = abs(np.vdot(vs[i * d + k], vs[j * d + l])) ** 2
                    dev = abs(ip - 1.0 / d)
                    res.append(True if dev <= tau / MARGIN else (False if dev >= MARGIN * tau else None))
    blocks = and3(*[orthonormal_verdict(vs[i * d:(i + 1) * d]) if d > 1 else eq_verdict(abs(vs[i][0]), 1.0) for i in range(nb)])
    return (and3(*res) if res else True), blocks


def local_factors(v, dims):
    """Factors of a product vector (up to scalars) by repeated rank-one SVD splits; returns (factors, residual)."""
    v = np.asarray(v, dtype=complex).ravel()
    out = []
    resid = 0.0
    rest = v
    for d in dims[:-1]:
        Mx = rest.reshape(d, -1)
        u, s, vh = np.linalg.svd(Mx, full_matrices=False)
        resid = max(resid, float(s[1]) if len(s) > 1 else 0.0)
        out.append(u[:, 0] * np.sqrt(s[0]))
        rest = vh[0] * np.sqrt(s[0])
    out.append(rest)
    return out, resid


def is_product_ref(v, dims, tol=1e-9) -> bool:
    v = np.asarray(v, dtype=complex).ravel()
    if np.linalg.norm(v) == 0:
        return True
    return local_factors(v / np.linalg.norm(v), dims)[1] <= tol


def upb_extendible_ref(vectors, dims):
    """Is there a product state orthogonal to every (product) vector?  Brute force over all assignments of the vectors to the
    parties (party i must kill the vectors assigned to it, which needs rank < d_i).  Returns True / False / None (a singular
    value inside (1e-9, 1e-6) relative)."""
    m = len(dims)
    facs = [local_factors(np.asarray(v, dtype=complex).ravel() / np.linalg.norm(v), dims)[0] for v in vectors]
    n = len(vectors)
    undecided = False
    for assign in itertools.product(range(m), repeat=n):
        good = True
        for party in range(m):
            mine = [facs[k][party] / np.linalg.norm(facs[k][party]) for k in range(n) if assign[k] == party]
            if not mine:
                continue
            s = np.linalg.svd(np.array(mine), compute_uv=False)
            rank_hi = int(np.sum(s > 1e-9))
            rank_lo = int(np.sum(s > 1e-6))
            if rank_hi != rank_lo:
                undecided = True
                good = False
                break
            if rank_lo >= dims[party]:
                good = False
                break
        if good:
            return True
    return None if undecided else False
