"""Ensemble alphabets shared by C10 and C11: all subsets of the ket catalogue, mixed ensembles from the density
catalogue, priors, input forms.  A case stores only keys; ``build`` rebuilds the arrays (pure functions of the case and
VERIF_SEED)."""

from __future__ import annotations

import itertools

import numpy as np

from mc import catalog
from mc.ref import sdp_cert as sc

KET_FORMS = ("col", "1d", "dm")


def ket_names(d: int) -> list[str]:
    return list(catalog.kets(d).keys())


def mixed_names(d: int, tier: str) -> list[str]:
    """Non-pure members of the density catalogue plus two ket projectors (so that pure/mixed ensembles occur)."""
    names = [k for k in catalog.densities(d).keys() if not k.startswith("ket:")]
    if tier == "quick" and d == 3:
        keep = ("flat2@I", "ramp2hi@I", "ramp3@I", "flat2@F", "ramp2@F", "ramp3@F", "ramp2hi@g", "ramp3@g", "gfull0", "gdef0")
        names = [k for k in names if k in keep]
    return ["ket:e0", "ket:g0"] + names


def subset_sizes(d: int, tier: str) -> tuple[int, ...]:
    if tier == "quick":
        return (2, 3)
    return (2, 3, 4, 5) if d <= 3 else (2, 3)


def dims(tier: str) -> tuple[int, ...]:
    return (2, 3) if tier == "quick" else (2, 3, 4)


def ket_subsets(tier: str):
    """(d, keys) for every subset of the ket catalogue within the tier's bounds, simplest first."""
    for d in dims(tier):
        names = ket_names(d)
        for k in subset_sizes(d, tier):
            for keys in itertools.combinations(names, k):
                yield d, list(keys)


def mixed_subsets(tier: str):
    for d in dims(tier):
        if d == 4:
            continue
        names = mixed_names(d, tier)
        for k in ((2, 3) if (tier == "thorough" or d == 2) else (2,)):
            for keys in itertools.combinations(names, k):
                if all(x.startswith("ket:") for x in keys):
                    continue
                yield d, list(keys)
        if tier == "quick" and d == 3:
            core = ("ket:g0", "flat2@I", "ramp2@F", "ramp3@g", "gfull0", "gdef0")
            for keys in itertools.combinations(core, 3):
                yield d, list(keys)


def prior_keys(n: int) -> tuple[str, ...]:
    # "zero": the last state is never prepared (prior exactly 0) - added after seeded change C11-4, which dropped zero-prior states
    # (harmless for discrimination, wrong for exclusion, where such a state can always be excluded: the value must be 0)
    # "zero0": the first state is never prepared - added after seeded change C10-7, which moved the operators of zero-prior states to
    # the end of the returned measurement (invisible when the zero is last)
    return ("uniform", "ramp", "g0", "zero", "zero0") if n >= 3 else ("uniform", "ramp", "g0")


def weights(n: int, key: str) -> np.ndarray:
    if key in ("none", "uniform"):
        return np.ones(n) / n
    if key == "zero":
        w = np.arange(n - 1, 0, -1, dtype=float)
        return np.concatenate([w / w.sum(), [0.0]])
    if key == "zero0":
        w = np.arange(1, n, dtype=float)
        return np.concatenate([[0.0], w / w.sum()])
    if key == "ones":
        return np.ones(n)
    if n <= 5:
        return catalog.prior(n, key)
    # larger ensembles (the eight PBR states): the catalogue's conditioning filter (gaps >= 0.03) is infeasible there
    if key == "ramp":
        w = np.arange(n, 0, -1, dtype=float)
        return w / w.sum()
    for attempt in range(200):
        p = catalog.rng(f"c11prior{n}", int(key[1:]), attempt).dirichlet(np.ones(n) * 2.0)
        if p.min() > 0.02:
            return p
    raise RuntimeError("no generic prior")


def natural(v: np.ndarray) -> np.ndarray:
    """Real-valued kets are passed with a real dtype (as a user would write them), complex ones as complex."""
    v = np.asarray(v)
    if np.iscomplexobj(v) and np.all(v.imag == 0):
        return v.real.copy()
    return v.copy()


GRAM_PHASES = [[0, 0, 0, 0, 0, 0], [1, 2, 5, 0, 0, 0], [5, -5, 7, 6, 0, -4], [10, 10, 10, 10, 10, 10], [3, 1, 4, 1, 5, 9], [0, 0, 0, 7, -7, 7]]


def gram_kets(n: int, r: float, pattern: int):
    """n unit vectors in C^n whose pairwise overlaps all have modulus r, with relative phases pattern * pi/20 (None if not PSD).
    Near r = (n-2)/(n-1) these sets sit on the boundary of antidistinguishability, and the phases decide on which side."""
    ph = GRAM_PHASES[pattern]
    G = np.eye(n, dtype=complex)
    t = 0
    for i in range(n):
        for j in range(i + 1, n):
            G[i, j] = r * np.exp(1j * np.pi * ph[t % len(ph)] / 20)
            G[j, i] = np.conj(G[i, j])
            t += 1
    w, v = np.linalg.eigh(G)
    if w.min() < 1e-9:
        return None
    S = (v * np.sqrt(w)) @ v.conj().T  # columns of the positive square root have Gram matrix G
    return [S[:, k].copy() for k in range(n)]


def build(case: dict):
    """-> (inputs for toqito in the requested form, harness density operators, kets or None, probs argument, weights)."""
    if case.get("kind") == "gram":
        case = dict(case, d=case["n"], keys=list(range(case["n"])))
    d, keys, kind, form = case["d"], case["keys"], case.get("kind", "ket"), case.get("form", "col")
    n = len(keys)
    if kind in ("ket", "gram"):
        kets = gram_kets(case["n"], case["r"], case["pattern"]) if kind == "gram" else [catalog.ket(d, k) for k in keys]
        rhos = [sc.as_density(k) for k in kets]
        if form == "1d":
            inputs = [natural(k) for k in kets]
        elif form == "col":
            inputs = [natural(k).reshape(-1, 1) for k in kets]
        elif form == "dm":
            inputs = [np.outer(natural(k), np.conj(natural(k))) for k in kets]
        else:
            raise KeyError(form)
    else:
        kets = None
        rhos = [catalog.density(d, k) for k in keys]
        inputs = [natural(r) for r in rhos]
    w = weights(n, case.get("prior", "uniform"))
    probs = None if case.get("prior") == "none" else [float(x) for x in w]
    return inputs, rhos, kets, probs, w


def apply_unitary(inputs, u):
    out = []
    for x in inputs:
        if x.ndim == 2 and x.shape[0] == x.shape[1]:
            out.append(u @ x @ u.conj().T)
        elif x.ndim == 2:
            out.append(u @ x)
        else:
            out.append(u @ x)
    return out


def digest(inputs, probs) -> tuple:
    return tuple((x.shape, str(x.dtype), x.tobytes()) for x in inputs) + (None if probs is None else tuple(probs),)


def is_complex_case(rhos) -> bool:
    return any(np.max(np.abs(np.asarray(r).imag)) > 1e-9 for r in rhos)


def solver_failure(exc: BaseException) -> bool:
    """The solver did not return a solution (DESIGN 4.3 -> indeterminate): picos SolutionFailure, an arithmetic
    break-down inside CVXOPT (ZeroDivisionError / ArithmeticError, documented in state_exclusion's docstring), or any
    exception raised from inside the cvxopt package itself (e.g. ValueError 'domain error' on rank-deficient Gram
    matrices).  Exceptions raised while *building* the problem (picos TypeError ...) are not solver failures."""
    if type(exc).__name__ == "SolutionFailure" or isinstance(exc, ArithmeticError):
        return True
    import traceback

    tb = traceback.extract_tb(exc.__traceback__)
    return bool(tb) and "/cvxopt/" in tb[-1].filename.replace("\\", "/")


def solver_kwargs(strategy: str, pd: str) -> dict:
    """picos options passed through toqito's documented ``**kwargs``.

    Dual forms are called exactly as the library's own predicates call them (no options).  Primal forms carry equality
    constraints which picos hands to CVXOPT with redundant rows; with CVXOPT's default KKT solver this either raises
    ZeroDivisionError / ArithmeticError or iterates for minutes (observed: 512 s on a two-state qubit ensemble) before
    converging.  state_exclusion's docstring names ``cvxopt_kktsolver="ldl"`` as the remedy and toqito's own tests pass
    it, so the harness does too; the iteration cap turns any remaining stall into a SolutionFailure (= indeterminate)."""
    if pd == "primal":
        return {"cvxopt_kktsolver": "ldl", "max_iterations": 2000}
    return {}
