"""Cross-checks of the builders' reference models (two independent formulations each), run by ./check --selftest."""

import importlib


def main() -> int:
    n = 0
    for modname in ("mc.ref.channels", "mc.ref.c06_maps", "mc.ref.games", "mc.ref.metrics", "mc.ref.entanglement", "mc.ref.predicates",
                    "mc.ref.sdp_cert", "mc.ref.c08_xor", "mc.ref.c12_ppt", "mc.ref.c09_games", "mc.ref.c09_sdp"):
        try:
            mod = importlib.import_module(modname)
        except ImportError:
            continue
        fn = getattr(mod, "selfcheck", None) or getattr(mod, "selftest", None)
        if fn is not None:
            n += int(fn() or 0)
    return n
