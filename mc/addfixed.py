"""python -m mc.addfixed <prop> <commit-subject-substring> <clause> <what> [<witness-json>]  -- appends a 'fixed' record."""
import json, os, subprocess, sys
VERIF = os.path.dirname(os.path.dirname(os.path.abspath(__file__)))
prop, sub, clause, what = sys.argv[1:5]
wit = json.loads(sys.argv[5]) if len(sys.argv) > 5 else {}
log = subprocess.run(["git", "-C", "/repo", "log", "--format=%h %s"], capture_output=True, text=True).stdout.splitlines()
sha = next(l.split()[0] for l in log if sub in l)
p = os.path.join(VERIF, "known_findings.fixed.json")
f = json.load(open(p))
f.append({"status": "fixed", "property": prop, "commit": sha, "clause": clause, "what": what, "witness": wit})
json.dump(f, open(p, "w"), indent=1)
print("fixed:", prop, sha, what[:60])
