"""Regenerates known_findings.json = FIXED entries (kept in known_findings.fixed.json) + ENTRIES of every mc/kf/cNN.py.
Run by hand (python -m mc.mkfindings) when a finding is added; never at check time."""

import importlib
import json
import os
import pkgutil

import mc.kf

VERIF = os.path.dirname(os.path.dirname(os.path.abspath(__file__)))


def main():
    with open(os.path.join(VERIF, "known_findings.fixed.json")) as fh:
        out = json.load(fh)
    for m in sorted(pkgutil.iter_modules(mc.kf.__path__), key=lambda m: m.name):
        mod = importlib.import_module("mc.kf." + m.name)
        for e in getattr(mod, "ENTRIES", []):
            assert e["status"] == "open" and e["id"].startswith("KF-"), e
            out.append(e)
    with open(os.path.join(VERIF, "known_findings.json"), "w") as fh:
        json.dump(out, fh, indent=1)
    print(len(out), "entries")


if __name__ == "__main__":
    main()
