"""C06 — channel predicates decide by definition; built-in channels are what they claim.

Kind 3 (boolean predicates with tolerances) on a *ground-truth catalogue*: every map is built so that its status for each
predicate is a theorem about the construction (unitary conjugations d in {2,3,4}; rational convex mixtures of Hilbert-Schmidt
orthogonal and of generic unitaries; Stinespring isometries with d_in != d_out; the same scaled by c != 1; CP plus
margin * (negative rank one), with and without trace compensation; X -> AXB^+ + BXA^+ and X -> AXB^+ with A != B;
X -> UXV^+ with two different unitaries; a CP map plus a strictly-upper-triangular Choi entry; transpose; X -> -X;
X -> X - 2 diag X; reduction maps k Tr(X) I - X; amplitude damping; Watrous' Example 2.33; reset and partial-trace channels;
depolarizing / dephasing from Weyl operators).  The same verdicts are re-derived from the definitions by boring arithmetic
(mc/ref/c06_maps.truth: loops over the operator basis, eigvalsh / svd of the reference Choi matrix) with an explicit margin
status, construction claims and arithmetic must agree on every case (else harness error), and the full product
   catalogue  x  representation {flat, nested, row, pairs, linearly dependent list, Choi (+ dim / sys=1 variants)}  x  predicate
is executed against toqito.  Built-in constructors are compared with their closed formulas written entry by entry (no Kraus
operators) on all basis inputs E_ij and i*E_ij over parameter grids that contain both end points; every predicate is asked
about the object each constructor returns; values just outside a documented range must be rejected.
"""

from __future__ import annotations

import itertools
from fractions import Fraction

import numpy as np

from mc import catalog
from mc.engine import Clause, call, exc_text, is_deliberate_rejection, ok, rejected, viol, indet
from mc.ref import c06_maps as R

ALG = 1e-9

RULE = ("case = one point of a clause's finite product space. predicates: (catalogue map spec, representation, predicate); "
        "builtin_action: (constructor, parameter point, form) with ALL basis inputs E_ij, i*E_ij and one generic complex matrix "
        "evaluated inside the case; builtin_flags: (constructor, parameter point, predicate) on the object the constructor returns; "
        "builtin_reject: (constructor, out-of-range parameter point, calling form). Every case of the listed alphabets is executed. "
        "Non-trivial iff the expected verdict is definite (margin case, not 'either answer accepted') and the map is not the "
        "identity channel given in a minimal representation; built-ins: the parameter point does not reduce the channel to the "
        "identity map. states = distinct cases, transitions = toqito API calls")
ASSUMPTIONS = [
    "numpy @, kron, eigvalsh, svd, qr are correct (primitives of the reference, not the mechanism under test)",
    "predicates are asserted only on margin cases: the definition is satisfied to <= 1e-10 or violated by >= 1e-3 (>= 100 x rtol=1e-5 "
    "on O(1) entries); cases inside the band are reported as indeterminate; is_extremal (tol=1e-9 on singular values) needs >= 1e-4 or <= 1e-11",
    "choi_rank uses numpy's default rank tolerance (~N*eps*s_max): non-zero singular values of every catalogue map are >= 1e-3, zero ones are rounding noise",
    "a bare Choi matrix with d_in != d_out does not determine a map: predicates without a `dim` argument (is_quantum_channel, "
    "is_trace_preserving / is_unital without dim) are not asked about such a matrix; is_extremal is called to count deliberate rejections "
    "but a verdict about the square map it guesses is not judged; is_unitary must answer False (documented)",
    "is_extremal is asked only about quantum channels (CP and TP); is_positive accepts either answer on positive-but-not-CP maps and on "
    "non-CP maps for which no catalogue ket gives a non-positivity witness with margin",
    "a Kraus list is an accepted representation whether or not its operators are linearly independent (flat_dup = sqrt(1/3) K_t, i sqrt(2/3) K_t; "
    "lists with zero operators): the verdict is a property of the map",
    "dims bounded: d in {1..3} (quick) / {1..4} (thorough) for Stinespring / pair / reset maps, unitary conjugations and mixtures d in {2,3,4}; "
    "Kraus rank <= 4 (d^2 for Weyl families); built-ins: dim <= 4 (5 thorough), Pauli channels on 1-2 (3 thorough) qubits",
    "only square input/output spaces (rectangular left/right pairs belong to C04); default rtol/atol only",
]

PREDICATES = ("is_completely_positive", "is_herm_preserving", "is_trace_preserving", "is_unital", "is_unitary", "is_quantum_channel",
              "is_positive", "choi_rank", "is_extremal")
TRUTH_KEY = {"is_completely_positive": "cp", "is_herm_preserving": "hp", "is_trace_preserving": "tp", "is_unital": "unital",
             "is_unitary": "unitary", "is_quantum_channel": "qc", "is_positive": "positive", "choi_rank": "rank", "is_extremal": "extremal"}
LIST_REPS = ("flat", "nested", "row", "pairs", "flat_dup", "flat+dim")


# ------------------------------------------------------------------------------------------------ catalogue enumeration
MIX_POOL = {2: ["H", "S", "Ry", "g0", "g1"], 3: ["F", "ph", "P120", "g0", "g1"], 4: ["F", "CNOT", "HH", "g0", "g1"]}
MIX_W = {2: [([1, 1], 2), ([1, 2], 3)], 3: [([1, 1, 2], 4), ([1, 2, 3], 6)], 4: [([1, 1, 1, 1], 4), ([1, 2, 3, 6], 12)]}


def map_specs(tier):
    th = tier == "thorough"
    out = []
    for d in (2, 3, 4):
        for u in catalog.unitaries(d):
            out.append({"kind": "unitary", "d": d, "u": u})
    for d in (2, 3, 4):
        for n in (2, 3, 4):
            for us in itertools.combinations(R.WEYL_KEYS, n):
                for w, den in (MIX_W[n] if (d < 4 or th) else MIX_W[n][:1]):
                    out.append({"kind": "mix", "d": d, "us": list(us), "w": w, "den": den})
        for us in itertools.combinations(MIX_POOL[d], 2):
            for w, den in (MIX_W[2] if (d < 4 or th) else MIX_W[2][1:]):
                out.append({"kind": "mix", "d": d, "us": list(us), "w": w, "den": den})
        if th:
            for us in itertools.combinations(MIX_POOL[d], 3):
                out.append({"kind": "mix", "d": d, "us": list(us), "w": [1, 2, 3], "den": 6})
    D = (1, 2, 3, 4) if th else (1, 2, 3)
    ukeys = ("F", "P", "H", "g0", "g1") if th else ("F", "P", "g0")
    for din, dout in sorted(itertools.product(D, D), key=lambda s: (max(s), s)):
        for r in (1, 2, 3) + ((4,) if th else ()):
            if dout * r < din:
                continue
            for u in ukeys:
                out.append({"kind": "stine", "din": din, "dout": dout, "r": r, "u": u})
    bases = [{"kind": "unitary", "d": 2, "u": "H"}, {"kind": "unitary", "d": 3, "u": "g0"},
             {"kind": "stine", "din": 2, "dout": 3, "r": 1, "u": "F"}, {"kind": "stine", "din": 2, "dout": 2, "r": 2, "u": "g0"},
             {"kind": "stine", "din": 3, "dout": 2, "r": 2, "u": "F"}, {"kind": "ad", "g": [3, 10]}, {"kind": "depol", "d": 2, "p": [1, 4]}]
    for b in bases:
        for c in ([1, 2], [2, 1], [501, 500]):
            out.append({"kind": "scaled", "base": b, "c": c})
    for d in (2, 3) + ((4,) if th else ()):
        uv = list(itertools.permutations(R.WEYL_KEYS, 2)) + [("g0", "g1"), ("F", "g0")]
        for u, v in uv:
            for m in ([3, 10], [1, 500]):
                for tp in (False, True):
                    out.append({"kind": "notcp", "d": d, "u": u, "v": v, "m": m, "tp": tp})
    for din, dout in sorted(itertools.product(D, D), key=lambda s: (max(s), s)):
        for fam in ("s", "g"):
            for k in (0, 1) + ((2, 3) if th else ()):
                out.append({"kind": "hp_pair", "din": din, "dout": dout, "fam": fam, "k": k})
            for r in (1, 2) + ((3,) if th else ()):
                out.append({"kind": "nonhp_pair", "din": din, "dout": dout, "fam": fam, "k": 0, "r": r})
    for d, u, vs in ((2, "H", ("S", "neg", "iU", "g0")), (3, "F", ("XZ", "neg", "iU")), (2, "I", ("Z", "ph"))):
        for v in vs:
            out.append({"kind": "uv_pair", "d": d, "u": u, "v": v})
    for b in (bases[0], bases[3], bases[2], bases[6]):
        n = R.build(b)["d_in"] * R.build(b)["d_out"]
        for ab in ([0, 1], [0, n - 1], [n - 2, n - 1]):
            for c in ([3, 10], [1, 500]):
                out.append({"kind": "upper_tri", "base": b, "c": c, "ab": ab})
    for d in (2, 3, 4):
        out.append({"kind": "transpose", "d": d})
    for d in (1, 2, 3):
        out.append({"kind": "neg", "d": d})
    for d in (2, 3):
        out.append({"kind": "minus2diag", "d": d})
        for k in list(range(1, d)) + [d + 1]:
            out.append({"kind": "reduction", "d": d, "k": k})
        for p in ([0, 1], [1, 4], [1, 2]):
            out.append({"kind": "depol", "d": d, "p": p})
            out.append({"kind": "dephase", "d": d, "p": p})
    for g in ([3, 10], [1, 2]) + (([1, 500], [9, 10]) if th else ()):
        out.append({"kind": "ad", "g": g})
    for g, p in (([3, 10], [1, 4]), ([1, 2], [1, 2])):
        out.append({"kind": "gad", "g": g, "p": p})
    out.append({"kind": "watrous233"})
    for din, dout in itertools.product(D, repeat=2):
        for ket in ("e0", "g0") + (("g1", "ramp") if th and dout > 1 else ()):
            out.append({"kind": "reset", "din": din, "dout": dout, "ket": ket})
    for da, db in ((2, 2), (1, 2), (2, 1), (2, 3), (3, 2)) + (((4, 2), (3, 3), (1, 4)) if th else ()):
        out.append({"kind": "ptrace", "da": da, "db": db})
    return out


def reps_for(m, pred):
    pairs, din, dout, _ = R.unpack(m)
    eq = din == dout
    reps = []
    if R.is_cp_presentation(pairs):
        reps += ["flat", "nested"] + (["row"] if len(pairs) > 2 else []) + ["pairs", "flat_dup"]
        if pred == "is_unital":
            reps.append("flat+dim")
    else:
        reps += ["pairs"]
    if pred == "is_extremal" and "pairs" in reps:
        # is_extremal documents flat and nested lists "which will be flattened"; [[A, A]] is therefore the two-operator list
        # {A, A}, not a left/right pair.  The pairs reading is not an accepted representation of this predicate: not judged
        # (coordinator's triage of the builder's proposed fix 2, see DESIGN corrections log).
        reps.remove("pairs")
    if pred == "is_trace_preserving":
        reps += (["choi", "choi+dimint"] if eq else []) + ["choi+dim", "choi_sys1"]
    elif pred == "is_unital":
        reps += (["choi"] if eq else []) + ["choi+dim", "choi+dim2x2"]
    elif pred == "is_quantum_channel":
        reps += ["choi"] if eq else []
    else:
        reps += ["choi"]
    return reps


def predicate_cases(tier, seed):
    for spec in map_specs(tier):
        m = R.build(spec)
        t = R.truth_of(spec)
        for pred in PREDICATES:
            if pred == "is_extremal" and t["qc"] is not True:
                continue
            for rep in reps_for(m, pred):
                yield {"map": spec, "rep": rep, "pred": pred}


def predicate_alphabets(tier, seed):
    specs = map_specs(tier)
    kinds = {}
    for s in specs:
        kinds[s["kind"]] = kinds.get(s["kind"], 0) + 1
    return {"maps": len(specs), "by_kind": kinds, "predicates": len(PREDICATES),
            "representations": ["flat", "nested", "row", "pairs", "flat_dup", "flat+dim", "choi", "choi+dim", "choi+dimint", "choi+dim2x2", "choi_sys1"],
            "generic": [f"unitary:g0..g{catalog.G - 1} (d=2,3,4)", "big_unitary:g0,g1", "op_matrix:g"], "seed": seed}


def call_kwargs(pred, rep, din, dout):
    if pred == "is_trace_preserving":
        if rep == "choi+dim":
            return {"dim": [din, dout]}
        if rep == "choi+dimint":
            return {"dim": int(din)}
        if rep == "choi_sys1":
            return {"sys": 1, "dim": [dout, din]}
    if pred == "is_unital":
        if rep in ("choi+dim", "flat+dim"):
            return {"dim": [din, dout]}
        if rep == "choi+dim2x2":
            return {"dim": [[din, dout], [din, dout]]}
    return {}


def predicate_check(case):
    import toqito.channel_props as cp_mod

    spec, rep, pred = case["map"], case["rep"], case["pred"]
    m = R.build(spec)
    t = R.truth_of(spec)
    pairs, din, dout, _ = R.unpack(m)
    fn = getattr(cp_mod, pred)
    obj = R.representation(m, rep)
    site = f"{pred}:{rep}"
    dependent = False
    if rep in LIST_REPS:
        ks = [x[0] if isinstance(x, list) else x for x in (obj[0] if rep == "row" else obj)]
        dependent = R.list_dependence(ks) if R.is_cp_presentation(pairs) else False
        if dependent is None and pred in ("is_unitary", "is_extremal"):
            return indet("linear dependence of the presented Kraus list is inside the band")
        if dependent:
            site = f"{pred}:dependent_list"
    expected = t[TRUTH_KEY[pred]]
    if pred == "is_positive":
        expected = {"cp": True, "nonpos": False, "either": None}[expected]
    val, exc = call(fn, obj, **call_kwargs(pred, rep, din, dout))
    if exc is not None:
        if pred == "is_extremal" and rep == "choi" and din != dout and is_deliberate_rejection(exc):
            return rejected("is_extremal has no dim argument: Choi matrix with d_in != d_out refused: " + exc_text(exc))
        return viol(f"{pred} raised on the {rep} representation of {spec['kind']} ({din}->{dout}): " + exc_text(exc),
                    site=site + ":exception", observed="exception", expected=R_json(expected))
    if pred == "is_extremal" and rep == "choi" and din != dout:
        # a bare Choi matrix with d_in != d_out does not determine the map and is_extremal has no `dim` argument: the call is
        # made to record a deliberate rejection, a verdict about whatever square map the function guessed is not judged
        return ok(False, obs=bool(val), note="bare Choi matrix with unequal dimensions: outside the quantifier's domain")
    if expected is None:
        if pred == "is_positive":
            return ok(False, obs=bool(val), note="positive but not CP: either answer accepted")
        return indet(f"{pred}: the map is inside the margin band ({t['dev']})")
    if pred == "choi_rank":
        try:
            got = int(val)
        except (TypeError, ValueError):
            return viol(f"choi_rank returned {type(val).__name__}", site=site, observed=repr(val), expected=expected)
    else:
        if not isinstance(val, (bool, np.bool_)):
            return viol(f"{pred} returned {type(val).__name__}, not a boolean", site=site, observed=repr(val)[:80], expected=expected)
        got = bool(val)
    nontrivial = not (m["identity"] and not dependent)
    if got != expected:
        return viol(f"{pred}({rep} form of {spec['kind']} {din}->{dout}) = {got}, definition gives {expected}; margins {fmt_dev(t['dev'])}",
                    site=site, observed=got, expected=expected)
    return ok(nontrivial, obs=int(got) if pred == "choi_rank" else got)


def R_json(x):
    return x if isinstance(x, (bool, int, str)) or x is None else repr(x)


def fmt_dev(dev):
    return {k: float(f"{v:.3g}") for k, v in dev.items()}


# ------------------------------------------------------------------------------------------------ built-in channels: parameter grids
def _grid01(seed_axis):
    """[0,1] grid with both end points + one seed-derived generic interior value (as exact fraction num/1000)."""
    g = int(catalog.rng(seed_axis).integers(60, 940))
    return [[0, 1], [1, 4], [1, 2], [1, 1], [g, 1000]]


def _simplex(n, den):
    """All probability vectors of length n with entries k/den."""
    def rec(rem, k):
        if k == 1:
            yield (rem,)
            return
        for a in range(rem + 1):
            for rest in rec(rem - a, k - 1):
                yield (a,) + rest
    return [list(v) for v in rec(den, n)]


def builtin_points(tier):
    """[(ctor, par)] with par JSON-serialisable (fractions as [num, den]; None = argument omitted)."""
    th = tier == "thorough"
    pts = []
    for ctor in ("depolarizing", "dephasing"):
        for d in (1, 2, 3, 4) + ((5,) if th else ()):
            for p in [None] + _grid01(ctor):
                pts.append((ctor, {"d": d, "p": p}))
    gam = [[0, 1], [3, 10], [1, 2], [1, 1]] + _grid01("ad_gamma")[-1:]
    prb = [None, [0, 1], [1, 4], [1, 2], [1, 1]] + _grid01("ad_prob")[-1:]
    for g in [None] + gam:
        for p in prb:
            pts.append(("amplitude_damping", {"gamma": g, "prob": p}))
    for g in [None] + gam:
        pts.append(("phase_damping", {"gamma": g}))
    for p in [None] + _grid01("bitflip"):
        pts.append(("bitflip", {"prob": p}))
    # Pauli channels: all of the simplex grid with denominator 4 for one qubit, every vertex + a few interior points for two
    for v in _simplex(4, 4):
        pts.append(("pauli_channel", {"q": 1, "w": v, "den": 4, "as": "ndarray"}))
    for v in ([1, 2, 3, 4], [4, 3, 2, 1], [1, 0, 2, 7]):
        pts.append(("pauli_channel", {"q": 1, "w": v, "den": 10, "as": "list"}))
    for k in range(catalog.G):
        pts.append(("pauli_channel", {"q": 1, "generic": k, "as": "ndarray"}))
    for idx in range(16):
        pts.append(("pauli_channel", {"q": 2, "w": [1 if j == idx else 0 for j in range(16)], "den": 1, "as": "ndarray"}))
    pts.append(("pauli_channel", {"q": 2, "w": [1] * 16, "den": 16, "as": "list"}))
    pts.append(("pauli_channel", {"q": 2, "w": list(range(1, 17)), "den": 136, "as": "ndarray"}))
    pts.append(("pauli_channel", {"q": 2, "generic": 0, "as": "ndarray"}))
    if th:
        pts.append(("pauli_channel", {"q": 3, "w": list(range(1, 65)), "den": 2080, "as": "ndarray"}))
        pts.append(("pauli_channel", {"q": 3, "w": [1 if j == 27 else 0 for j in range(64)], "den": 1, "as": "list"}))
    for q in (1, 2):
        for s in (0, 1):
            pts.append(("pauli_channel", {"q": q, "npseed": s}))
    for d in (1, 2, 3, 4) + ((5,) if th else ()):
        for k in [None] + list(range(1, d + 2)):
            pts.append(("reduction", {"d": d, "k": k}))
    pts.append(("choi", {"a": None, "b": None, "c": None}))
    rng_abc = (0, 1, 2, 3) if not th else (0, 1, 2, 3, 4)
    for a, b, c in itertools.product(rng_abc, repeat=3):
        pts.append(("choi", {"a": a, "b": b, "c": c}))
    return pts


def _f(x, default):
    return default if x is None else R.frac(x)


def pauli_probs(par):
    if "generic" in par:
        return catalog.generic_prior(4 ** par["q"], par["generic"]) if par["q"] == 1 else _generic_prior_big(4 ** par["q"], par["generic"])
    return np.array([Fraction(int(a), int(par["den"])) for a in par["w"]], dtype=float)


def _generic_prior_big(n, k):
    p = catalog.rng(f"pauli_prior{n}", k).dirichlet(np.ones(n) * 2.0)
    return p / p.sum()


def resolve(ctor, par):
    """-> (d, textbook parameter dict, positional/keyword builder of the toqito call)."""
    if ctor in ("depolarizing", "dephasing"):
        return par["d"], {"p": _f(par["p"], 0.0)}
    if ctor == "amplitude_damping":
        return 2, {"gamma": _f(par["gamma"], 0.0), "prob": _f(par["prob"], 1.0)}
    if ctor == "phase_damping":
        return 2, {"gamma": _f(par["gamma"], 0.0)}
    if ctor == "bitflip":
        return 2, {"prob": _f(par["prob"], 0.0)}
    if ctor == "pauli_channel":
        return 2 ** par["q"], {"q": par["q"], "probs": None if "npseed" in par else pauli_probs(par)}
    if ctor == "reduction":
        return par["d"], {"k": 1 if par["k"] is None else par["k"]}
    if ctor == "choi":
        return 3, {"a": 1 if par["a"] is None else par["a"], "b": 1 if par["b"] is None else par["b"], "c": 0 if par["c"] is None else par["c"]}
    raise KeyError(ctor)


def ctor_call(ctor, par, X=None, kraus=False):
    """Call the constructor the way a user would (omitting arguments whose case value is None)."""
    import toqito.channels as ch

    if ctor in ("depolarizing", "dephasing"):
        a = (par["d"],) if par["p"] is None else (par["d"], R.frac(par["p"]))
        return call(getattr(ch, ctor), *a)
    if ctor in ("amplitude_damping", "phase_damping", "bitflip"):
        kw = {k: R.frac(v) for k, v in par.items() if v is not None}
        return call(getattr(ch, ctor), X, **kw)
    if ctor == "pauli_channel":
        if "npseed" in par:
            np.random.seed(par["npseed"])
            prob = int(par["q"])
        else:
            prob = pauli_probs(par)
            if par.get("as") == "list":
                prob = prob.tolist()
        kw = {}
        if kraus:
            kw["return_kraus_ops"] = True
        if X is not None:
            kw["input_mat"] = X
        return call(ch.pauli_channel, prob, **kw)
    if ctor == "reduction":
        a = (par["d"],) if par["k"] is None else (par["d"], par["k"])
        return call(ch.reduction, *a)
    if ctor == "choi":
        if par["a"] is None:
            return call(ch.choi)
        return call(ch.choi, par["a"], par["b"], par["c"])
    raise KeyError(ctor)


RETURNS_CHOI = ("depolarizing", "dephasing", "pauli_channel", "reduction", "choi")
FORMS = {"choi": ("choi", "apply", "kraus"), "kraus": ("kraus", "apply", "choi")}


def inputs_for(d):
    xs = []
    for i in range(d):
        for j in range(d):
            xs.append((f"E{i}{j}", R.unit(d, d, i, j)))
            xs.append((f"iE{i}{j}", R.unit(d, d, i, j, 1j)))
    xs.append(("generic", R.struct_matrix(d, d, 7) + 0.5 * catalog.generic_matrix(d, d, k=41)))
    return xs


def action_cases(tier, seed):
    for ctor, par in builtin_points(tier):
        if "npseed" in par:
            yield {"ctor": ctor, "par": par, "form": "random"}
            continue
        forms = FORMS["choi" if ctor in RETURNS_CHOI else "kraus"]
        if ctor == "pauli_channel":
            forms = forms + ("ctor_kraus", "ctor_apply")
        for form in forms:
            yield {"ctor": ctor, "par": par, "form": form}


def _close(a, b, tol=ALG):
    a, b = np.asarray(a), np.asarray(b)
    if a.shape != b.shape:
        return False
    return bool(np.max(np.abs(a - b)) <= tol * max(1.0, float(np.max(np.abs(b))))) if a.size else True


def _err(a, b):
    a, b = np.asarray(a), np.asarray(b)
    return float("inf") if a.shape != b.shape else (float(np.max(np.abs(a - b))) if a.size else 0.0)


def _kraus_pairs(res):
    """What toqito returned as Kraus description -> reference pairs."""
    if isinstance(res, list) and res and isinstance(res[0], np.ndarray):
        return [(np.asarray(k, dtype=complex), np.asarray(k, dtype=complex)) for k in res]
    if isinstance(res, list) and res and isinstance(res[0], (list, tuple)) and all(len(x) == 2 for x in res):
        return [(np.asarray(x[0], dtype=complex), np.asarray(x[1], dtype=complex)) for x in res]
    raise TypeError(f"not a Kraus description: {type(res).__name__}")


def action_nontrivial(ctor, tb, d):
    if d == 1:
        return False
    J = R.textbook_choi(ctor, tb, d)
    psi = np.eye(d).reshape(-1, 1)
    return not np.allclose(J, psi @ psi.T)


def action_check(case):
    from toqito.channel_ops import apply_channel, choi_to_kraus, kraus_to_choi

    ctor, par, form = case["ctor"], case["par"], case["form"]
    d, tb = resolve(ctor, par)
    calls = 0
    if form == "random":
        # pauli_channel(q): a random q-qubit Pauli channel -- the Kraus list determines the probabilities it drew
        res, exc = ctor_call(ctor, par, kraus=True)
        if exc is not None:
            return viol("pauli_channel(int) raised: " + exc_text(exc), site="pauli_channel:random:exception")
        J, ks = res
        probs = np.array([float(np.real(np.sum(np.conj(K) * K))) / d for K in ks])
        if len(ks) != 4 ** par["q"] or np.any(probs < 0) or abs(probs.sum() - 1) > ALG:
            return viol("random Pauli channel: Kraus list does not carry a probability vector", site="pauli_channel:random", observed=probs.tolist()[:16])
        tb = {"q": par["q"], "probs": probs}
        for idx, K in enumerate(ks):
            if not _close(K, np.sqrt(probs[idx]) * R.pauli_string(idx, par["q"])):
                return viol(f"random Pauli channel: Kraus operator {idx} is not sqrt(p) * P_{idx}", site="pauli_channel:random")
        if not _close(np.asarray(J), R.textbook_choi(ctor, tb, d)):
            return viol("random Pauli channel: Choi matrix != sum_i p_i |P_i>><<P_i| for its own Kraus list", site="pauli_channel:random")
        return ok(True, obs=round(float(probs[0]), 9), calls=1)

    nontriv = action_nontrivial(ctor, tb, d)
    J_ref = R.textbook_choi(ctor, tb, d)
    xs = inputs_for(d)
    returns_choi = ctor in RETURNS_CHOI
    if returns_choi:
        J, exc = ctor_call(ctor, par)
        calls += 1
        if exc is not None:
            return viol(f"{ctor}{par} raised on an admissible parameter point: " + exc_text(exc), site=f"{ctor}:exception")
        Ja = np.asarray(J)
        if form == "choi":
            if not _close(Ja, J_ref):
                return viol(f"{ctor}: returned Choi matrix differs from sum_ij E_ij (x) textbook(E_ij) by {_err(Ja, J_ref):.3g}",
                            site=f"{ctor}:choi", observed=Ja if Ja.size <= 64 else None, expected=J_ref if J_ref.size <= 64 else None)
            return ok(nontriv, obs=round(float(np.sum(np.abs(Ja) * np.arange(1, Ja.size + 1).reshape(Ja.shape))), 8), calls=calls)
        if form == "apply":
            for name, X in xs:
                Y, exc = call(apply_channel, X, J)
                calls += 1
                if exc is not None:
                    return viol(f"apply_channel(X, {ctor}(...)) raised for X={name}: " + exc_text(exc), site=f"{ctor}:apply:exception")
                exp = R.textbook(ctor, tb, X)
                if not _close(Y, exp):
                    return viol(f"{ctor}: applying the returned Choi matrix to {name} differs from the textbook formula by {_err(Y, exp):.3g}",
                                site=f"{ctor}:apply", observed=np.asarray(Y), expected=exp)
            return ok(nontriv, calls=calls)
        if form == "kraus":
            ks, exc = call(choi_to_kraus, Ja.copy())
            calls += 1
            if exc is not None:
                return viol(f"choi_to_kraus({ctor}(...)) raised: " + exc_text(exc), site=f"{ctor}:kraus:exception")
            if not ks:
                ok_zero = not np.any(np.abs(J_ref) > ALG)
                return ok(False, calls=calls) if ok_zero else viol(f"{ctor}: empty Kraus list for a non-zero map", site=f"{ctor}:kraus")
            prs = _kraus_pairs(ks)
            for name, X in xs:
                exp = R.textbook(ctor, tb, X)
                got = R.apply_pairs(prs, X)
                if not _close(got, exp, 1e-7):
                    return viol(f"{ctor}: Kraus form of the returned Choi matrix maps {name} off the textbook formula by {_err(got, exp):.3g}",
                                site=f"{ctor}:kraus", observed=got, expected=exp)
            return ok(nontriv, calls=calls)
        # pauli_channel extra return forms
        if form == "ctor_kraus":
            res, exc = ctor_call(ctor, par, kraus=True)
            calls += 1
            if exc is not None:
                return viol("pauli_channel(return_kraus_ops=True) raised: " + exc_text(exc), site="pauli_channel:ctor_kraus:exception")
            if not (isinstance(res, tuple) and len(res) == 2 and isinstance(res[1], list)):
                return viol("pauli_channel(return_kraus_ops=True) did not return (Phi, kraus list)", site="pauli_channel:ctor_kraus")
            if not _close(np.asarray(res[0]), J_ref):
                return viol("pauli_channel: Choi matrix of the (Phi, kraus) return differs from the textbook", site="pauli_channel:ctor_kraus")
            prs = _kraus_pairs(res[1])
            if len(prs) != 4 ** par["q"]:
                return viol("pauli_channel: number of Kraus operators != 4^q", site="pauli_channel:ctor_kraus", observed=len(prs))
            for idx, (K, _) in enumerate(prs):
                if not _close(K, np.sqrt(tb["probs"][idx]) * R.pauli_string(idx, par["q"])):
                    return viol(f"pauli_channel: Kraus operator {idx} is not sqrt(p_{idx}) times the {idx}-th Pauli string (lexicographic I,X,Y,Z)",
                                site="pauli_channel:ctor_kraus", observed=np.asarray(K), expected=np.sqrt(tb["probs"][idx]) * R.pauli_string(idx, par["q"]))
            for name, X in xs:
                if not _close(R.apply_pairs(prs, X), R.textbook(ctor, tb, X)):
                    return viol(f"pauli_channel: returned Kraus operators map {name} off sum_i p_i P_i X P_i^+", site="pauli_channel:ctor_kraus")
            return ok(nontriv, calls=calls)
        if form == "ctor_apply":
            for name, X in xs:
                for with_kraus in (False, True):
                    res, exc = ctor_call(ctor, par, X=X, kraus=with_kraus)
                    calls += 1
                    if exc is not None:
                        return viol(f"pauli_channel(input_mat={name}) raised: " + exc_text(exc), site="pauli_channel:ctor_apply:exception")
                    if not (isinstance(res, tuple) and len(res) == (3 if with_kraus else 2)):
                        return viol("pauli_channel(input_mat=...) did not return (Phi, output[, kraus])", site="pauli_channel:ctor_apply")
                    exp = R.textbook(ctor, tb, X)
                    if not _close(res[1], exp):
                        return viol(f"pauli_channel: output for input {name} differs from sum_i p_i P_i X P_i^+ by {_err(res[1], exp):.3g}",
                                    site="pauli_channel:ctor_apply", observed=np.asarray(res[1]), expected=exp)
                    if not _close(np.asarray(res[0]), J_ref):
                        return viol("pauli_channel: Choi matrix changes when input_mat is given", site="pauli_channel:ctor_apply")
            return ok(nontriv, calls=calls)
        raise KeyError(form)

    # constructors that return Kraus operators / apply directly
    ks, exc = ctor_call(ctor, par, X=None)
    calls += 1
    if exc is not None:
        return viol(f"{ctor}{par} raised on an admissible parameter point: " + exc_text(exc), site=f"{ctor}:exception")
    if form == "kraus":
        prs = _kraus_pairs(ks)
        for name, X in xs:
            exp = R.textbook(ctor, tb, X)
            got = R.apply_pairs(prs, X)
            if not _close(got, exp):
                return viol(f"{ctor}: returned Kraus operators map {name} off the textbook formula by {_err(got, exp):.3g}",
                            site=f"{ctor}:kraus", observed=got, expected=exp)
        return ok(nontriv, calls=calls)
    if form == "choi":
        J, exc = call(kraus_to_choi, ks)
        calls += 1
        if exc is not None:
            return viol(f"kraus_to_choi({ctor}(None, ...)) raised: " + exc_text(exc), site=f"{ctor}:choi:exception")
        if not _close(np.asarray(J), J_ref):
            return viol(f"{ctor}: Choi matrix of the returned Kraus operators differs from the textbook Choi matrix by {_err(J, J_ref):.3g}",
                        site=f"{ctor}:choi", observed=np.asarray(J), expected=J_ref)
        return ok(nontriv, calls=calls)
    if form == "apply":
        extra = [("int_E01", np.array([[0, 1], [0, 0]])), ("int_diag", np.array([[2, 0], [0, 5]]))]
        for name, X in xs + extra:
            X0 = np.array(X)
            Y, exc = ctor_call(ctor, par, X=X)
            calls += 1
            if exc is not None:
                return viol(f"{ctor}(input {name}) raised: " + exc_text(exc), site=f"{ctor}:apply:exception")
            exp = R.textbook(ctor, tb, X0)
            if not _close(Y, exp):
                return viol(f"{ctor}: direct application to {name} differs from the textbook formula by {_err(Y, exp):.3g}",
                            site=f"{ctor}:apply", observed=np.asarray(Y), expected=exp)
            if not np.array_equal(np.asarray(X), X0):
                return viol(f"{ctor}: the caller's input matrix was modified", site=f"{ctor}:apply:aliasing")
        return ok(nontriv, calls=calls)
    raise KeyError(form)


# ------------------------------------------------------------------------------------------------ built-ins: textbook properties through the predicates
def flags_cases(tier, seed):
    for ctor, par in builtin_points(tier):
        if "npseed" in par:
            continue
        for pred in PREDICATES:
            yield {"ctor": ctor, "par": par, "pred": pred}


def flags_check(case):
    import toqito.channel_props as cp_mod

    ctor, par, pred = case["ctor"], case["par"], case["pred"]
    d, tb = resolve(ctor, par)
    J_ref = R.textbook_choi(ctor, tb, d)
    m = R.from_choi(J_ref, d, d)
    t = R.truth(m)
    # closed-form flags of the textbook map must agree with the arithmetic (harness self-consistency)
    fcp, ftp, fun = R.textbook_flags(ctor, tb, d)
    for key, flag in (("cp", fcp), ("tp", ftp), ("unital", fun)):
        assert flag is None or t[key] is None or t[key] == flag, (ctor, par, key, flag, t[key], t["dev"])
    if ctor == "choi":
        assert np.allclose(np.linalg.eigvalsh(J_ref), R.choi_map_spectrum(tb["a"], tb["b"], tb["c"]), atol=1e-9)
    if pred == "is_extremal" and t["qc"] is not True:
        return ok(False, note="not a channel at this parameter point: is_extremal not asked")
    obj, exc = ctor_call(ctor, par)
    if exc is not None:
        return viol(f"{ctor}{par} raised on an admissible parameter point: " + exc_text(exc), site=f"{ctor}:exception")
    site = f"{ctor}:{pred}"
    dependent = False
    if isinstance(obj, list):
        dependent = R.list_dependence([np.asarray(k, dtype=complex) for k in obj])
        if dependent is None and pred in ("is_unitary", "is_extremal"):
            return indet("linear dependence of the returned Kraus list is inside the band")
        if dependent:
            site = f"{pred}:dependent_list"
    expected = t[TRUTH_KEY[pred]]
    if pred == "is_positive":
        expected = {"cp": True, "nonpos": False, "either": None}[expected]
    val, exc = call(getattr(cp_mod, pred), obj)
    if exc is not None:
        return viol(f"{pred}({ctor}(...)) raised on the constructor's own output ({type(obj).__name__}): " + exc_text(exc),
                    site=f"{ctor}:{pred}:exception", observed="exception", expected=R_json(expected))
    if expected is None:
        if pred == "is_positive":
            return ok(False, obs=bool(val), note="not CP and no non-positivity witness: either answer accepted")
        return indet(f"{pred}: textbook map on the decision boundary at this parameter point")
    got = int(val) if pred == "choi_rank" else bool(val)
    if got != expected:
        return viol(f"{pred}({ctor}{par}) = {got}, the textbook map gives {expected}; margins {fmt_dev(t['dev'])}",
                    site=site, observed=got, expected=expected)
    return ok(action_nontrivial(ctor, tb, d), obs=got)


# ------------------------------------------------------------------------------------------------ built-ins: documented ranges
BAD = ([-1, 10], [11, 10], [-1, 1000], [1001, 1000])


def reject_cases(tier, seed):
    for bad in BAD:
        for inp in ("none", "E00"):
            yield {"ctor": "bitflip", "par": {"prob": bad}, "input": inp}
            yield {"ctor": "phase_damping", "par": {"gamma": bad}, "input": inp}
            for other in (None, [1, 2]):
                yield {"ctor": "amplitude_damping", "par": {"gamma": bad, "prob": other}, "input": inp}
                yield {"ctor": "amplitude_damping", "par": {"gamma": other, "prob": bad}, "input": inp}
    # Pauli probability vectors: negative entry with unit sum, sum off by 1%, wrong length
    vecs = [("negative", [51, 50, -1, 0], 100), ("negative", [-1, 1, 1, 3], 4), ("sum_low", [25, 25, 25, 24], 100), ("sum_high", [25, 25, 25, 26], 100),
            ("sum_high", [1, 1, 1, 1], 1), ("negative", [17] * 15 + [-155 + 0], 100)]
    for why, w, den in vecs:
        for as_ in ("ndarray", "list"):
            yield {"ctor": "pauli_channel", "par": {"w": w, "den": den, "as": as_}, "why": why}
    for n in (2, 3, 5, 8, 15, 17):
        for as_ in ("ndarray", "list"):
            yield {"ctor": "pauli_channel", "par": {"w": [1] * n, "den": n, "as": as_}, "why": "length"}


def reject_check(case):
    import toqito.channels as ch

    ctor, par = case["ctor"], case["par"]
    if ctor == "pauli_channel":
        prob = np.array([Fraction(int(a), int(par["den"])) for a in par["w"]], dtype=float)
        if par["as"] == "list":
            prob = prob.tolist()
        val, exc = call(ch.pauli_channel, prob)
        what = f"pauli_channel(prob of length {len(par['w'])}, {case['why']})"
    else:
        X = None if case["input"] == "none" else np.array([[1.0, 0.0], [0.0, 0.0]])
        kw = {k: R.frac(v) for k, v in par.items() if v is not None}
        val, exc = call(getattr(ch, ctor), X, **kw)
        what = f"{ctor}({kw}, input={case['input']})"
    if exc is None:
        return viol(f"{what} returned a value although the parameter is outside the documented range", site=f"{ctor}:range",
                    observed=repr(val)[:120], expected="ValueError")
    if not isinstance(exc, ValueError):
        return viol(f"{what} failed with an internal error instead of rejecting the value: " + exc_text(exc), site=f"{ctor}:range:internal",
                    observed=type(exc).__name__, expected="ValueError")
    return ok(True, obs=type(exc).__name__)


# ------------------------------------------------------------------------------------------------ caller-supplied tolerances
# Added after seeded change C06-4 (is_quantum_channel stopped forwarding rtol/atol to its trace-preservation test): every
# predicate with (rtol, atol) parameters is called with TIGHT tolerances (1e-9) on maps that violate the definition by 2e-6
# - far above the requested tolerance, inside the default one - and on the exact maps as a control.
TOL_DELTA = 2e-6


def _tol_base_maps(d):
    from mc import catalog

    U = catalog.unitary(d, "g0")
    V = catalog.generic_unitary(2 * d, 0)[:, :d]
    return {"unitary": [U], "stinespring": [V[:d, :], V[d:, :]],
            "mixed_unitary": [np.sqrt(0.25) * catalog.unitary(d, "F"), np.sqrt(0.75) * catalog.unitary(d, "g1")]}


def _choi(ks, d):
    J = np.zeros((d * d, d * d), dtype=complex)
    for i in range(d):
        for j in range(d):
            E = np.zeros((d, d), dtype=complex)
            E[i, j] = 1
            J += np.kron(E, sum(K @ E @ K.conj().T for K in ks))
    return J


def tolerance_cases(tier, seed):
    for d in (2, 3):
        for base in ("unitary", "stinespring", "mixed_unitary"):
            for defect in ("none", "scale", "negeig", "nonherm"):
                for rep in ("flat", "pairs", "choi"):
                    if defect in ("negeig", "nonherm") and rep != "choi":
                        continue
                    for pred in ("is_trace_preserving", "is_unital", "is_completely_positive", "is_herm_preserving", "is_quantum_channel"):
                        yield {"d": d, "base": base, "defect": defect, "rep": rep, "pred": pred}


def tolerance_check(case):
    import toqito.channel_props as cp_mod

    d, pred = case["d"], case["pred"]
    ks = _tol_base_maps(d)[case["base"]]
    defect = case["defect"]
    if defect == "scale":
        ks = [np.sqrt(1 + TOL_DELTA) * K for K in ks]
    J = _choi(ks, d)
    if defect == "negeig":
        w, v = np.linalg.eigh((J + J.conj().T) / 2)
        if w[0] > 1e-12:
            return indet("Choi matrix has full rank: no kernel direction for an exact -delta eigenvalue")
        J = J - TOL_DELTA * np.outer(v[:, 0], v[:, 0].conj())
    if defect == "nonherm":
        J = J.copy()
        J[0, 1] += TOL_DELTA
    # ground truth from plain arithmetic
    tp_dev = np.abs(np.einsum("iaja->ij", J.reshape(d, d, d, d)) - np.eye(d)).max()
    un_dev = np.abs(np.einsum("iaib->ab", J.reshape(d, d, d, d)) - np.eye(d)).max()
    herm_dev = np.abs(J - J.conj().T).max()
    lmin = np.linalg.eigvalsh((J + J.conj().T) / 2).min()
    truth = {"is_trace_preserving": tp_dev, "is_unital": un_dev, "is_herm_preserving": herm_dev}
    if pred == "is_completely_positive":
        bad = max(herm_dev, -lmin)
    elif pred == "is_quantum_channel":
        bad = max(herm_dev, -lmin, tp_dev)
    else:
        bad = truth[pred]
    if 1e-11 < bad < 1e-6:
        return indet("deviation inside the band between the exact and the perturbed case")
    expected = bad <= 1e-11
    obj = {"flat": list(ks), "pairs": [[K, K] for K in ks], "choi": J}[case["rep"]]
    fn = getattr(cp_mod, pred)
    got, exc = call(fn, obj, rtol=1e-9, atol=1e-9)
    if exc is not None:
        return viol(f"{pred}(rtol=1e-9, atol=1e-9) raised on the {case['rep']} form: " + exc_text(exc), site=f"{pred}:tolerance:exception")
    if bool(got) != expected:
        return viol(f"{pred}(rtol=1e-9, atol=1e-9) = {got} on a map that deviates from the definition by {bad:.2e} ({defect}, {case['rep']} form): "
                    f"the caller's tolerance is not applied", site=f"{pred}:tolerance", observed=bool(got), expected=expected)
    return ok(defect != "none", obs=bool(got))


CLAUSES = [
    Clause("C06.predicates", predicate_cases, predicate_check, tol="exact (booleans / integers on margin cases: <=1e-10 or >=1e-3)",
           doc="ground-truth catalogue x representation x predicate: verdict = definition", alphabets=predicate_alphabets, weight=0.002),
    Clause("C06.builtin_action", action_cases, action_check, tol="alg(1e-9)",
           doc="built-in constructors: Choi = textbook Choi, applied output = closed formula on E_ij, iE_ij, generic; Kraus <=> Choi <=> applied", weight=0.01),
    Clause("C06.builtin_flags", flags_cases, flags_check, tol="exact (booleans / integers on margin cases)",
           doc="every predicate on the object a constructor returns = verdict of the textbook map (independent eigen / trace arithmetic)", weight=0.003),
    Clause("C06.builtin_reject", reject_cases, reject_check, tol="exact", doc="values just outside a documented parameter range raise ValueError"),
    Clause("C06.tolerances", tolerance_cases, tolerance_check, tol="rtol=atol=1e-9 vs deviation 2e-6",
           doc="caller-supplied tight tolerances reach every sub-test: maps violating the definition by 2e-6 are refused, exact maps accepted"),
]

# every toqito call of this property is repeated with column-major copies of its array arguments (engine.call, layout twin)
for _c in CLAUSES:
    _c.layout_twin = True
    _c.strided_twin = True  # and with strided read-only views (engine.call)
    _c.repeat_twin = True  # repeated calls agree; scribbling over a returned array must not affect later calls (engine.call)
