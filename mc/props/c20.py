"""C20 — channel distance measures equal their definitions and known closed forms.

Exhaustive over a finite catalogue of qubit (and a few qutrit / one dimension-5) maps: every map, every ordered pair, every
(pair, unitary) combination named below is executed on the real code.  Oracles: a certified primal/dual bracket for the
completely bounded trace norm (own SDP pair solved with cvxpy+CLARABEL, feasibility repaired and verified by plain numpy
arithmetic), closed forms (unitary pairs, replacer channels), and the relations listed in the property statement.
"""

from __future__ import annotations

import itertools

import numpy as np

from mc import catalog
from mc.engine import Clause, call, exc_text, indet, ok, viol

RULE = ("case = a map / an ordered pair of maps / (pair, unitary) from the finite channel catalogue (unitary channels from the "
        "unitary catalogue, mixtures, damping families, Stinespring CPTP maps from generic unitaries, CP non-TP maps, "
        "differences of channels, generic Hermiticity-preserving and non-Hermitian Choi matrices); all cases are executed; "
        "non-trivial iff the maps differ / the map is not a channel")
ASSUMPTIONS = ["numpy eigvalsh/svd correct; weak duality of the Watrous SDP pair (own primal and dual points are verified feasible arithmetically)",
               "picos+cvxopt tolerance 1e-4 relative; SCS tolerance 1e-3 for channel_fidelity",
               "only the solvers present in the image (cvxopt for picos)"]
IPM = 1e-4
SCS = 2e-3


# ------------------------------------------------------------------------------------------------ reference constructions
def E(d, i, j):
    m = np.zeros((d, d), dtype=complex)
    m[i, j] = 1
    return m


def choi_of(pairs, d_in):
    """J = sum_ij E_ij (x) Phi(E_ij), Phi(X) = sum_k A_k X B_k^dagger  (toqito's convention: input factor first)."""
    d_out = pairs[0][0].shape[0]
    J = np.zeros((d_in * d_out, d_in * d_out), dtype=complex)
    for i in range(d_in):
        for j in range(d_in):
            out = sum(A @ E(d_in, i, j) @ B.conj().T for A, B in pairs)
            J += np.kron(E(d_in, i, j), out)
    return J


def kraus_catalogue(d):
    """name -> list of Kraus operators of a CPTP map on dimension d."""
    out = {}
    for name, U in catalog.unitaries(d).items():
        out["U:" + name] = [U]
    out["U:sph"] = [np.diag([np.exp(1j * np.pi * k / (4 * max(d - 1, 1))) for k in range(d)])]  # spectrum inside an arc of pi/4
    if d >= 3:
        # non-diagonal unitary with a complex, non-symmetric matrix and spectrum inside an arc: F diag(e^{1.4i}, 1, ..., e^{-1.4i}) F^dagger.
        # Added after seeded change C20-15 (entrywise real part where the Hermitian part is meant: invisible on diagonal or real unitaries).
        Fm = catalog.unitaries(d)["F"]
        ph = np.ones(d, dtype=complex)
        ph[0], ph[-1] = np.exp(1.4j), np.exp(-1.4j)
        out["U:Fph"] = [Fm @ np.diag(ph) @ Fm.conj().T]
    U = catalog.unitaries(d)
    out["mix:I,X"] = [np.sqrt(0.5) * U["I"], np.sqrt(0.5) * U["X"]]
    out["mix:F,g0"] = [np.sqrt(0.25) * U["F"], np.sqrt(0.75) * U["g0"]]
    for p in (0.25, 0.8):
        ks = [np.sqrt(1 - p) * np.eye(d, dtype=complex)]
        ks += [np.sqrt(p / d) * E(d, i, j) for i in range(d) for j in range(d)]
        out[f"depol:{p}"] = ks  # (1-p) X + p Tr(X) I/d
    for g in (0.3, 0.7):
        K0 = np.eye(d, dtype=complex)
        K0[1, 1] = np.sqrt(1 - g)
        K1 = np.zeros((d, d), dtype=complex)
        K1[0, 1] = np.sqrt(g)
        out[f"ad:{g}"] = [K0, K1]
    for k in range(catalog.G):
        V = catalog.generic_unitary(d * 2, k)[:, :d]  # isometry C^d -> C^{2d}
        out[f"stine:g{k}"] = [V[:d, :], V[d:, :]]
    # replacer channels X -> Tr(X) sigma
    for nm in ("ket:g0", "gfull0"):
        sig = catalog.density(d, nm)
        w, v = np.linalg.eigh(sig)
        out["replace:" + nm] = [np.sqrt(max(w[a], 0)) * v[:, [a]] @ E(d, 0, i)[[0], :] for a in range(d) for i in range(d)]
    return out


def map_catalogue(d):
    """name -> Choi matrix (channels, CP non-TP, HP, non-Hermitian)."""
    out = {}
    kc = kraus_catalogue(d)
    for n, ks in kc.items():
        out["ch:" + n] = choi_of([(K, K) for K in ks], d)
    out["cp:half:F"] = 0.5 * out["ch:U:F"]
    out["cp:2x:ad"] = 2.0 * out["ch:ad:0.3"]
    A = catalog.generic_matrix(d, d, 0)
    out["cp:AXA"] = choi_of([(A, A)], d)
    B = catalog.generic_matrix(d, d, 1)
    out["cp:AXA+BXB"] = choi_of([(A, A), (B, B)], d)
    out["hp:diff:F-I"] = out["ch:U:F"] - out["ch:U:I"]
    out["hp:diff:ad-depol"] = out["ch:ad:0.3"] - out["ch:depol:0.25"]
    out["hp:diff:stine"] = out["ch:stine:g0"] - out["ch:stine:g1"]
    out["hp:AXB+BXA"] = choi_of([(A, B), (B, A)], d)
    out["hp:transpose"] = sum(np.kron(E(d, i, j), E(d, j, i)) for i in range(d) for j in range(d))
    H = catalog.generic_density(d * d, 0) - np.eye(d * d) / (d * d) * 0.9
    out["hp:generic"] = (H + H.conj().T) / 2
    out["nonherm:AXB"] = choi_of([(A, B)], d)
    out["nonherm:generic"] = catalog.generic_matrix(d * d, d * d, 2)
    return out


def ptrace_out(J, d_in, d_out):
    return np.einsum("iaja->ij", J.reshape(d_in, d_out, d_in, d_out))


def trace_norm(M):
    return float(np.linalg.svd(M, compute_uv=False).sum())


def op_norm(M):
    return float(np.linalg.svd(M, compute_uv=False)[0])


def is_psd(J, margin):
    return np.abs(J - J.conj().T).max() < 1e-12 and np.linalg.eigvalsh((J + J.conj().T) / 2).min() > -margin


def classify(J, d):
    """'channel' | 'cp' | 'other' by construction-independent arithmetic with margins; None if inside a margin."""
    herm = np.abs(J - J.conj().T).max()
    if herm < 1e-10:
        w = np.linalg.eigvalsh((J + J.conj().T) / 2)
        if w.min() > -1e-10:
            tp = np.abs(ptrace_out(J, d, d) - np.eye(d)).max()
            if tp < 1e-9:
                return "channel"
            if tp > 1e-3:
                return "cp"
            return None
        if w.min() < -1e-3:
            return "other"
        return None
    if herm > 1e-3:
        return "other"
    return None


def cb_bracket(J, d):
    """Certified [L, U] with L <= ||Phi||_diamond <= U for the map with Choi matrix J (square, d_in = d_out = d)."""
    import cvxpy as cp

    n = d * d
    I = np.eye(d)
    # primal
    X = cp.Variable((n, n), complex=True)
    r0 = cp.Variable((d, d), hermitian=True)
    r1 = cp.Variable((d, d), hermitian=True)
    blk = cp.bmat([[cp.kron(r0, I), X], [X.H, cp.kron(r1, I)]])
    prob = cp.Problem(cp.Maximize(cp.real(cp.trace(J.conj().T @ X))),
                      [blk >> 0, r0 >> 0, r1 >> 0, cp.real(cp.trace(r0)) == 1, cp.real(cp.trace(r1)) == 1])
    prob.solve(solver=cp.CLARABEL)
    Xv = X.value

    def fix_rho(r):
        w, v = np.linalg.eigh((r + r.conj().T) / 2)
        w = np.clip(w, 0, None)
        rho = (v * w) @ v.conj().T
        rho = rho / np.trace(rho).real
        return (1 - 1e-9) * rho + 1e-9 * np.eye(d) / d
    A = np.kron(fix_rho(r0.value), I)
    B = np.kron(fix_rho(r1.value), I)

    def inv_sqrt(M):
        w, v = np.linalg.eigh(M)
        return (v / np.sqrt(w)) @ v.conj().T
    c = op_norm(inv_sqrt(A) @ Xv @ inv_sqrt(B))
    t = min(1.0, 1.0 / c) if c > 0 else 1.0
    L = t * float(np.trace(J.conj().T @ Xv).real)
    # verify primal feasibility arithmetically
    full = np.block([[A, t * Xv], [t * Xv.conj().T, B]])
    assert np.linalg.eigvalsh((full + full.conj().T) / 2).min() > -1e-7, "primal repair failed"
    # dual
    Y0 = cp.Variable((n, n), hermitian=True)
    Y1 = cp.Variable((n, n), hermitian=True)
    dblk = cp.bmat([[Y0, -J], [-J.conj().T, Y1]])
    t0 = cp.Variable()
    t1 = cp.Variable()
    dprob = cp.Problem(cp.Minimize((t0 + t1) / 2),
                       [dblk >> 0, t0 * I >> cp.partial_trace(Y0, (d, d), 1), t1 * I >> cp.partial_trace(Y1, (d, d), 1)])
    dprob.solve(solver=cp.CLARABEL)
    y0, y1 = Y0.value, Y1.value
    full = np.block([[y0, -J], [-J.conj().T, y1]])
    s = max(0.0, -np.linalg.eigvalsh((full + full.conj().T) / 2).min()) + 1e-12
    y0 = y0 + s * np.eye(n)
    y1 = y1 + s * np.eye(n)
    U = 0.5 * (np.linalg.eigvalsh(ptrace_out(y0, d, d)).max() + np.linalg.eigvalsh(ptrace_out(y1, d, d)).max())
    return L, float(U)


def hull_distance(eigs):
    """Distance from 0 to the convex hull of points on the unit circle."""
    ang = np.sort(np.mod(np.angle(eigs), 2 * np.pi))
    gaps = np.diff(np.concatenate([ang, [ang[0] + 2 * np.pi]]))
    g = gaps.max()
    if g <= np.pi:
        return 0.0
    return float(np.cos((2 * np.pi - g) / 2))


def root_fidelity(r, s):
    w, v = np.linalg.eigh((r + r.conj().T) / 2)
    sq = (v * np.sqrt(np.clip(w, 0, None))) @ v.conj().T
    m = sq @ s @ sq
    return float(np.sqrt(np.clip(np.linalg.eigvalsh((m + m.conj().T) / 2), 0, None)).sum())


def apply_choi(J, X, d_in, d_out):
    """Phi(X) from J = sum E_ij (x) Phi(E_ij)."""
    T = J.reshape(d_in, d_out, d_in, d_out)
    return np.einsum("iajb,ij->ab", T, X)


# ------------------------------------------------------------------------------------------------ clause: cb norm bracket
def dims_for(tier):
    return (2,) if tier == "quick" else (2, 3)


def cb_cases(tier, seed):
    for d in dims_for(tier):
        names = list(map_catalogue(d))
        if d == 3:
            names = [n for n in names if not n.startswith("ch:U:") or n in ("ch:U:F", "ch:U:g0")]
        for n in names:
            yield {"d": d, "map": n}


def cb_check(case):
    from toqito.channel_metrics import completely_bounded_trace_norm

    d = case["d"]
    J = map_catalogue(d)[case["map"]]
    kind = classify(J, d)
    if kind is None:
        return indet("map inside a classification margin")
    got, exc = call(completely_bounded_trace_norm, J)
    if exc is not None:
        return viol("completely_bounded_trace_norm raised: " + exc_text(exc), site="completely_bounded_trace_norm:exception")
    got = float(np.real(got))
    if kind == "channel":
        if abs(got - 1) > IPM:
            return viol("cb trace norm of a channel is not 1", site="completely_bounded_trace_norm:channel", observed=got, expected=1.0)
        return ok(False, obs=round(got, 6))
    L, U = cb_bracket(J, d)
    scale = max(1.0, U)
    if kind == "cp":
        exact = op_norm(ptrace_out(J, d, d))  # ||Phi*(I)||_inf ; Phi*(I) = (Tr_out J)^T
        if not (L - 1e-6 * scale <= exact <= U + 1e-6 * scale):
            return viol("harness inconsistency: ||Phi*(I)|| outside own bracket", site="harness", observed=[L, exact, U])
        if abs(got - exact) > IPM * scale:
            return viol("cb trace norm of a completely positive map differs from the operator norm of Phi*(I)",
                        site="completely_bounded_trace_norm:cp_shortcut", observed=got, expected=exact)
        return ok(True, obs=round(got, 6))
    if got < L - IPM * scale or got > U + IPM * scale:
        return viol("cb trace norm outside the certified primal/dual bracket", site="completely_bounded_trace_norm:sdp",
                    observed=got, expected=[L, U])
    return ok(True, obs=round(got, 5), bracket_width=U - L)


# ------------------------------------------------------------------------------------------------ clause: homogeneity, spectral norm
SCALARS = {"-1": -1.0, "2": 2.0, "0.5": 0.5, "i": 1j, "e^.4i": np.exp(0.4j), "1.5e^-.3i": 1.5 * np.exp(-0.3j)}


def props_cases(tier, seed):
    for d in dims_for(tier):
        names = [n for n in map_catalogue(d) if not n.startswith("ch:U:") or n in ("ch:U:F", "ch:U:g0", "ch:U:XZ")]
        if d == 3:
            names = [n for n in names if n.split(":")[0] in ("cp", "hp", "nonherm")][:6]
        for n in names:
            for c in ("-1", "2", "0.5", "i"):
                yield {"d": d, "map": n, "what": "homog", "c": c}
            # complex scalars of moderate phase (added after seeded change C20-7: a positivity test that read only the lower
            # triangle and the real part of the diagonal took c*J(Phi) for a completely positive map)
            for c in ("e^.4i", "1.5e^-.3i"):
                yield {"d": d, "map": n, "what": "homog", "c": c}
            yield {"d": d, "map": n, "what": "spectral"}


def dual_choi(J, d):
    """Choi matrix of the Hilbert-Schmidt adjoint map (independent of toqito): J* = SWAP conj(J) SWAP."""
    T = J.reshape(d, d, d, d)  # [i, a, j, b]
    return np.conj(np.einsum("iajb->aibj", T)).reshape(d * d, d * d)


def props_check(case):
    from toqito.channel_metrics import completely_bounded_spectral_norm, completely_bounded_trace_norm

    d = case["d"]
    J = map_catalogue(d)[case["map"]]
    if case["what"] == "homog":
        c = SCALARS[case["c"]]
        k0, k1 = classify(J, d), classify(c * J, d)
        if k0 is None or k1 is None:
            return indet("inside a classification margin")
        a, e1 = call(completely_bounded_trace_norm, J)
        b, e2 = call(completely_bounded_trace_norm, c * J)
        if e1 is not None or e2 is not None:
            return viol("completely_bounded_trace_norm raised: " + exc_text(e1 or e2), site="completely_bounded_trace_norm:exception")
        a, b = float(np.real(a)), float(np.real(b))
        if abs(b - abs(c) * a) > IPM * max(1.0, abs(c) * a) * 2:
            site = "completely_bounded_trace_norm:homogeneity"
            if "cp" in (k0, k1):
                site = "completely_bounded_trace_norm:homogeneity_cp"
            return viol(f"||cPhi|| != |c| ||Phi|| for c={case['c']}", site=site, observed=[a, b], expected=abs(c) * a,
                        kinds=[k0, k1])
        return ok(True, obs=[round(a, 5), round(b, 5)])
    # cb spectral norm = cb trace norm of the dual map; = ||Phi(I)||_inf on CP maps
    Jd = dual_choi(J, d)
    kd = classify(Jd, d)
    k0 = classify(J, d)
    if kd is None or k0 is None:
        return indet("inside a classification margin")
    s, e1 = call(completely_bounded_spectral_norm, J)
    if e1 is not None:
        return viol("completely_bounded_spectral_norm raised: " + exc_text(e1), site="completely_bounded_spectral_norm:exception")
    s = float(np.real(s))
    if k0 in ("channel", "cp"):
        exact = op_norm(apply_choi(J, np.eye(d), d, d))
        if abs(s - exact) > IPM * max(1.0, exact):
            return viol("cb spectral norm of a CP map differs from ||Phi(I)||_inf", site="completely_bounded_spectral_norm:cp",
                        observed=s, expected=exact)
        return ok(True, obs=round(s, 6))
    L, U = cb_bracket(Jd, d)
    if s < L - IPM * max(1, U) or s > U + IPM * max(1, U):
        return viol("cb spectral norm outside the certified bracket of the dual map's cb trace norm",
                    site="completely_bounded_spectral_norm:sdp", observed=s, expected=[L, U])
    return ok(True, obs=round(s, 5))


# ------------------------------------------------------------------------------------------------ clause: diamond distance
def diamond_channel_names(d, tier):
    kc = list(kraus_catalogue(d))
    if d == 3:
        return ["U:I", "U:F", "U:Z", "U:g0", "depol:0.25", "ad:0.3", "stine:g0"]
    if tier == "quick":
        return ["U:I", "U:F", "U:T", "U:XZ", "U:g0", "U:g1", "mix:F,g0", "depol:0.25", "ad:0.3", "stine:g0", "stine:g1", "replace:gfull0"]
    return kc


def diamond_cases(tier, seed):
    if 3 not in dims_for(tier):
        # qutrit unitary pairs in the quick tier too: for d >= 3 the spectrum of U^dagger V need not lie in a half circle, and then the
        # distance is 2 rather than the longest chord (added after seeded change C20-14, a closed-form fast path that is right for qubits)
        for a, b in (("U:I", "U:Z"), ("U:F", "U:I"), ("U:g0", "U:Z"), ("U:Z", "U:F")):
            yield {"d": 3, "a": a, "b": b, "what": "pair"}
    for d in dims_for(tier):
        names = diamond_channel_names(d, tier)
        for a, b in itertools.product(names, repeat=2):
            yield {"d": d, "a": a, "b": b, "what": "pair"}
        if d == 2:
            for a, b in MAP_PAIRS_Q:
                yield {"d": d, "a": a, "b": b, "what": "maps"}
        inv_pairs = [("U:F", "ad:0.3"), ("stine:g0", "depol:0.25"), ("U:g0", "U:Z"), ("mix:F,g0", "stine:g1")]
        if d == 3:
            inv_pairs = inv_pairs[:2]
        for a, b in inv_pairs:
            for w in (catalog.unitaries(d) if tier == "thorough" else ("F", "T", "XZ", "g0", "g1")):
                for side in ("pre", "post"):
                    yield {"d": d, "a": a, "b": b, "what": "invariance", "w": w, "side": side}


# pairs of linear maps that are not channels (the property quantifies over them; added after seeded change C20-8, which clipped the
# distance to the range [0, 2] that only pairs of channels obey): scaled unitary channels and differences of channels
MAP_PAIRS_Q = [("3*U:I", "3*U:F"), ("1.5*U:F", "1.5*U:g0"), ("3*U:g0", "3*U:XZ"), ("U:I-U:XZ", "U:F-U:I"), ("U:I-depol:0.25", "ad:0.3-U:F"),
               ("2*U:I", "U:I"), ("stine:g0-U:I", "U:g1-stine:g1")]


def _map_named(d, name):
    """'a*X' = a times the Choi matrix of channel X, 'X-Y' = difference of two channels."""
    if "*" in name:
        a, n = name.split("*")
        return float(a) * _choi_named(d, n)
    if "-" in name:
        x, y = name.split("-")
        return _choi_named(d, x) - _choi_named(d, y)
    return _choi_named(d, name)


def _choi_named(d, name):
    return choi_of([(K, K) for K in kraus_catalogue(d)[name]], d)


def diamond_check(case):
    from toqito.channel_metrics import diamond_distance

    d = case["d"]
    if case["what"] == "maps":
        M1, M2 = _map_named(d, case["a"]), _map_named(d, case["b"])
        D, exc = call(diamond_distance, M1, M2)
        Dr, exc2 = call(diamond_distance, M2, M1)
        if exc is not None or exc2 is not None:
            return viol("diamond_distance raised on a pair of linear maps: " + exc_text(exc or exc2), site="diamond_distance:exception")
        D, Dr = float(np.real(D)), float(np.real(Dr))
        tn = trace_norm(M1 - M2)
        L, U = cb_bracket(M1 - M2, d)
        slack = 2 * IPM * max(1.0, U)
        if D < L - slack or D > U + slack or D < tn / d - slack or D > tn + slack:
            return viol("diamond distance of two linear maps outside the certified bracket of ||M1 - M2||_cb / the Choi trace-norm bounds",
                        site="diamond_distance:maps", observed=D, expected=[max(L, tn / d), min(U, tn)])
        if abs(D - Dr) > slack:
            return viol("diamond distance of two linear maps is not symmetric", site="diamond_distance:symmetry", observed=[D, Dr])
        return ok(True, obs=round(D, 5))
    ka, kb = kraus_catalogue(d)[case["a"]], kraus_catalogue(d)[case["b"]]
    J1, J2 = choi_of([(K, K) for K in ka], d), choi_of([(K, K) for K in kb], d)
    D, exc = call(diamond_distance, J1, J2)
    if exc is not None:
        return viol("diamond_distance raised: " + exc_text(exc), site="diamond_distance:exception")
    D = float(np.real(D))
    if case["what"] == "invariance":
        W = catalog.unitary(d, case["w"])
        if case["side"] == "pre":
            ka2, kb2 = [K @ W for K in ka], [K @ W for K in kb]
        else:
            ka2, kb2 = [W @ K for K in ka], [W @ K for K in kb]
        D2, exc = call(diamond_distance, choi_of([(K, K) for K in ka2], d), choi_of([(K, K) for K in kb2], d))
        if exc is not None:
            return viol("diamond_distance raised: " + exc_text(exc), site="diamond_distance:exception")
        if abs(float(np.real(D2)) - D) > 2 * IPM * 2:
            return viol(f"diamond distance changed under common unitary {case['side']}-composition", site="diamond_distance:invariance",
                        observed=[D, float(np.real(D2))])
        return ok(True, obs=round(D, 5))
    same = case["a"] == case["b"]
    if same:
        if abs(D) > IPM:
            return viol("diamond distance of equal channels is not 0", site="diamond_distance:equal", observed=D, expected=0.0)
        return ok(False, obs=round(D, 6))
    tn = trace_norm(J1 - J2)
    if D > 2 + IPM * 2 or D < tn / d - IPM * 2 or D > tn + IPM * 2:
        return viol("diamond distance outside [||J1-J2||_1/d, min(2, ||J1-J2||_1)]", site="diamond_distance:bounds",
                    observed=D, expected=[tn / d, min(2.0, tn)])
    Dr, exc = call(diamond_distance, J2, J1)
    if exc is not None:
        return viol("diamond_distance raised: " + exc_text(exc), site="diamond_distance:exception")
    if abs(float(np.real(Dr)) - D) > 2 * IPM * 2:
        return viol("diamond distance is not symmetric", site="diamond_distance:symmetry", observed=[D, float(np.real(Dr))])
    if case["a"].startswith("U:") and case["b"].startswith("U:"):
        delta = hull_distance(np.linalg.eigvals(ka[0].conj().T @ kb[0]))
        exact = 2 * np.sqrt(max(0.0, 1 - delta**2))
        if abs(D - exact) > 2 * IPM * 2:
            return viol("diamond distance of two unitary channels != 2 sqrt(1 - delta^2)", site="diamond_distance:unitary_pair",
                        observed=D, expected=float(exact))
    else:
        L, U = cb_bracket(J1 - J2, d)
        if D < L - 2 * IPM or D > U + 2 * IPM:
            return viol("diamond distance outside the certified bracket", site="diamond_distance:bracket", observed=D, expected=[L, U])
    return ok(True, obs=round(D, 5))


# ------------------------------------------------------------------------------------------------ clause: channel fidelity
def cf_cases(tier, seed):
    base = ["U:I", "U:F", "U:T", "U:g0", "depol:0.25", "ad:0.3", "stine:g0", "replace:ket:g0", "replace:gfull0", "mix:I,X"]
    if tier == "quick":
        pairs = [("U:I", "U:I"), ("U:I", "U:T"), ("U:F", "U:g0"), ("U:g0", "U:F"), ("U:I", "U:F"), ("depol:0.25", "ad:0.3"),
                 ("ad:0.3", "depol:0.25"), ("replace:ket:g0", "replace:gfull0"), ("replace:gfull0", "replace:ket:g0"),
                 ("stine:g0", "mix:I,X"), ("mix:I,X", "stine:g0"), ("stine:g0", "stine:g0"), ("U:T", "depol:0.25"), ("ad:0.3", "U:I"),
                 ("U:g0", "replace:gfull0"), ("depol:0.25", "depol:0.25")]
    else:
        pairs = list(itertools.product(base, repeat=2))
    for a, b in pairs:
        yield {"d": 2, "a": a, "b": b}
    d3 = [("U:I", "U:sph"), ("depol:0.25", "ad:0.3"), ("U:I", "U:Fph")]
    if tier == "thorough":  # near-zero fidelities make SCS slow (~30 s): thorough only
        d3 += [("U:I", "U:F"), ("U:Z", "U:g0"), ("stine:g0", "stine:g0"), ("stine:g0", "stine:g1"), ("replace:ket:g0", "replace:gfull0")]
    for a, b in d3:
        yield {"d": 3, "a": a, "b": b}
    for a, b in ([("U:I", "U:sph")] if tier == "quick" else [("U:I", "U:sph"), ("U:X", "U:Z"), ("U:g0", "ad:0.3")]):
        yield {"d": 4, "a": a, "b": b}
    yield {"d": 5, "a": "U:I", "b": "U:sph"}
    if tier == "thorough":
        yield {"d": 5, "a": "depol:0.25", "b": "U:sph"}


def cf_check(case):
    from toqito.channel_metrics import channel_fidelity

    d = case["d"]
    kc = kraus_catalogue(d)
    ka, kb = kc[case["a"]], kc[case["b"]]
    J1, J2 = choi_of([(K, K) for K in ka], d), choi_of([(K, K) for K in kb], d)
    # natural dtypes: a Choi matrix without imaginary parts is passed as a real array, as a caller would build it (added after seeded
    # change C20-12, which decided from the FIRST argument alone whether the SDP variable may be complex)
    J1, J2 = (np.ascontiguousarray(J.real) if np.abs(J.imag).max() == 0 else J for J in (J1, J2))
    F, exc = call(channel_fidelity, J1, J2)
    if exc is not None:
        return viol(f"channel_fidelity raised for local dimension {d}: " + exc_text(exc), site=f"channel_fidelity:exception:d{d}")
    if F is None or not np.isfinite(F):
        return indet("solver returned no value")
    F = float(F)
    tol = SCS if d <= 3 else 2.5 * SCS  # SCS noise grows with the block size (observed 2.5e-3 at d=5 near F=0)
    if case["a"] == case["b"]:
        if abs(F - 1) > SCS:
            return viol("channel fidelity of equal channels is not 1", site="channel_fidelity:equal", observed=F, expected=1.0)
        return ok(False, obs=round(F, 4))
    up = root_fidelity(J1 / d, J2 / d)
    best_in = up
    # any input state gives an upper bound: entangled catalogue inputs on d x d
    for name, v in list(catalog.kets(d).items()):
        rho = catalog.proj(v)
        best_in = min(best_in, root_fidelity(apply_choi(J1, rho, d, d), apply_choi(J2, rho, d, d)))
    if F > best_in + tol:
        return viol("channel fidelity exceeds the output fidelity of an explicit input state", site="channel_fidelity:upper",
                    observed=F, expected=best_in)
    if d <= 3:
        Fr, exc = call(channel_fidelity, J2, J1)
        if exc is not None:
            return viol("channel_fidelity raised: " + exc_text(exc), site="channel_fidelity:exception")
        if abs(float(Fr) - F) > SCS:
            return viol("channel fidelity is not symmetric", site="channel_fidelity:symmetry", observed=[F, float(Fr)])
    if case["a"].startswith("U:") and case["b"].startswith("U:"):
        delta = hull_distance(np.linalg.eigvals(ka[0].conj().T @ kb[0]))
        if abs(F - delta) > tol:
            return viol("channel fidelity of two unitary channels != distance from 0 to hull(spec(U^dagger V))",
                        site="channel_fidelity:unitary_pair", observed=F, expected=delta)
    if case["a"].startswith("replace:") and case["b"].startswith("replace:"):
        exact = root_fidelity(catalog.density(d, case["a"][8:]), catalog.density(d, case["b"][8:]))
        if abs(F - exact) > SCS:
            return viol("channel fidelity of two replacer channels != fidelity of the replaced states", site="channel_fidelity:replacer",
                        observed=F, expected=exact)
    return ok(True, obs=round(F, 3))


# ------------------------------------------------------------------------------------------------ clause: channel fidelity of separability
def fos_cases(tier, seed):
    names = ["e0", "+", "g0", "pi8ph"]
    triples = [("e0", "e1", "e0"), ("+", "e0", "-i"), ("g0", "g1", "pi8ph"), ("e1", "g0", "+"), ("pi8", "trine1", "g1"),
               ("+i", "+i", "+i"), ("g1", "e0", "g0"), ("trine2", "-", "e1")]
    for t in triples:
        yield {"what": "product", "kets": list(t), "k": 1}
    if tier == "thorough":
        for t in triples[:3]:
            yield {"what": "product", "kets": list(t), "k": 2}
    # unequal B and R dimensions with non-basis factors (added after seeded change C20-3: a stale dimension list is invisible
    # when dim_B == dim_R or the state is diagonal)
    for dims, kets in (([2, 2, 3], ["+", "g0", "g0"]), ([3, 2, 2], ["g0", "pi8ph", "+i"]), ([2, 2, 3], ["g1", "-i", "chirp"]),
                       ([3, 2, 2], ["ramp", "g0", "g1"])):
        yield {"what": "product", "kets": kets, "k": 1, "dims": dims}
        yield {"what": "product", "kets": kets, "k": 2, "dims": dims}
    yield {"what": "reject_mixed"}
    yield {"what": "reject_nondensity"}
    yield {"what": "reject_dims"}


def fos_check(case):
    from toqito.channel_metrics import fidelity_of_separability

    if case["what"] == "product":
        pdims = case.get("dims", [2, 2, 2])
        v = [catalog.ket(d_, k) for d_, k in zip(pdims, case["kets"])]
        psi = np.kron(np.kron(v[0], v[1]), v[2])
        rho = catalog.proj(psi)
        val, exc = call(fidelity_of_separability, rho, list(pdims), case["k"])
        if isinstance(exc, ArithmeticError) or type(exc).__name__ in ("SolutionFailure", "SolverError"):
            return indet("solver did not return a solution: " + exc_text(exc))  # DESIGN 4.3: CVXOPT numerical breakdown
        if exc is not None:
            return viol("channel fidelity_of_separability raised on a pure product state: " + exc_text(exc), site="channel_fos:exception")
        if abs(float(val) - 1) > 1e-3:
            return viol("channel fidelity of separability of a pure tripartite product state is not 1", site="channel_fos:value",
                        observed=float(val), expected=1.0)
        return ok(True, obs=round(float(val), 4))
    if case["what"] == "reject_mixed":
        rho = np.eye(8) / 8
    elif case["what"] == "reject_nondensity":
        rho = np.eye(8) / 4
    else:
        rho = catalog.proj(np.kron(catalog.ket(2, "e0"), catalog.ket(2, "+")))
    dims = [2, 2, 2] if case["what"] != "reject_dims" else [2, 2]
    val, exc = call(fidelity_of_separability, rho, dims)
    if exc is None:
        return viol(f"input that must be rejected ({case['what']}) returned {val}", site="channel_fos:" + case["what"])
    return ok(True)


# ------------------------------------------------------------------------------------------------ clause: call histories
# Added after seeded change C20-10 (keyword solver options of one call stayed in force for every later call of the process): breadth-first
# exploration of call histories over the SDP-backed functions; every later default call must return the value it returns from the initial
# state.  The loose-options event is last in the menu so that no baseline value is computed after it (see mc/history.py).
HIST_EVENTS = ["dd_unitary_pair", "dd_swapped", "cb_difference", "cb_spectral_hp", "loose_options"]


def history_cases(tier, seed):
    yield {"d": 2, "u": "F", "v": "g0", "depth": 2}
    yield {"d": 2 if tier == "quick" else 3, "u": "g1", "v": "XZ" if tier == "quick" else "F", "depth": 2 if tier == "quick" else 3}


def history_check(case):
    from mc.history import explore
    from toqito.channel_metrics import completely_bounded_spectral_norm, completely_bounded_trace_norm, diamond_distance

    d = case["d"]
    JU, JV = _choi_named(d, "U:" + case["u"]), _choi_named(d, "U:" + case["v"])
    JD = _choi_named(d, "depol:0.25") - _choi_named(d, "ad:0.3") if d == 2 else _choi_named(d, "depol:0.25") - JU
    JH = map_catalogue(d)["hp:diff:stine"] if "hp:diff:stine" in map_catalogue(d) else JD

    def apply(_, ev):
        if ev == "loose_options":
            v, exc = call(completely_bounded_trace_norm, (JU - JV).copy(), abs_ipm_opt_tol=1e-1, rel_ipm_opt_tol=1e-1,
                          abs_prim_fsb_tol=1e-2, rel_prim_fsb_tol=1e-2, abs_dual_fsb_tol=1e-2, rel_dual_fsb_tol=1e-2)
            return "done" if exc is None else "EXC:" + type(exc).__name__
        if ev == "dd_unitary_pair":
            v, exc = call(diamond_distance, JU.copy(), JV.copy())
        elif ev == "dd_swapped":
            v, exc = call(diamond_distance, JV.copy(), JU.copy())
        elif ev == "cb_difference":
            v, exc = call(completely_bounded_trace_norm, JD.copy())
        else:
            v, exc = call(completely_bounded_spectral_norm, JH.copy())
        if exc is not None:
            return "EXC:" + type(exc).__name__
        return round(float(np.real(v)), 6)

    def same(a, b, ev):
        if ev == "loose_options":
            return True
        if isinstance(a, str) or isinstance(b, str):
            return a == b
        return abs(a - b) <= 2 * IPM

    stats, bad = explore(lambda: None, HIST_EVENTS, apply, lambda o: "stateless", lambda o, h: None, same, case["depth"])
    for b in bad:
        return viol(f"channel-distance call history: {b['kind']} after {b.get('history')}: {b.get('after_history', '')} vs {b.get('from_initial', '')}",
                    site="channel_metrics_history:" + b["kind"], observed=repr(b)[:300])
    return ok(True, obs=[stats["transitions"], stats["histories"]], states=stats["states"], transitions=stats["transitions"], histories=stats["histories"])


CLAUSES = [
    Clause("C20.cb_bracket", cb_cases, cb_check, tol="ipm(1e-4 rel)", chunk=1, weight=0.5,
           doc="completely_bounded_trace_norm inside the certified Watrous primal/dual bracket; =1 on channels; =||Phi*(I)|| on CP maps"),
    Clause("C20.cb_props", props_cases, props_check, tol="ipm(1e-4 rel)", chunk=1, weight=0.5,
           doc="|c|-homogeneity for c in {-1,2,1/2,i,e^{.4i},1.5e^{-.3i}}; cb spectral norm = cb trace norm of the independently built dual, =||Phi(I)|| on CP maps"),
    Clause("C20.diamond", diamond_cases, diamond_check, tol="ipm(4e-4)", chunk=2, weight=0.3,
           doc="all ordered channel pairs: symmetric, 0 iff equal, Choi trace-norm bounds, unitary-pair closed form, certified bracket, unitary invariance; pairs of non-channel linear maps (scaled channels, differences) in the certified bracket"),
    Clause("C20.channel_fidelity", cf_cases, cf_check, tol="scs(2e-3)", chunk=1, weight=5.0, probe=1,
           doc="symmetric, 1 on equal, <= output fidelity of explicit inputs (incl. Choi states), unitary-pair and replacer closed forms, local dims 2,3,4,5"),
    Clause("C20.channel_fos", fos_cases, fos_check, tol="1e-3", chunk=1, weight=1.0, probe=1,
           doc="channel fidelity of separability = 1 on pure tripartite product states; mixed / non-density / wrong dims rejected"),
    Clause("C20.history", history_cases, history_check, tol="ipm(2e-4)", chunk=1, weight=10.0, probe=1,
           doc="BFS over call histories of diamond_distance / cb trace norm / cb spectral norm (incl. a call with loose solver options): "
               "every later value equals the value from the initial state"),
]
