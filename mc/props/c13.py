"""C13 — state distance and fidelity measures equal their documented definitions and satisfy the known relations.

Every clause enumerates a finite, explicitly stated space completely (full products of the state alphabets below) and
decides each case by calling the real toqito function through ``toqito.state_metrics`` / ``toqito.matrix_props`` and
comparing with the documented formula evaluated independently in ``mc/ref/metrics.py`` (eigh / eigvalsh / svd).
"""

from __future__ import annotations

import contextlib
import io
import math
from functools import lru_cache

import numpy as np

from mc import catalog as cat
from mc.engine import Clause, call, exc_text, is_deliberate_rejection, ok, viol
from mc.ref import metrics as R

TOL = 1e-6  # tolerance class "spec"
IPM = 1e-4  # tolerance class "ipm" (picos + cvxopt)
DELTA = 1e-3  # nearly-equal pairs (rho, (1-DELTA) rho + DELTA sigma)

RULE = ("case = (function, dimension d, key of rho, key of sigma[, key of tau | unitary | control], dtype form, decimals); "
        "states are rebuilt from catalogue keys (mc/catalog.py densities(d), "
        "plus nearly-equal states near:a|b = (1-1e-3)a+1e-3 b and the two generic-basis kets u0,u{d-1}); ALL ordered pairs "
        "of the state alphabet are executed for definitions / inequalities / extremes, all unordered pairs for symmetry, "
        "all triples (d=2,3 quick; d<=4 thorough; the fixed sub-alphabet SUB above that) for the triangle inequality, "
        "all catalogue unitaries x pairs (full alphabet at d=2,3 in thorough; the sub-alphabet SUB otherwise) for unitary invariance; a value case is "
        "non-trivial iff rho != sigma and the supports are not orthogonal (the value is not an extreme); a rejection "
        "case is non-trivial iff the control violates exactly one density-operator condition by >= 100x the library's "
        "own tolerance; states = distinct cases, transitions = toqito calls")
ASSUMPTIONS = [
    "numpy.linalg.eigh / eigvalsh / svd are correct to 1e-12 on Hermitian / general matrices of dimension <= 9",
    "value domain is the finite state alphabet (structured + VERIF_SEED-derived generic elements), d in {2,3,4} quick and "
    "{2,..,6} thorough; no closure argument to the continuum of density operators",
    "tolerance 1e-6 (spec) on eigen-derived scalars; Bures distance / angle are judged through the interval "
    "g(round(F +- 1e-6, decimals)) because sqrt / arccos amplify the sqrt(eps) loss of sqrtm near F = 1",
    "Matsumoto fidelity is judged only on pairs with at least one invertible argument (the documented closed formula); "
    "pairs of two singular states are outside the property's quantifier and are not enumerated for it",
    "fidelity_of_separability: local dimensions in {2,3}^2 plus (2,4),(4,2); levels k<=2 (k=3 and 3x3 at k=2 only in thorough); "
    "value judged at 1e-4 (ipm)",
]

PAIR_FNS = ["fidelity", "trace_distance", "helstrom_holevo", "bures_distance", "bures_angle", "sub_fidelity",
            "matsumoto_fidelity", "hilbert_schmidt_inner_product", "trace_norm"]
ALL_FNS = PAIR_FNS[:-1] + ["hilbert_schmidt"]
REJECTING_FNS = ["fidelity", "trace_distance", "hilbert_schmidt", "helstrom_holevo", "bures_distance", "bures_angle",
                 "sub_fidelity", "matsumoto_fidelity"]
SHAPE_FNS = ["fidelity", "bures_distance", "bures_angle", "sub_fidelity", "matsumoto_fidelity"]


def dims_for(tier):
    return (2, 3, 4) if tier == "quick" else (2, 3, 4, 5, 6)


# ------------------------------------------------------------------------------------------------ state alphabet
@lru_cache(maxsize=None)
def _base_states(d: int, sd: int) -> dict:
    out = dict(cat.densities(d))
    # generic-basis kets: first and last column of the generic unitary (orthogonal partners of the @g states)
    ug = cat.generic_unitary(d, 0)
    out["ket:u0"] = cat.proj(ug[:, 0])
    out[f"ket:u{d - 1}"] = cat.proj(ug[:, d - 1])
    return out


def near_keys(d: int) -> list:
    ks = ["near:gfull0|gfull1", "near:ket:g0|ket:g1", "near:ket:e0|ket:e1"]
    ks.append("near:ramp2@F|ket:ramp")
    return ks


@lru_cache(maxsize=None)
def _states(d: int, sd: int) -> dict:
    out = dict(_base_states(d, sd))
    for key in near_keys(d):
        a, b = key.split(":", 1)[1].split("|")
        out[key] = cat.herm((1 - DELTA) * out[a] + DELTA * out[b])
    return out


def states(d: int) -> dict:
    return _states(d, cat.seed())


def state(d: int, key: str, form: str = "c") -> np.ndarray:
    m = states(d)[key]
    if form == "r":
        return np.ascontiguousarray(m.real, dtype=float)
    return m.astype(complex).copy()


def is_real(d: int, key: str) -> bool:
    return float(np.max(np.abs(states(d)[key].imag))) < 1e-12


def sub_keys(d: int) -> list:
    """Deterministic sub-alphabet SUB(d) (pure / mixed, every basis, full-rank / rank-deficient, near, orthogonal partners)."""
    want = ["ket:e0", "ket:ramp", "ket:chirp", "ket:g0", "ket:g1", "ket:u0", f"ket:u{d - 1}", "flat2@I", "ramp2@I", "ramp2@F",
            "ramp2hi@g", f"ramp{d}@g", f"ramp{d}@F", f"flat{d}@I", "gfull0", "gfull1", "gdef0", "near:gfull0|gfull1",
            "near:ket:g0|ket:g1"]
    have = states(d)
    out = []
    for k in want:
        if k in have and k not in out:
            out.append(k)
    return out


def ket_keys(d: int) -> list:
    return [k for k in states(d) if k.startswith("ket:")]


def ket_vector(d: int, key: str) -> np.ndarray:
    name = key.split(":", 1)[1]
    if name in ("u0", f"u{d - 1}"):
        return cat.generic_unitary(d, 0)[:, int(name[1:])].copy()
    return cat.ket(d, name)


@lru_cache(maxsize=None)
def _full_rank(d: int, key: str, sd: int) -> bool:
    return R.min_eig(states(d)[key]) > 1e-4


def in_matsumoto_domain(d: int, a: str, b: str) -> bool:
    """At least one argument invertible (smallest eigenvalue > 1e-4; decided from the reference spectrum, deterministic)."""
    return _full_rank(d, a, cat.seed()) or _full_rank(d, b, cat.seed())


@lru_cache(maxsize=None)
def _pair_kind_keys(d: int, a: str, b: str, sd: int) -> str:
    return pair_kind(states(d)[a], states(d)[b])[0]


def kind_of(d: int, a: str, b: str) -> str:
    return _pair_kind_keys(d, a, b, cat.seed())


def forms_for(d, a, b):
    return ("c", "r") if (is_real(d, a) and is_real(d, b)) else ("c",)


# ------------------------------------------------------------------------------------------------ calling toqito
def toq(fn: str):
    if fn == "trace_norm":
        from toqito.matrix_props import trace_norm

        return trace_norm
    import toqito.state_metrics as sm

    return getattr(sm, fn)


def quiet(f, *a, **k):
    """engine.call with stdout swallowed (scipy.linalg.sqrtm *prints* 'Failed to find a square root.' on some inputs)."""
    with contextlib.redirect_stdout(io.StringIO()):
        return call(f, *a, **k)


def call_fn(fn: str, rho, sigma, dec=None):
    """One public-API call; trace_norm is applied to the difference."""
    f = toq(fn)
    if fn == "trace_norm":
        return quiet(f, rho - sigma)
    if dec is not None:
        return quiet(f, rho, sigma, decimals=dec)
    return quiet(f, rho, sigma)


def as_number(v):
    """float / complex from a toqito return value, or None if it is not a scalar number."""
    try:
        a = np.asarray(v)
        if a.shape != ():
            return None
        z = complex(a)
    except Exception:  # noqa: BLE001
        return None
    return z


def finite(z) -> bool:
    return z is not None and math.isfinite(z.real) and math.isfinite(z.imag)


def show(z):
    if z is None:
        return None
    if not finite(z):
        return repr(z)
    return z.real if abs(z.imag) < 1e-300 else {"re": z.real, "im": z.imag}


# ------------------------------------------------------------------------------------------------ oracles
def _xcheck(name, a, b, tol=5e-7):
    if abs(a - b) > tol:
        raise RuntimeError(f"reference models disagree for {name}: {a} vs {b}")


def reference(fn: str, rho, sigma):
    """Documented formula (float or complex); two independent evaluations are cross-checked."""
    if fn == "fidelity":
        v = R.fidelity(rho, sigma)
        _xcheck(fn, v, R.fidelity_alt(rho, sigma))
    elif fn == "trace_distance":
        v = R.trace_distance(rho, sigma)
        _xcheck(fn, v, R.trace_distance_alt(rho, sigma))
    elif fn == "trace_norm":
        v = R.trace_norm(rho - sigma)
        _xcheck(fn, v, 2 * R.trace_distance(rho, sigma))
    elif fn == "helstrom_holevo":
        v = R.helstrom_holevo(rho, sigma)
    elif fn == "hilbert_schmidt":
        v = R.hilbert_schmidt(rho, sigma)
        _xcheck(fn, v, R.hilbert_schmidt_alt(rho, sigma))
    elif fn == "hilbert_schmidt_inner_product":
        v = R.hs_inner(rho, sigma)
    elif fn == "sub_fidelity":
        v = R.sub_fidelity(rho, sigma)
        _xcheck(fn, v, R.sub_fidelity_alt(rho, sigma))
    elif fn == "matsumoto_fidelity":
        v = R.matsumoto_sym(rho, sigma)
    else:
        raise KeyError(fn)
    return v


def judge(fn: str, got, rho, sigma, dec=None):
    """None if `got` is the documented value within the tolerance class, else (detail, expected)."""
    z = as_number(got)
    if fn in ("bures_distance", "bures_angle"):
        f = R.fidelity(rho, sigma)
        g = R.bures_distance_of_f if fn == "bures_distance" else R.bures_angle_of_f
        lo, hi = R.derived_interval(g, f, TOL, 10 if dec is None else dec)
        expd = [lo, hi]
        if not finite(z):
            return f"{fn} is not the documented function of the fidelity (non-finite result): returned {got!r}; documented value in [{lo:.9g}, {hi:.9g}]", expd
        if abs(z.imag) > TOL or not (lo - TOL <= z.real <= hi + TOL):
            return f"{fn} is not the documented function of the fidelity F (F within 1e-6, rounding applied): got {z.real:.9g}, allowed [{lo:.9g}, {hi:.9g}], F = {f:.9g}", expd
        return None
    exp = reference(fn, rho, sigma)
    if not finite(z):
        return f"{fn} differs from its documented formula (non-finite or non-scalar result): returned {got!r}; formula gives {show(complex(exp))}", show(complex(exp))
    if abs(z - exp) > TOL:
        return f"{fn} differs from its documented formula evaluated via eigh/svd by more than 1e-6: got {show(z)}, formula gives {show(complex(exp))}", show(complex(exp))
    return None


def pair_kind(rho, sigma):
    """('identical' | 'orthogonal' | 'generic', T_ref, F_ref)"""
    t = R.trace_distance(rho, sigma)
    f = R.fidelity(rho, sigma)
    if t < 1e-12:
        return "identical", t, f
    if f < 1e-9:
        return "orthogonal", t, f
    return "generic", t, f


def f_scale(fn, z):
    """Map Bures distance / angle back to the fidelity scale (comparisons there are well conditioned)."""
    if fn == "bures_distance":
        return 1.0 - z * z / 2.0
    if fn == "bures_angle":
        return math.cos(z) ** 2
    return z


def same_value(fn, z1, z2, tol=2 * TOL) -> bool:
    if not (finite(z1) and finite(z2)):
        return False
    if abs(z1 - z2) <= tol:
        return True
    if fn in ("bures_distance", "bures_angle") and abs(z1.imag) < TOL and abs(z2.imag) < TOL:
        return abs(f_scale(fn, z1.real) - f_scale(fn, z2.real)) <= tol
    return False


# ------------------------------------------------------------------------------------------------ C13.definition
def pair_cases_for(fns, tier, with_dec=True):
    for d in dims_for(tier):
        keys = list(states(d))
        for fn in fns:
            for a in keys:
                for b in keys:
                    if fn == "matsumoto_fidelity" and not in_matsumoto_domain(d, a, b):
                        continue
                    for form in forms_for(d, a, b):
                        yield {"fn": fn, "d": d, "rho": a, "sigma": b, "form": form}
                        if with_dec and fn in ("bures_distance", "bures_angle") and form == "c":
                            yield {"fn": fn, "d": d, "rho": a, "sigma": b, "form": form, "dec": 3}


def definition_cases(tier, seed):
    yield from pair_cases_for(PAIR_FNS, tier)


def definition_check(case):
    fn, d = case["fn"], case["d"]
    rho, sigma = state(d, case["rho"], case["form"]), state(d, case["sigma"], case["form"])
    got, exc = call_fn(fn, rho, sigma, case.get("dec"))
    if exc is not None:
        return viol(f"{fn} raised on a pair of density operators: " + exc_text(exc), site=f"{fn}:exception", observed=exc_text(exc))
    bad = judge(fn, got, rho, sigma, case.get("dec"))
    z = as_number(got)
    if bad:
        return viol(bad[0], site=f"{fn}:value", observed=show(z) if z is not None else repr(got), expected=bad[1])
    kind, _, _ = pair_kind(rho, sigma)
    return ok(kind == "generic", obs=[z.real, z.imag])


# ------------------------------------------------------------------------------------------------ C13.hs_definition
def hs_cases(tier, seed):
    yield from pair_cases_for(["hilbert_schmidt"], tier, with_dec=False)


def hs_check(case):
    d = case["d"]
    rho, sigma = state(d, case["rho"], case["form"]), state(d, case["sigma"], case["form"])
    exp = reference("hilbert_schmidt", rho, sigma)
    if case["rho"].startswith("ket:") and case["sigma"].startswith("ket:"):
        c = R.overlap(ket_vector(d, case["rho"]), ket_vector(d, case["sigma"]))
        _xcheck("hilbert_schmidt(pure)", exp, R.pure_closed_forms(c)["hilbert_schmidt"], 1e-9)
    from toqito.state_metrics import hilbert_schmidt

    got, exc = quiet(hilbert_schmidt, rho, sigma)
    if exc is not None:
        return viol("hilbert_schmidt raised on a pair of density operators: " + exc_text(exc), site="hilbert_schmidt:exception",
                    observed=exc_text(exc))
    z = as_number(got)
    if not finite(z) or abs(z - exp) > TOL:
        return viol(f"hilbert_schmidt differs from the documented Tr((rho-sigma)^2) by more than 1e-6: got {show(z)}, Tr((rho-sigma)^2) = {exp:.9g}", site="hilbert_schmidt:value",
                    observed=show(z) if z is not None else repr(got), expected=exp)
    return ok(pair_kind(rho, sigma)[0] != "identical", obs=z.real)


# ------------------------------------------------------------------------------------------------ C13.pure_overlap
PURE_FNS = ["fidelity", "trace_distance", "helstrom_holevo", "bures_distance", "bures_angle", "sub_fidelity",
            "hilbert_schmidt_inner_product"]


def pure_cases(tier, seed):
    for d in dims_for(tier):
        ks = ket_keys(d)
        for fn in PURE_FNS:
            for a in ks:
                for b in ks:
                    for form in forms_for(d, a, b):
                        yield {"fn": fn, "d": d, "rho": a, "sigma": b, "form": form}


def pure_check(case):
    fn, d = case["fn"], case["d"]
    rho, sigma = state(d, case["rho"], case["form"]), state(d, case["sigma"], case["form"])
    c = R.overlap(ket_vector(d, case["rho"]), ket_vector(d, case["sigma"]))
    exp = R.pure_closed_forms(c)[fn]
    got, exc = call_fn(fn, rho, sigma)
    if exc is not None:
        return viol(f"{fn} raised on two pure states: " + exc_text(exc), site=f"{fn}:exception", observed=exc_text(exc))
    z = as_number(got)
    if fn in ("bures_distance", "bures_angle"):
        g = R.bures_distance_of_f if fn == "bures_distance" else R.bures_angle_of_f
        lo, hi = R.derived_interval(g, c, TOL, 10)
        good = finite(z) and abs(z.imag) <= TOL and lo - TOL <= z.real <= hi + TOL
    else:
        good = finite(z) and abs(z - exp) <= TOL
    if not good:
        return viol(f"{fn} on two pure states differs from the closed form in the overlap |<psi|phi>|: got {show(z)}, |<psi|phi>| = {c:.9g}, closed form {exp:.9g}",
                    site=f"{fn}:pure", observed=show(z) if z is not None else repr(got), expected=exp)
    return ok(1e-9 < c < 1 - 1e-9, obs=[z.real, z.imag])


# ------------------------------------------------------------------------------------------------ C13.extremes
EXT_ID = {"fidelity": 1.0, "trace_distance": 0.0, "hilbert_schmidt": 0.0, "helstrom_holevo": 0.5, "bures_distance": 0.0,
          "bures_angle": 0.0, "matsumoto_fidelity": 1.0, "trace_norm": 0.0}
EXT_ORTH = {"fidelity": 0.0, "trace_distance": 1.0, "helstrom_holevo": 1.0, "bures_distance": math.sqrt(2.0),
            "bures_angle": math.pi / 2, "sub_fidelity": 0.0, "hilbert_schmidt_inner_product": 0.0, "trace_norm": 2.0}
STRICT_FNS = ["fidelity", "trace_distance", "helstrom_holevo", "bures_distance", "bures_angle", "trace_norm"]


def extremes_cases(tier, seed):
    for d in dims_for(tier):
        keys = list(states(d))
        for a in keys:
            for fn in EXT_ID:
                if fn == "matsumoto_fidelity" and not in_matsumoto_domain(d, a, a):
                    continue
                for form in forms_for(d, a, a):
                    yield {"kind": "identical", "fn": fn, "d": d, "rho": a, "sigma": a, "form": form}
        for a in keys:
            for b in keys:
                if a == b:
                    continue
                fns = sorted(EXT_ORTH) if kind_of(d, a, b) == "orthogonal" else STRICT_FNS
                for fn in fns:
                    yield {"kind": "pair", "fn": fn, "d": d, "rho": a, "sigma": b, "form": "c"}


def _ext_tol(fn):
    # sqrt / arccos near F = 1 (resp. the rounding at F = 0): the documented value of F +- 1e-6
    if fn == "bures_distance":
        return math.sqrt(2 * TOL) + TOL
    if fn == "bures_angle":
        return math.acos(math.sqrt(1 - TOL)) + TOL
    return TOL


def extremes_check(case):
    fn, d = case["fn"], case["d"]
    rho, sigma = state(d, case["rho"], case["form"]), state(d, case["sigma"], case["form"])
    kind, t_ref, f_ref = pair_kind(rho, sigma)
    got, exc = call_fn(fn, rho, sigma)
    if exc is not None:
        return viol(f"{fn} raised: " + exc_text(exc), site=f"{fn}:exception", observed=exc_text(exc))
    z = as_number(got)
    if not finite(z) or abs(z.imag) > TOL:
        return viol(f"{fn} returned a non-finite / non-real value on a pair of density operators ({kind}): {got!r}", site=f"{fn}:extreme_{kind}",
                    observed=show(z) if z is not None else repr(got))
    v = z.real
    if case["kind"] == "identical":
        exp = EXT_ID[fn]
        if abs(v - exp) > _ext_tol(fn):
            return viol(f"{fn}(rho, rho) is not the documented extreme value for identical states: got {v:.9g}, extreme {exp}", site=f"{fn}:extreme_identical", observed=v, expected=exp)
        return ok(True, obs=v)
    if kind == "orthogonal":
        if fn not in EXT_ORTH:
            return ok(False, obs=v)
        exp = EXT_ORTH[fn]
        tol = 2 * TOL
        if fn == "bures_angle":  # arccos sqrt(F) with F within 1e-6 of 0
            tol = math.pi / 2 - math.acos(math.sqrt(TOL)) + TOL
        if abs(v - exp) > tol:
            return viol(f"{fn} on states with orthogonal supports is not the documented extreme value: got {v:.9g}, extreme {exp:.9g}",
                        site=f"{fn}:extreme_orthogonal", observed=v, expected=exp)
        return ok(True, obs=v)
    # converse: the extremes are taken ONLY on identical / orthogonal pairs (judged with margin >= 100 tol)
    if fn not in STRICT_FNS:
        return ok(False, obs=v)
    judged = False
    if t_ref >= 0.02:  # then 1 - F >= T^2/2 >= 2e-4
        judged = True
        at_id = abs(v - EXT_ID[fn]) <= TOL
        if at_id:
            return viol(f"{fn} takes its identical-states extreme value on clearly distinct states: got {v:.9g}, reference T = {t_ref:.4g}",
                        site=f"{fn}:extreme_strict", observed=v, expected="!= %g" % EXT_ID[fn])
    if f_ref >= 0.02:  # then T <= sqrt(1 - F^2) <= 1 - 2e-4
        judged = True
        if abs(v - EXT_ORTH[fn]) <= TOL:
            return viol(f"{fn} takes its orthogonal-states extreme value on clearly overlapping states: got {v:.9g}, reference F = {f_ref:.4g}",
                        site=f"{fn}:extreme_strict", observed=v, expected="!= %g" % EXT_ORTH[fn])
    return ok(judged, obs=v)


# ------------------------------------------------------------------------------------------------ C13.symmetry
def symmetry_cases(tier, seed):
    for d in dims_for(tier):
        keys = list(states(d))
        for fn in ALL_FNS + ["trace_norm"]:
            for i, a in enumerate(keys):
                for b in keys[i + 1:]:
                    if fn == "matsumoto_fidelity" and not in_matsumoto_domain(d, a, b):
                        continue
                    yield {"fn": fn, "d": d, "rho": a, "sigma": b}


def symmetry_check(case):
    fn, d = case["fn"], case["d"]
    rho, sigma = state(d, case["rho"]), state(d, case["sigma"])
    g1, e1 = call_fn(fn, rho, sigma)
    g2, e2 = call_fn(fn, sigma, rho)
    if e1 is not None or e2 is not None:
        e = e1 or e2
        return viol(f"{fn} raised: " + exc_text(e), site=f"{fn}:exception", observed=exc_text(e))
    z1, z2 = as_number(g1), as_number(g2)
    if fn == "hilbert_schmidt_inner_product" and z2 is not None:
        z2 = z2.conjugate()
    if not same_value(fn, z1, z2):
        return viol(f"{fn} is not symmetric in its arguments (hs inner product: conjugate-symmetric): f(rho,sigma) = {show(z1)}, f(sigma,rho) = {show(z2)}", site=f"{fn}:symmetry", observed=show(z1),
                    expected=show(z2))
    return ok(pair_kind(rho, sigma)[0] == "generic", obs=[z1.real, z1.imag], calls=2)


# ------------------------------------------------------------------------------------------------ C13.unitary_invariance
def unitary_cases(tier, seed):
    for d in dims_for(tier):
        full = tier == "thorough" and d <= 3
        keys = list(states(d)) if full else sub_keys(d)
        for fn in ALL_FNS + ["trace_norm"]:
            for u in cat.unitaries(d):
                if u == "I":
                    continue
                for a in keys:
                    for b in keys:
                        if fn == "matsumoto_fidelity" and not in_matsumoto_domain(d, a, b):
                            continue
                        yield {"fn": fn, "d": d, "u": u, "rho": a, "sigma": b}


def unitary_check(case):
    fn, d = case["fn"], case["d"]
    rho, sigma = state(d, case["rho"]), state(d, case["sigma"])
    U = cat.unitary(d, case["u"])
    r2, s2 = cat.herm(U @ rho @ U.conj().T), cat.herm(U @ sigma @ U.conj().T)
    g1, e1 = call_fn(fn, rho, sigma)
    g2, e2 = call_fn(fn, r2, s2)
    if e1 is not None or e2 is not None:
        e = e1 or e2
        return viol(f"{fn} raised: " + exc_text(e), site=f"{fn}:exception", observed=exc_text(e))
    z1, z2 = as_number(g1), as_number(g2)
    if not same_value(fn, z1, z2):
        return viol(f"{fn} is not invariant under a common unitary conjugation of both arguments: f(U rho U*, U sigma U*) = {show(z2)}, f(rho, sigma) = {show(z1)}, U = {case['u']}",
                    site=f"{fn}:unitary_invariance", observed=show(z2), expected=show(z1))
    dg = np.abs(U - np.diag(np.diag(U))).max() > 1e-9  # a diagonal U leaves entrywise moduli unchanged
    return ok(case["rho"] != case["sigma"] and dg, obs=[z2.real, z2.imag], calls=2)


# ------------------------------------------------------------------------------------------------ C13.inequalities
RELS = ["1-F<=T", "T<=sqrt(1-F^2)", "E<=F^2", "M<=F", "ranges"]
RANGES = {"fidelity": (0.0, 1.0), "trace_distance": (0.0, 1.0), "helstrom_holevo": (0.5, 1.0),
          "bures_distance": (0.0, math.sqrt(2.0)), "bures_angle": (0.0, math.pi / 2), "sub_fidelity": (0.0, 1.0),
          "hilbert_schmidt": (0.0, 2.0)}


def inequality_cases(tier, seed):
    for d in dims_for(tier):
        keys = list(states(d))
        for rel in RELS:
            for a in keys:
                for b in keys:
                    if rel == "M<=F" and not in_matsumoto_domain(d, a, b):
                        continue
                    yield {"rel": rel, "d": d, "rho": a, "sigma": b}


def _real_value(fn, rho, sigma):
    got, exc = call_fn(fn, rho, sigma)
    if exc is not None:
        return None, viol(f"{fn} raised: " + exc_text(exc), site=f"{fn}:exception", observed=exc_text(exc))
    z = as_number(got)
    if not finite(z) or abs(z.imag) > TOL:
        return None, viol(f"{fn} returned a non-finite / non-real value on a pair of density operators: {got!r}", site=f"{fn}:not_a_real_number", observed=repr(got))
    return z.real, None


def inequality_check(case):
    rel, d = case["rel"], case["d"]
    rho, sigma = state(d, case["rho"]), state(d, case["sigma"])
    nt = case["rho"] != case["sigma"]
    if rel == "ranges":
        obs = []
        for fn, (lo, hi) in RANGES.items():
            v, bad = _real_value(fn, rho, sigma)
            if bad:
                return bad
            obs.append(v)
            if not (lo - TOL <= v <= hi + TOL):
                return viol(f"{fn} lies outside its documented range of values on a pair of density operators: got {v:.9g}, range [{lo:.6g}, {hi:.6g}]", site=f"{fn}:range", observed=v,
                            expected=[lo, hi])
        return ok(nt, obs=obs, calls=len(RANGES))
    F, bad = _real_value("fidelity", rho, sigma)
    if bad:
        return bad
    if rel in ("1-F<=T", "T<=sqrt(1-F^2)"):
        T, bad = _real_value("trace_distance", rho, sigma)
        if bad:
            return bad
        if rel == "1-F<=T":
            if 1 - F > T + 2 * TOL:
                return viol(f"Fuchs-van de Graaf lower bound 1 - F <= T violated by the library's own fidelity and trace distance: 1 - F = {1 - F:.9g} > T = {T:.9g}", site="ineq:1-F<=T", observed=[F, T])
        else:
            ub = math.sqrt(max(0.0, 1 - max(0.0, F - TOL) ** 2))
            if T > ub + TOL:
                return viol(f"Fuchs-van de Graaf upper bound T <= sqrt(1 - F^2) violated by the library's own fidelity and trace distance: T = {T:.9g} > {math.sqrt(max(0.0, 1 - F * F)):.9g}", site="ineq:T<=sqrt(1-F^2)", observed=[F, T])
        return ok(nt, obs=[F, T], calls=2)
    if rel == "E<=F^2":
        E, bad = _real_value("sub_fidelity", rho, sigma)
        if bad:
            return bad
        if E > F * F + 3 * TOL:
            return viol(f"sub-fidelity exceeds the squared fidelity (E <= F^2 violated by the library's own values): E = {E:.9g} > F^2 = {F * F:.9g}", site="ineq:E<=F^2", observed=[E, F])
        return ok(nt, obs=[E, F], calls=2)
    if rel == "M<=F":
        M, bad = _real_value("matsumoto_fidelity", rho, sigma)
        if bad:
            return bad
        if M > F + 2 * TOL or M < -TOL or M > 1 + TOL:
            return viol(f"Matsumoto fidelity is not a lower bound of the fidelity (0 <= M <= F violated by the library's own values): M = {M:.9g}, F = {F:.9g}", site="ineq:M<=F", observed=[M, F])
        return ok(nt, obs=[M, F], calls=2)
    raise KeyError(rel)


# ------------------------------------------------------------------------------------------------ C13.triangle
_T_CACHE: dict = {}


def _td(d, a, b):
    key = (d, a, b, cat.seed())
    if key not in _T_CACHE:
        from toqito.state_metrics import trace_distance

        got, exc = quiet(trace_distance, state(d, a), state(d, b))
        if exc is not None:
            _T_CACHE[key] = ("exc", exc_text(exc))
        else:
            z = as_number(got)
            _T_CACHE[key] = ("val", z.real if finite(z) else float("nan"))
    return _T_CACHE[key]


def triangle_cases(tier, seed):
    for d in dims_for(tier):
        full = d <= 3 or (tier == "thorough" and d == 4)
        keys = list(states(d)) if full else sub_keys(d)
        for a in keys:
            for b in keys:
                for c in keys:
                    yield {"d": d, "rho": a, "sigma": b, "tau": c}


def triangle_check(case):
    d, a, b, c = case["d"], case["rho"], case["sigma"], case["tau"]
    vals = []
    for x, y in ((a, c), (a, b), (b, c)):
        kind, v = _td(d, x, y)
        if kind == "exc":
            return viol("trace_distance raised: " + v, site="trace_distance:exception", observed=v)
        if not math.isfinite(v):
            return viol("trace_distance returned a non-finite value", site="trace_distance:not_a_real_number", observed=repr(v))
        vals.append(v)
    if vals[0] > vals[1] + vals[2] + 3 * TOL:
        return viol(f"trace distance violates the triangle inequality T(rho,tau) <= T(rho,sigma) + T(sigma,tau): {vals[0]:.9g} > {vals[1]:.9g} + {vals[2]:.9g}",
                    site="trace_distance:triangle", observed=vals)
    return ok(len({a, b, c}) == 3, obs=vals, calls=3)


# ------------------------------------------------------------------------------------------------ C13.rejects
CONTROLS = ["trace1.1", "trace0.9", "negeig", "nonherm", "nonherm_i", "diag_i"]


def control(d: int, base: str, kind: str) -> np.ndarray:
    rho = state(d, base)
    if kind == "trace1.1":
        return 1.1 * rho
    if kind == "trace0.9":
        return 0.9 * rho
    if kind == "negeig":  # Hermitian, trace 1, smallest eigenvalue -0.1
        w, v = np.linalg.eigh(rho)
        w = w.copy()
        shift_ = w[0] + 0.1
        w[0] = -0.1
        w[-1] += shift_
        return cat.herm((v * w) @ v.conj().T)
    if kind in ("nonherm", "nonherm_i"):  # trace 1, one off-diagonal entry moved by 0.1 (resp. 0.1i)
        m = rho.copy()
        m[0, 1] += 0.1 if kind == "nonherm" else 0.1j
        return m
    if kind == "diag_i":  # trace 1, Hermitian off the diagonal, diagonal with imaginary parts +0.05 / -0.05 (added after seeded change
        # C13-8: a Hermiticity test that skipped the diagonal)
        m = rho.astype(complex)
        m[0, 0] += 0.05j
        m[d - 1, d - 1] -= 0.05j
        return m
    raise KeyError(kind)


def reject_bases(d):
    out = []
    for k in ("ket:g0", "gfull0", "ramp2@F", "flat2@I", f"flat{d}@I"):
        if k in states(d) and k not in out:
            out.append(k)
    return out


def rejects_cases(tier, seed):
    for d in dims_for(tier):
        for fn in REJECTING_FNS:
            for base in reject_bases(d):
                for kind in CONTROLS:
                    for pos in ("rho", "sigma", "both"):
                        yield {"fn": fn, "d": d, "base": base, "control": kind, "pos": pos, "other": "gfull1"}
        if d < max(dims_for(tier)):
            for fn in SHAPE_FNS:
                for pos in ("rho", "sigma"):
                    yield {"fn": fn, "d": d, "base": "gfull0", "control": "shape", "pos": pos, "other": "gfull1"}


def rejects_check(case):
    fn, d, pos = case["fn"], case["d"], case["pos"]
    good = state(d, case["other"])
    if case["control"] == "shape":
        bad_ = state(d + 1, case["base"])
    else:
        bad_ = control(d, case["base"], case["control"])
    rho = bad_ if pos in ("rho", "both") else good
    sigma = bad_ if pos in ("sigma", "both") else good
    f = toq(fn)
    got, exc = quiet(f, rho, sigma)
    if exc is None:
        return viol(f"{fn} returned {got!r} for a non-density input ({case['control']} in {pos})", site=f"{fn}:accepts_non_density",
                    observed=repr(got), expected="ValueError")
    if not isinstance(exc, ValueError):
        return viol(f"{fn} failed with an internal error instead of the documented ValueError: " + exc_text(exc),
                    site=f"{fn}:rejects_with_internal_error", observed=exc_text(exc), expected="ValueError")
    if not is_deliberate_rejection(exc):
        return viol(f"{fn}: ValueError raised inside a dependency, not a deliberate rejection: " + exc_text(exc),
                    site=f"{fn}:rejects_with_internal_error", observed=exc_text(exc), expected="ValueError raised by toqito")
    return ok(True, obs=type(exc).__name__)


# ------------------------------------------------------------------------------------------------ C13.operators
def _op_matrices(tier):
    """(key, builder) for general (non-Hermitian, rectangular) matrices: trace_norm and the HS inner product are documented
    for arbitrary operators."""
    shapes = [(2, 2), (3, 3), (2, 3), (3, 2), (4, 4), (1, 3), (3, 1)]
    if tier == "thorough":
        shapes += [(5, 5), (6, 6), (4, 6), (6, 2)]
    out = []
    for (r, c) in shapes:
        for k in range(3):
            out.append({"kind": "generic", "r": r, "c": c, "k": k, "real": False})
        out.append({"kind": "generic", "r": r, "c": c, "k": 0, "real": True})
        out.append({"kind": "unit", "r": r, "c": c, "i": 0, "j": c - 1})
        if r == c and r >= 2:
            for u in ("F", "XZ", "g0"):
                out.append({"kind": "unitary", "r": r, "c": c, "u": u})
            out.append({"kind": "idensity", "r": r, "c": c, "s": "gfull0"})
    return out


def op_matrix(spec) -> np.ndarray:
    r, c = spec["r"], spec["c"]
    if spec["kind"] == "generic":
        return cat.generic_matrix(r, c, spec["k"], spec["real"])
    if spec["kind"] == "unit":
        m = np.zeros((r, c), dtype=complex)
        m[spec["i"], spec["j"]] = 2.0 - 1.0j
        return m
    if spec["kind"] == "unitary":
        return cat.unitary(r, spec["u"])
    if spec["kind"] == "idensity":
        return 1j * state(r, spec["s"])
    raise KeyError(spec["kind"])


def operators_cases(tier, seed):
    mats = _op_matrices(tier)
    for a in mats:
        yield {"fn": "trace_norm", "a": a}
        if a["r"] == a["c"] and a["r"] in (2, 3):
            for u in ("F", "g0"):
                for v in ("XZ", "g1"):
                    yield {"fn": "trace_norm", "a": a, "u": u, "v": v}
    for a in mats:
        for b in mats:
            if (a["r"], a["c"]) == (b["r"], b["c"]):
                yield {"fn": "hilbert_schmidt_inner_product", "a": a, "b": b}


def operators_check(case):
    fn = case["fn"]
    A = op_matrix(case["a"])
    if fn == "trace_norm":
        from toqito.matrix_props import trace_norm

        X = A
        if "u" in case:
            n = A.shape[0]
            X = cat.unitary(n, case["u"]) @ A @ cat.unitary(n, case["v"])
        exp = R.trace_norm(A)
        _xcheck("trace_norm", exp, R.trace_norm_alt(A))
        got, exc = call(trace_norm, X)
        if exc is not None:
            return viol("trace_norm raised: " + exc_text(exc), site="trace_norm:exception", observed=exc_text(exc))
        z = as_number(got)
        if not finite(z) or abs(z - exp) > TOL * max(1.0, exp):
            return viol(f"trace_norm of a general operator is not the sum of its singular values (or not unitarily invariant): got {show(z)}, expected {exp:.9g}", site="trace_norm:operator",
                        observed=show(z) if z is not None else repr(got), expected=exp)
        return ok(case["a"]["kind"] in ("generic", "idensity"), obs=z.real)
    B = op_matrix(case["b"])
    from toqito.state_metrics import hilbert_schmidt_inner_product

    exp = R.hs_inner(A, B)
    got, exc = call(hilbert_schmidt_inner_product, A, B)
    if exc is not None:
        return viol("hilbert_schmidt_inner_product raised: " + exc_text(exc), site="hilbert_schmidt_inner_product:exception",
                    observed=exc_text(exc))
    z = as_number(got)
    if not finite(z) or abs(z - exp) > TOL * max(1.0, abs(exp)):
        return viol(f"hilbert_schmidt_inner_product of general operators is not Tr(A^dagger B): got {show(z)}, expected {show(exp)}", site="hilbert_schmidt_inner_product:operator",
                    observed=show(z) if z is not None else repr(got), expected=show(exp))
    return ok(abs(exp.imag) > 1e-3, obs=[z.real, z.imag])


# ------------------------------------------------------------------------------------------------ C13.fos
FOS_KETS = [("e0", "e1"), ("ramp", "chirp"), ("g0", "g1"), ("g1", "e0"), ("chirp", "g0")]


def fos_cases(tier, seed):
    # ascending AND descending unequal dimensions at k = 2 are both in the quick tier (after seeded change C13-3, which relabelled the
    # dimensions as (max, min) without permuting the state: invisible for equal or descending dimensions and at k = 1)
    plan = [((2, 2), 1, 5), ((2, 2), 2, 5), ((2, 3), 1, 5), ((3, 2), 1, 5), ((3, 2), 2, 3), ((2, 3), 2, 3), ((3, 3), 1, 5), ((2, 4), 1, 2),
            ((4, 2), 1, 2)]
    if tier == "thorough":
        plan += [((3, 2), 2, 5), ((2, 3), 2, 5), ((2, 4), 2, 2), ((2, 2), 3, 2), ((3, 3), 2, 1)]
    seen = set()
    for dims, k, n in plan:
        for (ka, kb) in FOS_KETS[:n]:
            forms = ("c", "r") if (ka, kb) == ("e0", "e1") and k == 1 else ("c",)
            for form in forms:
                key = (dims, k, ka, kb, form)
                if key in seen:
                    continue
                seen.add(key)
                yield {"kind": "product", "dims": list(dims), "k": k, "a": ka, "b": kb, "form": form}
    # rejections (the SDP is never reached): mixed, entangled, non-density, tripartite dims
    for dims in ((2, 2), (2, 3), (3, 2)):
        for k in (1, 2):
            for ctl in ("mixed_product", "mixed_generic", "trace1.1", "negeig", "nonherm"):
                yield {"kind": "reject", "dims": list(dims), "k": k, "control": ctl}
    for k in (1, 2):
        for ctl in ("bell0", "bell1", "bell2", "bell3", "theta_pi8", "theta_pi6"):
            yield {"kind": "reject", "dims": [2, 2], "k": k, "control": ctl}
        yield {"kind": "reject", "dims": [2, 2, 2], "k": k, "control": "tripartite"}
        yield {"kind": "reject", "dims": [3, 3], "k": k, "control": "schmidt2_33"}


def _product_state(dims, ka, kb):
    v = np.kron(cat.ket(dims[0], ka), cat.ket(dims[1], kb))
    return cat.proj(v)


def _fos_control(dims, ctl):
    da, db = dims[0], dims[1]
    if ctl == "mixed_product":
        return np.kron(state(da, "ramp2@F"), cat.proj(cat.ket(db, "g0")))
    if ctl == "mixed_generic":
        return np.kron(state(da, "gfull0"), state(db, "gfull1"))
    base = _product_state(dims, "g0", "g1")
    if ctl == "trace1.1":
        return 1.1 * base
    if ctl == "negeig":
        v = np.kron(cat.ket(da, "g0"), cat.ket(db, "g1"))
        w = np.kron(cat.ket(da, "g1"), cat.ket(db, "g0"))
        w = w - v * (v.conj() @ w)
        w = w / np.linalg.norm(w)
        return cat.herm(1.1 * cat.proj(v) - 0.1 * cat.proj(w))
    if ctl == "nonherm":
        m = base.copy()
        m[0, 1] += 0.1
        return m
    if ctl.startswith("bell"):
        return cat.proj(list(cat.bell_kets().values())[int(ctl[4])])
    if ctl.startswith("theta"):
        th = math.pi / 8 if ctl.endswith("pi8") else math.pi / 6
        return cat.proj(np.array([math.cos(th), 0, 0, math.sin(th)], dtype=complex))
    if ctl == "tripartite":
        return cat.proj(np.kron(np.kron(cat.ket(2, "g0"), cat.ket(2, "g1")), cat.ket(2, "e0")))
    if ctl == "schmidt2_33":
        v = np.zeros(9, dtype=complex)
        v[0], v[4] = math.cos(math.pi / 6), math.sin(math.pi / 6)
        return cat.proj(v)
    raise KeyError(ctl)


def fos_check(case):
    from toqito.state_metrics import fidelity_of_separability

    dims, k = case["dims"], case["k"]
    if case["kind"] == "product":
        rho = _product_state(dims, case["a"], case["b"])
        if case["form"] == "r":
            rho = np.ascontiguousarray(rho.real, dtype=float)
        got, exc = quiet(fidelity_of_separability, rho, list(dims), k)
        if exc is not None:
            if is_deliberate_rejection(exc):
                return viol(f"fidelity_of_separability rejected a pure product state although the value 1 is promised; dims {dims}: " + exc_text(exc),
                            site="fidelity_of_separability:product_rejected", observed=exc_text(exc), expected=1.0)
            return viol(f"fidelity_of_separability failed with an internal error on a pure product state; dims {dims}: " + exc_text(exc),
                        site="fidelity_of_separability:exception", observed=exc_text(exc), expected=1.0)
        z = as_number(got)
        if not finite(z) or abs(z - 1.0) > IPM:
            return viol(f"fidelity_of_separability of a pure product state is not 1 within 1e-4: got {show(z)} (dims {dims}, k = {k})",
                        site="fidelity_of_separability:value", observed=show(z) if z is not None else repr(got), expected=1.0)
        return ok(True, obs=round(z.real, 6))
    rho = _fos_control(dims, case["control"])
    got, exc = quiet(fidelity_of_separability, rho, list(dims), k)
    if exc is None:
        return viol(f"fidelity_of_separability returned {got!r} for a {case['control']} input; documented to be rejected",
                    site="fidelity_of_separability:accepts_invalid", observed=repr(got), expected="ValueError / AssertionError")
    if not isinstance(exc, (ValueError, AssertionError)) or not is_deliberate_rejection(exc):
        return viol("fidelity_of_separability failed with an internal error instead of the documented rejection: " + exc_text(exc),
                    site="fidelity_of_separability:rejects_with_internal_error", observed=exc_text(exc))
    return ok(True, obs=type(exc).__name__)


# ------------------------------------------------------------------------------------------------ alphabets (evidence)
# ------------------------------------------------------------------------------------------------ C13.near_identical
# Added after seeded change C13-4 (an `allclose` early exit returned exactly 0 for distinct but nearly equal states): the trace distance
# is positively homogeneous along a segment, T(rho, (1-t) rho + t sigma) = t T(rho, sigma), so pairs at t = 1e-5 .. 1e-8 have a known,
# strictly positive value that only a relative tolerance can see.
NEAR_T = (1e-5, 1e-6, 1e-7, 1e-8)


def near_cases(tier, seed):
    for d in dims_for(tier):
        keys = sub_keys(d)
        for a in keys:
            for b in keys:
                if a == b or a.startswith("near:") or b.startswith("near:"):
                    continue
                for t in NEAR_T:
                    yield {"d": d, "rho": a, "sigma": b, "t": t}


def near_check(case):
    d, t = case["d"], case["t"]
    rho, sigma = state(d, case["rho"]), state(d, case["sigma"])
    base = 0.5 * float(np.abs(np.linalg.eigvalsh((rho - sigma + (rho - sigma).conj().T) / 2)).sum())
    if base < 1e-3:
        return ok(False, note="endpoints too close")
    mix = (1 - t) * rho + t * sigma
    mix = (mix + mix.conj().T) / 2
    exp = t * base
    for fn, conv in (("trace_distance", lambda v: v), ("helstrom_holevo", lambda v: 2 * (v - 0.5))):
        for x, y in ((rho, mix), (mix, rho)):
            v, exc = call_fn(fn, x.copy(), y.copy())
            if exc is not None:
                return viol(f"{fn} raised on a nearly identical pair: " + exc_text(exc), site=fn + ":exception")
            z = as_number(v)
            if z is None or not finite(z):
                return viol(f"{fn} returned {v!r}", site=fn + ":value")
            got = conv(float(z.real))
            # absolute floor 1e-12 for the rounding of the eigen-decomposition, 1e-3 relative otherwise (helstrom_holevo subtracts 1/2)
            if abs(got - exp) > 1e-3 * exp + (2e-12 if fn == "trace_distance" else 1e-10):
                return viol(f"{fn} on (rho, (1-t) rho + t sigma) with t = {t:g}: distance {got:.6e}, expected t*T(rho,sigma) = {exp:.6e}",
                            site=fn + ":near_identical", observed=got, expected=exp)
            if fn == "trace_distance" and not got > 0:
                return viol("trace distance of two different states is not positive", site="trace_distance:zero_on_distinct", observed=got)
    return ok(True, obs=None)


def alphabets(tier, seed):
    out = {}
    for d in dims_for(tier):
        out[f"states(d={d})"] = len(states(d))
        out[f"kets(d={d})"] = len(ket_keys(d))
        out[f"SUB(d={d})"] = len(sub_keys(d))
        out[f"unitaries(d={d})"] = len(cat.unitaries(d))
    out["generic"] = "ket:g0,g1,u0,u{d-1}; @g bases; gfull0,1; gdef0,1; near:* (VERIF_SEED-derived)"
    out["functions"] = ALL_FNS + ["trace_norm", "fidelity_of_separability"]
    return out


CLAUSES = [
    Clause("C13.definition", definition_cases, definition_check, tol="spec(1e-6)", alphabets=alphabets,
           doc="each function = its documented formula (eigh/svd reference) on ALL ordered pairs, complex and real dtype, decimals"),
    Clause("C13.near_identical", near_cases, near_check, tol="1e-3 relative",
           doc="T(rho,(1-t)rho+t sigma) = t T(rho,sigma) > 0 for t = 1e-5..1e-8 (trace_distance, helstrom_holevo), both argument orders"),
    Clause("C13.hs_definition", hs_cases, hs_check, tol="spec(1e-6)",
           doc="hilbert_schmidt = Tr((rho-sigma)^2) on all ordered pairs (closed form 2(1-|<psi|phi>|^2) cross-checked on pure pairs)"),
    Clause("C13.pure_overlap", pure_cases, pure_check, tol="spec(1e-6)",
           doc="all ordered pairs of catalogue kets: closed forms in |<psi|phi>| computed without any eigen-decomposition"),
    Clause("C13.extremes", extremes_cases, extremes_check, tol="spec(1e-6)",
           doc="extremes exactly on identical / orthogonal pairs and (margin >= 100 tol) nowhere else"),
    Clause("C13.symmetry", symmetry_cases, symmetry_check, tol="spec(1e-6)", doc="f(rho,sigma) = f(sigma,rho) on all unordered pairs"),
    Clause("C13.unitary_invariance", unitary_cases, unitary_check, tol="spec(1e-6)",
           doc="f(U rho U*, U sigma U*) = f(rho, sigma) for all catalogue unitaries x pairs"),
    Clause("C13.inequalities", inequality_cases, inequality_check, tol="spec(1e-6)",
           doc="1-F <= T <= sqrt(1-F^2); E <= F^2; M <= F; documented ranges; all ordered pairs"),
    Clause("C13.triangle", triangle_cases, triangle_check, tol="spec(1e-6)", doc="T(a,c) <= T(a,b) + T(b,c) on all triples"),
    Clause("C13.rejects", rejects_cases, rejects_check, tol="exact", doc="non-density inputs (trace, PSD, Hermiticity, shape) are rejected with ValueError"),
    Clause("C13.operators", operators_cases, operators_check, tol="spec(1e-6)",
           doc="trace_norm and HS inner product on general (non-Hermitian, rectangular) operators; ||UXV||_1 = ||X||_1"),
    Clause("C13.fos", fos_cases, fos_check, tol="ipm(1e-4)", chunk=1, weight=1.0, probe=2,
           doc="fidelity_of_separability = 1 on pure product states (k=1,2, unequal local dims); mixed/entangled/non-density rejected"),
]

# every toqito call of the cheap (non-SDP) clauses is repeated with column-major copies of its array arguments (engine.call, layout twin)
for _c in CLAUSES:
    if not _c.name.endswith(".fos"):
        _c.layout_twin = True
    if _c.name.split(".")[1] in ("definition", "hs_definition", "extremes", "operators", "near_identical"):
        _c.repeat_twin = True  # repeated calls agree; scribbling over a returned array must not affect later calls (engine.call)
