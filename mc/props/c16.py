"""C16 — matrix / state-set predicates and linear-algebra helpers match their definitions.

Every clause enumerates a finite, explicitly stated space completely.  Predicates are decided on matrices that HAVE the
property by construction (U D U^dagger with catalogue unitaries and rational spectra, symmetrised exactly; all permutation
matrices; all circulants over a small alphabet; simplex-grid stochastic matrices; Vandermonde / Pascal matrices; ...), on
THE SAME objects perturbed in one entry / one eigenvalue by a known margin, and on property-preserving transforms of both.
The expected verdict always comes from the definition evaluated independently in ``mc/ref/predicates.py`` (three-valued:
True / False / inside-the-band -> not judged); "by construction" labels are cross-checked against that oracle (a
disagreement is a harness error, not a finding).  Helper identities are exact (prime-filled integer operands) wherever possible.
"""

from __future__ import annotations

import contextlib
import io
import itertools
from fractions import Fraction
from functools import lru_cache

import numpy as np

from mc import catalog as cat
from mc.engine import Clause, call, exc_text, indet, ok, viol
from mc.ref import predicates as P
from mc.ref import tensor_index as ti

ALG = 1e-9
SPEC = 1e-6

RULE = ("case = one point of a clause's finite configuration space, rebuilt from catalogue keys: (dimension, matrix family key, "
        "one-entry / one-eigenvalue perturbation (position x level z=1e-6 | m=5e-3*scale | M=0.2*scale), transform "
        "(id | transpose | unitary or orthogonal conjugation | scaling | permutation conjugation)) x every predicate variant "
        "of the clause's group (default tolerances, rtol-dominated, atol-dominated; option arguments); exhaustive families "
        "(Sym(n), circulants over {0,1,i}^n, simplex-grid stochastic matrices, 0/+-1 matrices for spark, partitions for "
        "majorisation, prime-filled operands of every conformable shape for vec/unvec/tensor); the expected verdict is the "
        "definition evaluated independently with a 100x margin on either side of the predicate's own tolerance (inside the "
        "band: not judged, counted as indeterminate); a predicate case is non-trivial iff d >= 2 and some predicate of the "
        "group holds on it or held on its unperturbed base (a near miss); a helper case is non-trivial iff the operands are "
        "not all 1x1 / scalar-like and the identity involves at least two different shapes or complex entries; "
        "states = distinct cases, transitions = toqito calls")
ASSUMPTIONS = [
    "numpy eigvalsh / svd / inv / @ / kron are correct to 1e-12 on matrices of dimension <= 36",
    "exact clauses use integer / Fraction arithmetic; float entries are converted exactly (every float is a dyadic rational)",
    "value domain is the finite matrix catalogue (structured + VERIF_SEED-derived generic unitaries), sizes 1..4 quick / 1..6 "
    "thorough; no closure argument to the continuum",
    "a boolean verdict is judged only when the independently evaluated defect is <= tol/100 (holds) or >= 100*tol (violated); "
    "entrywise tol = atol + rtol*|entry| as documented for the rtol/atol arguments",
    "where a docstring's prose and its own example / default disagree (is_projection on non-Hermitian idempotents, is_diagonal "
    "with a zero on the diagonal, is_diagonally_dominant ties with the argument omitted, is_totally_positive on rectangular "
    "matrices, calculate_vector_matrix_dimension on square matrices, has_same_dimension vector-vs-square-matrix, "
    "is_mutually_unbiased_basis on non-orthonormal blocks or fewer than two vectors) only inputs on which both readings agree "
    "are judged; the rest is counted as indeterminate(spec-ambiguous)",
]


def dims_for(tier):
    return (1, 2, 3, 4) if tier == "quick" else (1, 2, 3, 4, 5, 6)


def _mp():
    import toqito.matrix_props as mp
    return mp


def _mo():
    import toqito.matrix_ops as mo
    return mo


def _sp():
    import toqito.state_props as sp
    return sp


def is_boolish(x) -> bool:
    return isinstance(x, (bool, np.bool_))


def herm(m):
    return (m + m.conj().T) / 2


# ================================================================================================ unitaries / spectra
def ukeys_c(d, tier):
    if d == 1:
        return ["g0"]
    ks = ["F", "XZ", "g0"]
    if tier == "thorough":
        ks += ["ph", "g1"] + (["T"] if d == 2 else [])
    return ks


def ukeys_r(d, tier):
    if d == 1:
        return ["I"]
    ks = ["I", "X", "o0"]
    if tier == "thorough":
        ks += ["o1"] + (["H", "Ry"] if d == 2 else []) + (["P120"] if d == 3 else []) + (["HH", "CNOT"] if d == 4 else [])
    return ks


def unitary_keys(d, tier):
    """Catalogue unitaries offered to is_unitary / is_normal themselves."""
    if d == 1:
        return ["I", "g0"]
    ks = ["I", "F", "X", "XZ", "ph", "g0", "o0"]
    if d == 2:
        ks += ["H", "T"]
    if tier == "thorough":
        ks += ["Z", "g1", "o1"] + (["S", "Ry"] if d == 2 else []) + (["P120", "P201"] if d == 3 else []) + (["HH", "CNOT", "SWAP"] if d == 4 else [])
    return ks


def U(d, key):
    if key[0] == "o" and key[1:].isdigit():
        return cat.generic_orthogonal(d, int(key[1:]))
    u = cat.unitary(d, key)
    if float(np.max(np.abs(u.imag))) == 0.0:
        return np.ascontiguousarray(u.real)
    return u


def spectrum(d, name):
    if name == "pos":
        return [(k + 1) / 2 for k in range(d)]
    if name == "psd0":
        return [k / 2 for k in range(d)]
    if name == "ind":
        return [-1.0] + [(k + 1) / 2 for k in range(d - 1)]
    if name == "neg6":
        return [-1e-6] + [(k + 1) / 2 for k in range(d - 1)]
    if name == "proj":
        return [1.0 if k % 2 == 0 else 0.0 for k in range(d)]
    if name == "dens":
        t = d * (d + 1) / 2
        return [(d - k) / t for k in range(d)]
    if name == "densr":
        t = (d - 1) * d / 2
        return [(d - 1 - k) / t for k in range(d - 1)] + [0.0]
    if name == "pure":
        return [1.0] + [0.0] * (d - 1)
    if name == "near":
        return [1.0 - 1e-3, 1e-3] + [0.0] * (d - 2)
    if name == "ones":
        return [1.0] * d
    raise KeyError(name)


def spectra_names(d):
    out = ["pos", "psd0", "ind", "neg6", "proj", "dens", "pure", "ones"]
    if d >= 2:
        out += ["densr", "near"]
    return out


CSPEC = [1, 1j, -1 + 0.5j, 2 - 1j, 0.5, -2j]


# ================================================================================================ the matrix catalogue
def _perm_matrix(p, dtype=int):
    n = len(p)
    m = np.zeros((n, n), dtype=dtype)
    for i, j in enumerate(p):
        m[i, j] = 1
    return m


def _circulant(row):
    n = len(row)
    return np.array([[row[(j - i) % n] for j in range(n)] for i in range(n)])


def _vander(d):
    return np.array([[(i + 1) ** j for j in range(d)] for i in range(d)], dtype=np.int64)


def _pascal(d):
    from math import comb
    return np.array([[comb(i + j, i) for j in range(d)] for i in range(d)], dtype=np.int64)


@lru_cache(maxsize=None)
def _matrix(d: int, key: str, sd: int):
    parts = key.split(":")
    fam = parts[0]
    if fam == "udu":
        u = U(d, parts[1])
        return herm(u @ np.diag(spectrum(d, parts[2])) @ u.conj().T)
    if fam == "ah":
        u = U(d, parts[1])
        return 1j * herm(u @ np.diag(spectrum(d, parts[2])) @ u.conj().T)
    if fam == "nrm":
        u = U(d, parts[1])
        return u @ np.diag(CSPEC[:d]) @ u.conj().T
    if fam == "uni":
        return U(d, parts[1])
    if fam == "csym":
        a = cat.generic_matrix(d, d, int(parts[1]))
        return a + a.T
    if fam == "idem":
        m = np.zeros((d, d), dtype=np.int64)
        m[:, 0] = np.arange(1, d + 1)
        return m if parts[1] == "0" else np.eye(d, dtype=np.int64) - m
    if fam == "diag":
        return np.diag(spectrum(d, parts[1]))
    if fam == "cdiag":
        return np.diag(np.array(CSPEC[:d], dtype=complex))
    if fam == "sid":
        return 2.0 * np.eye(d)
    if fam == "zero":
        return np.zeros((d, d))
    if fam == "eye":
        return np.eye(d) if parts[1] == "f" else (np.eye(d, dtype=complex) if parts[1] == "c" else np.eye(d, dtype=np.int64))
    if fam == "perm":
        p = list(range(1, d)) + [0] if parts[1] == "cyc" else [1, 0] + list(range(2, d))
        return _perm_matrix(p[:d] if d > 1 else [0])
    if fam == "circ":
        row = list(range(1, d + 1)) if parts[1] == "0" else [1 + 1j * k * k - k for k in range(d)]
        return _circulant(row)
    if fam == "lcirc":
        row = list(range(1, d + 1))
        return np.array([[row[(j + i) % d] for j in range(d)] for i in range(d)])
    if fam == "stoch":
        if parts[1] == "r":  # right stochastic, not left (d >= 2)
            m = np.zeros((d, d))
            for i in range(d):
                m[i, 0] = 0.5
                m[i, (i + 1) % d] += 0.5
            return m
        p1 = _perm_matrix(list(range(1, d)) + [0]).astype(float)
        return 0.75 * np.eye(d) + 0.25 * p1  # doubly stochastic, not symmetric for d >= 3
    if fam == "jordan":
        return np.eye(d, dtype=np.int64) + np.diag(np.ones(d - 1, dtype=np.int64), 1)
    if fam == "nilp":
        return np.diag(np.ones(d - 1, dtype=np.int64), 1)
    if fam == "gen":
        return cat.generic_matrix(d, d, int(parts[1]), real=(parts[2] == "r"))
    if fam == "int":
        return np.arange(1, d * d + 1, dtype=np.int64).reshape(d, d)
    if fam == "vander":
        return _vander(d)
    if fam == "pascal":
        return _pascal(d)
    if fam == "dd":
        m = -np.ones((d, d), dtype=np.int64)
        m[np.arange(d), np.arange(d)] = d if parts[1] == "strict" else d - 1
        if d >= 2:
            m[0, 1] = 1  # signs vary
        if parts[1] == "tie1" and d >= 2:  # only one row ties
            m[np.arange(1, d), np.arange(1, d)] = d
        return m
    if fam == "flat":
        return np.ones((d, d)) / d
    if fam == "rect":
        if parts[1] == "wide":
            return np.eye(d, d + 1)
        return cat.generic_matrix(d + 1, d, 3)
    raise KeyError(key)


def matrix(d, key):
    return _matrix(d, key, cat.seed()).copy()


def catalogue_keys(d, tier):
    ks = []
    for u in ukeys_c(d, tier) + ukeys_r(d, tier):
        for s in spectra_names(d):
            ks.append(f"udu:{u}:{s}")
    for u in (ukeys_c(d, tier)[-1], ukeys_r(d, tier)[-1]):
        for s in ("pos", "ind"):
            ks.append(f"ah:{u}:{s}")
    for u in dict.fromkeys([ukeys_c(d, tier)[0], ukeys_c(d, tier)[-1], ukeys_r(d, tier)[-1]]):
        ks.append(f"nrm:{u}")
    ks += [f"uni:{k}" for k in unitary_keys(d, tier)]
    ks += ["csym:0", "csym:1", "idem:0", "idem:1", "diag:pos", "diag:ind", "diag:psd0", "cdiag", "sid", "zero", "eye:f", "eye:c", "eye:i",
           "perm:cyc", "perm:swap", "circ:0", "circ:1", "lcirc", "stoch:r", "stoch:d", "jordan", "nilp", "gen:0:c", "gen:0:r", "int",
           "vander", "pascal", "dd:strict", "dd:tie", "dd:tie1", "flat", "rect:wide", "rect:tall"]
    if tier == "thorough":
        ks += ["gen:1:c", "gen:1:r"]
    return list(dict.fromkeys(ks))


# ------------------------------------------------------------------------------------------------ perturbations / transforms
LEVELS = {"z": None, "m": 5e-3, "M": 0.2}


def perturb(M, pert):
    if pert is None:
        return M
    pos, lev = pert
    r, c = M.shape
    cplx = np.iscomplexobj(M)
    s = max(1.0, float(np.max(np.abs(M)))) if M.size else 1.0
    e = 1e-6 if lev == "z" else LEVELS[lev] * s
    out = np.array(M, dtype=complex if cplx else float)
    if pos == "u":
        i, j, v = 0, min(1, c - 1), e
    elif pos == "l":
        i, j, v = r - 1, 0, (-1j * e if cplx else -e)
    else:
        k = min(1, r - 1, c - 1)
        i, j, v = k, k, (1j * e if cplx else e)
    out[i, j] += v
    return out


def perts_for(d):
    poss = ["d"] if d == 1 else ["u", "l", "d"]
    return [[p, l] for p in poss for l in ("z", "m", "M")]


def transform(M, xf):
    if xf == "id":
        return M
    if xf == "T":
        return M.T.copy()
    if xf == "sc":
        return 2.5 * M
    r, c = M.shape
    if xf == "pc":
        pr = _perm_matrix(list(range(1, r)) + [0]) if r > 1 else np.eye(1, dtype=int)
        pc = _perm_matrix(list(range(1, c)) + [0]) if c > 1 else np.eye(1, dtype=int)
        return pr @ M @ pc.T
    if xf == "uc":
        if np.iscomplexobj(M):
            wr, wc = cat.generic_unitary(r, 1), cat.generic_unitary(c, 1)
        else:
            wr, wc = cat.generic_orthogonal(r, 1), cat.generic_orthogonal(c, 1)
        out = wr @ M @ wc.conj().T
        if r == c and np.array_equal(M, M.conj().T):
            out = herm(out)
        elif r == c and np.array_equal(M, -M.conj().T):
            out = (out - out.conj().T) / 2
        return out
    raise KeyError(xf)


XFS = ("T", "uc", "sc", "pc")


def config_space(d, tier):
    """(key, pert, xf): every perturbation untransformed; every transform on the unperturbed and on one perturbed version
    (quick) / on every perturbed version (thorough)."""
    for key in catalogue_keys(d, tier):
        yield key, None, "id"
        for pert in perts_for(d):
            yield key, pert, "id"
        for xf in XFS:
            yield key, None, xf
            if tier == "thorough":  # full product transform x perturbation
                for pert in perts_for(d):
                    yield key, pert, xf
            else:
                yield key, ["u" if d > 1 else "d", "m"], xf


def final_matrix(d, key, pert, xf):
    return transform(perturb(matrix(d, key), pert), xf)


# ================================================================================================ predicate variants
TOLSETS = {"def": {}, "r": {"rtol": 1e-3, "atol": 1e-12}, "a": {"rtol": 1e-12, "atol": 1e-3}}


def _tolcall(fn, M, ts):
    if ts == "def":
        return call(fn, M)
    if ts == "r":
        return call(fn, M, 1e-3, 1e-12)  # positional
    return call(fn, M, rtol=1e-12, atol=1e-3)


def _tv(name, oracle):
    """Three variants (default / rtol-dominated / atol-dominated) of a predicate taking (mat, rtol, atol)."""
    out = []
    for ts in ("def", "r", "a"):
        out.append((f"{name}[{ts}]", name, (lambda mp, M, n=name, t=ts: _tolcall(getattr(mp, n), M, t)),
                    (lambda M, o=oracle, t=ts: o(M, **TOLSETS[t]))))
    return out


def _pv(label, name, caller, oracle):
    return [(label, name, caller, oracle)]


GROUPS = {
    "hermitian": (_pv("is_square", "is_square", lambda mp, M: call(mp.is_square, M), lambda M: P.square(M))
                  + _tv("is_hermitian", P.hermitian_verdict) + _tv("is_anti_hermitian", P.anti_hermitian_verdict)
                  + _tv("is_symmetric", P.symmetric_verdict)),
    "unitary": _tv("is_normal", P.normal_verdict) + _tv("is_unitary", P.unitary_verdict) + _tv("is_identity", P.identity_verdict),
    "idempotent": _tv("is_idempotent", P.idempotent_verdict) + _tv("is_projection", P.projection_verdict),
    "definite": (_tv("is_positive_semidefinite", P.psd_verdict)
                 + _pv("is_positive_definite", "is_positive_definite", lambda mp, M: call(mp.is_positive_definite, M), P.pd_verdict)
                 + _pv("is_density", "is_density", lambda mp, M: call(mp.is_density, M), P.density_verdict)),
    "entrywise": (_pv("is_diagonal", "is_diagonal", lambda mp, M: call(mp.is_diagonal, M), P.diagonal_verdict)
                  + _pv("is_diagonally_dominant[omitted]", "is_diagonally_dominant", lambda mp, M: call(mp.is_diagonally_dominant, M),
                        lambda M: P.diagonally_dominant_verdict(M, None))
                  + _pv("is_diagonally_dominant[strict]", "is_diagonally_dominant", lambda mp, M: call(mp.is_diagonally_dominant, M, True),
                        lambda M: P.diagonally_dominant_verdict(M, True))
                  + _pv("is_diagonally_dominant[weak]", "is_diagonally_dominant", lambda mp, M: call(mp.is_diagonally_dominant, M, is_strict=False),
                        lambda M: P.diagonally_dominant_verdict(M, False))
                  + _pv("is_permutation", "is_permutation", lambda mp, M: call(mp.is_permutation, M), P.permutation_verdict)
                  + _pv("is_circulant", "is_circulant", lambda mp, M: call(mp.is_circulant, M), P.circulant_verdict)
                  + _pv("is_nonnegative", "is_nonnegative", lambda mp, M: call(mp.is_nonnegative, M), lambda M: P.nonnegative_verdict(M))
                  + _pv("is_nonnegative[doubly]", "is_nonnegative", lambda mp, M: call(mp.is_nonnegative, M, "doubly"),
                        lambda M: P.nonnegative_verdict(M, "doubly"))
                  + _pv("is_positive", "is_positive", lambda mp, M: call(mp.is_positive, M), P.positive_entries_verdict)
                  + _pv("is_stochastic[right]", "is_stochastic", lambda mp, M: call(mp.is_stochastic, M, "right"), lambda M: P.stochastic_verdict(M, "right"))
                  + _pv("is_stochastic[left]", "is_stochastic", lambda mp, M: call(mp.is_stochastic, M, "left"), lambda M: P.stochastic_verdict(M, "left"))
                  + _pv("is_stochastic[doubly]", "is_stochastic", lambda mp, M: call(mp.is_stochastic, M, mat_type="doubly"),
                        lambda M: P.stochastic_verdict(M, "doubly"))),
}

REAL_ONLY = {"is_nonnegative", "is_nonnegative[doubly]", "is_positive", "is_stochastic[right]", "is_stochastic[left]", "is_stochastic[doubly]"}

# property-preserving transforms (truth value identical before / after, both directions) per predicate name
PRESERVE = {
    "is_square": {"T", "uc", "sc", "pc"}, "is_hermitian": {"T", "uc", "sc", "pc"}, "is_anti_hermitian": {"T", "uc", "sc", "pc"},
    "is_symmetric": {"T", "sc", "pc", "uc_real"}, "is_normal": {"T", "uc", "sc", "pc"}, "is_unitary": {"T", "uc", "pc"},
    "is_identity": {"T", "uc", "pc"}, "is_idempotent": {"T", "uc", "pc"}, "is_projection": {"T", "uc", "pc"},
    "is_positive_semidefinite": {"T", "uc", "sc", "pc"}, "is_positive_definite": {"T", "uc", "sc", "pc"}, "is_density": {"T", "uc", "pc"},
    "is_diagonal": {"T", "sc", "pc"}, "is_diagonally_dominant": {"sc", "pc"}, "is_permutation": {"T", "pc"},
    "is_circulant": {"T", "sc", "pc"}, "is_nonnegative": {"T", "sc", "pc"}, "is_positive": {"T", "sc", "pc"},
    "is_stochastic": {"pc"},
}

# labels "by construction": family -> predicate variants that must hold on the unperturbed, untransformed object
def labels_for(d, key):
    parts = key.split(":")
    fam = parts[0]
    L = set()
    if fam == "udu":
        L |= {"is_square", "is_hermitian[def]", "is_normal[def]"}
        if np.isrealobj(matrix(d, key)):
            L |= {"is_symmetric[def]"}
        s = parts[2]
        if s in ("pos", "dens", "ones"):
            L |= {"is_positive_definite", "is_positive_semidefinite[def]"}
        if s in ("psd0", "proj", "densr", "pure", "near"):
            L |= {"is_positive_semidefinite[def]"}
        if s in ("proj", "pure", "ones"):
            L |= {"is_idempotent[def]", "is_projection[def]"}
        if s in ("dens", "densr", "pure", "near"):
            L |= {"is_density"}
        if s == "ones":
            L |= {"is_identity[def]", "is_unitary[def]"}
    elif fam == "ah":
        L |= {"is_anti_hermitian[def]", "is_normal[def]"}
    elif fam == "nrm":
        L |= {"is_normal[def]"}
    elif fam == "uni":
        L |= {"is_unitary[def]", "is_normal[def]"}
    elif fam == "csym":
        L |= {"is_symmetric[def]"}
    elif fam == "idem":
        L |= {"is_idempotent[def]"}
    elif fam in ("diag", "cdiag", "sid"):
        L |= {"is_normal[def]"}
        if fam == "sid" or (fam == "diag" and parts[1] == "pos") or fam == "cdiag":
            L |= {"is_diagonal"}
    elif fam == "eye":
        L |= {"is_identity[def]", "is_unitary[def]", "is_diagonal", "is_permutation", "is_projection[def]", "is_positive_definite",
              "is_stochastic[doubly]", "is_circulant", "is_diagonally_dominant[strict]"}
    elif fam == "perm":
        L |= {"is_permutation", "is_unitary[def]", "is_stochastic[doubly]", "is_nonnegative"}
    elif fam == "circ":
        L |= {"is_circulant", "is_normal[def]"}
    elif fam == "stoch":
        L |= {"is_stochastic[right]", "is_nonnegative"}
        if parts[1] == "d":
            L |= {"is_stochastic[doubly]", "is_stochastic[left]", "is_circulant"}
    elif fam == "dd":
        L |= {"is_diagonally_dominant[weak]"}
        if parts[1] == "strict":
            L |= {"is_diagonally_dominant[strict]", "is_diagonally_dominant[omitted]"}
    elif fam == "flat":
        L |= {"is_projection[def]", "is_density", "is_stochastic[doubly]", "is_circulant", "is_positive", "is_nonnegative[doubly]",
              "is_symmetric[def]"}
    elif fam in ("vander", "pascal", "int"):
        L |= {"is_positive", "is_nonnegative"}
    return L


@lru_cache(maxsize=None)
def _oracle_on(group, d, key, pert_s, xf, sd):
    pert = None if pert_s == "" else pert_s.split(",")
    M = final_matrix(d, key, pert, xf)
    return tuple(o(M) if not (lab in REAL_ONLY and np.iscomplexobj(M)) else "complex" for lab, _, _, o in GROUPS[group])


def oracle_on(group, d, key, pert, xf):
    return _oracle_on(group, d, key, "" if pert is None else ",".join(pert), xf, cat.seed())


def predicate_cases(group):
    def gen(tier, seed):
        for d in dims_for(tier):
            for key, pert, xf in config_space(d, tier):
                yield {"group": group, "d": d, "key": key, "pert": pert, "xf": xf}
    return gen


def predicate_check(case):
    mp = _mp()
    group, d, key, pert, xf = case["group"], case["d"], case["key"], case["pert"], case["xf"]
    variants = GROUPS[group]
    M = final_matrix(d, key, pert, xf)
    snap = M.copy()
    exp = oracle_on(group, d, key, pert, xf)
    base = oracle_on(group, d, key, None, "id")
    pre = oracle_on(group, d, key, pert, "id")
    # harness self-checks: construction labels and transform invariance of the oracle itself
    if pert is None and xf == "id":
        lab = labels_for(d, key)
        for (label, _, _, _), e in zip(variants, exp):
            if label in lab and e is not True and e != "complex":
                raise AssertionError(f"construction label {label} on {key} (d={d}) disagrees with the oracle: {e}")
    if xf != "id":
        real = np.isrealobj(matrix(d, key)) and np.isrealobj(perturb(matrix(d, key), pert))
        for (label, name, _, _), e0, e1 in zip(variants, pre, exp):
            keep = PRESERVE.get(name, set())
            if label.endswith(("[r]", "[a]")) or (name == "is_stochastic" and "doubly" not in label and xf == "T"):
                continue
            pres = xf in keep or (xf == "uc" and real and "uc_real" in keep) or (name == "is_stochastic" and "doubly" in label and xf == "T")
            if pres and isinstance(e0, bool) and isinstance(e1, bool) and e0 != e1:
                raise AssertionError(f"oracle of {label} not invariant under {xf} on {key} (d={d}, pert={pert}): {e0} -> {e1}")
    fails, obs, undecided, ambiguous, judged = [], [], 0, 0, 0
    for (label, name, caller, _), e in zip(variants, exp):
        if e == "complex":
            continue
        got, exc = caller(mp, M)
        if not np.array_equal(M, snap):
            return viol(f"{label} modified its argument", site=f"{name}:aliasing")
        if exc is not None:
            fails.append((label, name, "exception", exc_text(exc), e))
            continue
        if not is_boolish(got):
            fails.append((label, name, "type", f"returned {type(got).__name__} instead of a boolean", e))
            continue
        obs.append(bool(got))
        if e is None:
            undecided += 1
            continue
        if e == "ambiguous":
            ambiguous += 1
            continue
        judged += 1
        if bool(got) != e:
            fails.append((label, name, "verdict", bool(got), e))
    if fails:
        label, name, kind, g, e = fails[0]
        return viol(f"{label} on {key} (d={d}, pert={pert}, xf={xf}): {kind} {g!r}, definition says {e!r}; all failing variants in this case: "
                    + ", ".join(f[0] for f in fails), site=f"{name}:{kind}", observed=g if not isinstance(g, str) else g[:200], expected=e)
    if judged == 0:
        return indet("spec-ambiguous" if ambiguous else "inside-margin", calls=len(variants))
    nontriv = d >= 2 and (any(e is True for e in exp) or any(b is True and e is False for b, e in zip(base, exp)))
    return ok(nontriv, obs=obs, calls=len(variants), judged=judged, band=undecided, ambiguous=ambiguous)


# ================================================================================================ helpers for the remaining clauses
def _quiet(fn, *a, **k):
    """call() with stdout suppressed (vectors_from_gram_matrix prints on its eigen branch)."""
    buf = io.StringIO()
    with contextlib.redirect_stdout(buf):
        return call(fn, *a, **k)


def _verdict_result(label, site, got, exc, e, nontrivial=True, **info):
    """Common three-valued comparison of one boolean toqito verdict with the oracle value e."""
    if exc is not None:
        return viol(f"{label}: raised {exc_text(exc)}; definition says {e!r}", site=f"{site}:exception", observed=exc_text(exc)[:160], expected=e)
    if not is_boolish(got):
        return viol(f"{label}: returned {type(got).__name__}, not a boolean", site=f"{site}:type", observed=repr(got)[:80], expected=e)
    if e is None:
        return indet("inside-margin")
    if e == "ambiguous":
        return indet("spec-ambiguous")
    if bool(got) != e:
        return viol(f"{label}: verdict {bool(got)}, definition says {e}", site=f"{site}:verdict", observed=bool(got), expected=e)
    return ok(nontrivial, obs=bool(got), **info)


def _first_bad(results):
    """Combine sub-results of one case: first violation wins; ok if anything was judged; else the first indeterminate."""
    viols = [r for r in results if r["status"] == "violation"]
    if viols:
        v = viols[0]
        if len(viols) > 1:
            v["detail"] += f"  [+{len(viols) - 1} more failing sub-check(s) in this case]"
        return v
    oks = [r for r in results if r["status"] == "ok"]
    if oks:
        return ok(any(r["nontrivial"] for r in oks), obs=[r.get("obs") for r in oks], calls=len(results))
    return results[0] if results else indet("nothing judged")


def primes_matrix(r, c, offset=0, cplx=False):
    ps = ti.primes(offset + 2 * r * c + 2)[offset:]
    if cplx:
        return np.array([[ps[2 * (i * c + j)] + 1j * ps[2 * (i * c + j) + 1] for j in range(c)] for i in range(r)], dtype=complex)
    return np.array([[ps[i * c + j] for j in range(c)] for i in range(r)], dtype=np.int64)


def same_array(a, b):
    a, b = np.asarray(a), np.asarray(b)
    return a.shape == b.shape and bool(np.array_equal(a, b))


# ================================================================================================ C16.families
def _simplex_rows(n, N):
    def rec(rem, k):
        if k == 1:
            yield (rem,)
            return
        for f in range(rem, -1, -1):
            for rest in rec(rem - f, k - 1):
                yield (f,) + rest
    return list(rec(N, n))


def families_cases(tier, seed):
    # permutation matrices: all of Sym(n), n <= 4, two dtypes, perturbations
    for n in (1, 2, 3, 4) + ((5,) if tier == "thorough" else ()):
        for p in itertools.permutations(range(n)):
            for dt in ("int", "float"):
                for pert in ("none", "one+", "zero+", "two", "neg"):
                    if dt == "int" and pert in ("one+", "zero+"):
                        continue
                    yield {"fam": "perm", "p": list(p), "dtype": dt, "pert": pert}
    # all maps f:[n]->[n] as 0/1 matrices with one 1 per row (permutation iff bijective)
    for n in (1, 2, 3) + ((4,) if tier == "thorough" else ()):
        for f in itertools.product(range(n), repeat=n):
            yield {"fam": "map", "f": list(f)}
    # products of permutations
    for n in (2, 3):
        for p in itertools.permutations(range(n)):
            for q in itertools.permutations(range(n)):
                yield {"fam": "permprod", "p": list(p), "q": list(q)}
    # circulants: all first rows over {0,1,i}^n
    for n in (1, 2, 3) + ((4,) if tier == "thorough" else ()):
        for row in itertools.product(range(3), repeat=n):
            for kind in ("right", "left", "pert_m", "pert_z", "scaled", "T"):
                yield {"fam": "circ", "row": list(row), "kind": kind}
    for row1 in itertools.product(range(3), repeat=3):
        for row2 in ((1, 2, 0), (0, 1, 2), (2, 2, 1)):
            yield {"fam": "circprod", "row": list(row1), "row2": list(row2)}
    # stochastic matrices from simplex grids
    grids = [(1, 2), (2, 2), (2, 4), (3, 2)] + ([(3, 3)] if tier == "thorough" else [])
    for n, N in grids:
        rows = _simplex_rows(n, N)
        for idx in itertools.product(range(len(rows)), repeat=n):
            yield {"fam": "stoch", "n": n, "N": N, "rows": list(idx), "pert": "none"}
            if sum(idx) % 3 == 0:
                for pert in ("sum+", "neg", "T"):
                    yield {"fam": "stoch", "n": n, "N": N, "rows": list(idx), "pert": pert}
    # totally positive matrices
    for n in (1, 2, 3, 4) + ((5,) if tier == "thorough" else ()):
        for base in ("vander", "vander2", "pascal", "cauchy", "expk"):
            for mod in ("none", "T", "scale", "rev", "rowswap", "negentry", "cplx", "imag", "bump"):
                for sizes in (None, [1], [2], [1, 2], [n]):
                    if sizes is not None and max(sizes) > n:
                        continue
                    for tol in (None, 1e-3):
                        if tol is not None and (sizes is not None or mod not in ("none", "bump")):
                            continue
                        yield {"fam": "tp", "n": n, "base": base, "mod": mod, "sizes": sizes, "tol": tol}
        for base in ("vander", "pascal"):
            for mod in ("none", "negentry"):
                if n >= 2:
                    yield {"fam": "tp", "n": n, "base": base, "mod": mod, "sizes": None, "tol": None, "rect": True}
    # diagonal dominance with exact ties: all 2x2 matrices over {-1,0,1,2}, thinned 3x3
    for ents in itertools.product((-1, 0, 1, 2), repeat=4):
        for strict in (None, True, False):
            yield {"fam": "dd", "n": 2, "ents": list(ents), "strict": strict}
    step = 97 if tier == "quick" else 11
    for k, ents in enumerate(itertools.product((-1, 0, 1, 2), repeat=9)):
        if k % step == 0:
            for strict in (None, True, False):
                yield {"fam": "dd", "n": 3, "ents": list(ents), "strict": strict}


def _tp_matrix(case):
    n, base = case["n"], case["base"]
    if base == "vander":
        M = _vander(n).astype(float)
    elif base == "vander2":
        M = np.array([[float((2 ** i)) ** j for j in range(n)] for i in range(n)])
    elif base == "pascal":
        M = _pascal(n).astype(float)
    elif base == "cauchy":
        M = np.array([[1.0 / (i + j + 1) for j in range(n)] for i in range(n)]) * 50.0  # Hilbert matrix (Cauchy, TP), scaled
    else:
        M = np.array([[np.exp(0.5 * (i + 1) * (j + 1)) for j in range(n)] for i in range(n)])  # exp kernel: totally positive
    if case.get("rect"):
        M = M[: n - 1, :]
    mod = case["mod"]
    if mod == "T":
        M = M.T.copy()
    elif mod == "scale":
        M = 2.5 * M
    elif mod == "rev":
        M = M[::-1, ::-1].copy()
    elif mod == "rowswap" and M.shape[0] >= 2:
        M = M[[1, 0] + list(range(2, M.shape[0]))]
    elif mod == "negentry":
        M = M.copy()
        M[0, -1] = -M[0, -1]
    elif mod == "cplx":
        M = M.astype(complex)
    elif mod == "imag":
        M = M.astype(complex)
        M[0, 0] += 0.01j
    elif mod == "bump":  # raise the top-right corner so that a 2x2 minor becomes negative by a margin (n >= 2)
        M = M.copy()
        if n >= 2:
            M[0, -1] = M[0, 0] * M[1, -1] / M[1, 0] + 0.5 if not case.get("rect") else M[0, -1] + 0.5
    return M


def families_check(case):
    mp = _mp()
    fam = case["fam"]
    if fam in ("perm", "map", "permprod"):
        if fam == "perm":
            M = _perm_matrix(case["p"], dtype=int if case["dtype"] == "int" else float)
            n = M.shape[0]
            pert = case["pert"]
            i0, j0 = 0, case["p"][0]
            if pert == "one+":
                M[i0, j0] += 1e-6
            elif pert == "zero+":
                if n == 1:
                    M[0, 0] -= 1e-6
                else:
                    M[0, (j0 + 1) % n] = 1e-6
            elif pert == "two":
                M[i0, j0] = 2
            elif pert == "neg" and n >= 2:
                M[0, (j0 + 1) % n] = -1
                M[0, j0] = 2
        elif fam == "map":
            f = case["f"]
            M = np.zeros((len(f), len(f)), dtype=int)
            for i, j in enumerate(f):
                M[i, j] = 1
        else:
            M = _perm_matrix(case["p"]) @ _perm_matrix(case["q"])
        snap = M.copy()
        res = []
        for label, site, fn, args, e in (
            ("is_permutation", "is_permutation", mp.is_permutation, (), P.permutation_verdict(M)),
            ("is_stochastic[right]", "is_stochastic", mp.is_stochastic, ("right",), P.stochastic_verdict(M, "right")),
            ("is_stochastic[left]", "is_stochastic", mp.is_stochastic, ("left",), P.stochastic_verdict(M, "left")),
            ("is_stochastic[doubly]", "is_stochastic", mp.is_stochastic, ("doubly",), P.stochastic_verdict(M, "doubly")),
            ("is_unitary", "is_unitary", mp.is_unitary, (), P.unitary_verdict(M)),
        ):
            got, exc = call(fn, M, *args)
            res.append(_verdict_result(f"{label} on {fam} matrix {M.tolist()}", site, got, exc, e, nontrivial=M.shape[0] >= 2))
        if fam != "perm" or case["pert"] == "none":
            if fam in ("perm", "permprod") and P.permutation_verdict(M) is not True:
                raise AssertionError("permutation matrix by construction not recognised by the oracle")
        if not np.array_equal(M, snap):
            return viol("argument modified", site="is_permutation:aliasing")
        return _first_bad(res)
    if fam in ("circ", "circprod"):
        alpha = [0, 1, 1j]
        row = [alpha[k] for k in case["row"]]
        n = len(row)
        if fam == "circprod":
            M = _circulant(row) @ _circulant([1 + k for k in case["row2"]]) + _circulant([1 + k for k in case["row2"]])
            by_construction = True
        else:
            kind = case["kind"]
            M = _circulant(row)
            by_construction = kind in ("right", "scaled", "T")
            if kind == "left":
                M = np.array([[row[(j + i) % n] for j in range(n)] for i in range(n)])
            elif kind in ("pert_m", "pert_z"):
                M = np.array(M, dtype=complex)
                M[n - 1, 0] += 5e-3 if kind == "pert_m" else 1e-6
            elif kind == "scaled":
                M = (2 - 1j) * np.array(M, dtype=complex)
            elif kind == "T":
                M = M.T.copy()
        e = P.circulant_verdict(M)
        if by_construction and e is not True:
            raise AssertionError("circulant by construction not recognised by the oracle")
        got, exc = call(mp.is_circulant, M)
        r1 = _verdict_result(f"is_circulant on {M.tolist()}", "is_circulant", got, exc, e, nontrivial=n >= 2)
        got, exc = call(mp.is_normal, M)
        r2 = _verdict_result(f"is_normal on (perturbed) circulant {M.tolist()}", "is_normal", got, exc, P.normal_verdict(M), nontrivial=n >= 2)
        return _first_bad([r1, r2])
    if fam == "stoch":
        n, N = case["n"], case["N"]
        rows = _simplex_rows(n, N)
        F = [[Fraction(x, N) for x in rows[i]] for i in case["rows"]]
        pert = case["pert"]
        M = np.array([[float(x) for x in r] for r in F])
        exact = {"right": True, "left": all(sum(F[i][j] for i in range(n)) == 1 for j in range(n))}
        exact["doubly"] = exact["left"]
        if pert == "sum+":
            M[0, 0] += 1e-3
        elif pert == "neg":
            j = int(np.argmin(M[0]))
            k = int(np.argmax(M[0]))
            if j == k:  # n == 1
                M[0, 0] = -1e-6
            else:
                M[0, j] -= 1e-6
                M[0, k] += 1e-6
        elif pert == "T":
            M = M.T.copy()
            exact = {"left": True, "right": exact["left"], "doubly": exact["left"]}
        res = []
        for t in ("right", "left", "doubly"):
            e = P.stochastic_verdict(M, t)
            if pert in ("none", "T") and e != exact[t]:
                raise AssertionError(f"Fraction truth {exact[t]} and float oracle {e} disagree for {t}")
            got, exc = call(mp.is_stochastic, M, t)
            res.append(_verdict_result(f"is_stochastic[{t}] on {M.tolist()}", "is_stochastic", got, exc, e, nontrivial=n >= 2))
        got, exc = call(mp.is_nonnegative, M)
        res.append(_verdict_result(f"is_nonnegative on {M.tolist()}", "is_nonnegative", got, exc, P.nonnegative_verdict(M), nontrivial=n >= 2))
        return _first_bad(res)
    if fam == "tp":
        M = _tp_matrix(case)
        sizes, tol = case["sizes"], case["tol"]
        e = P.totally_positive_verdict(M, tol if tol is not None else 1e-6, sizes)
        if case["mod"] in ("none", "T", "scale", "rev", "cplx") and tol is None and e not in (True, "ambiguous"):
            raise AssertionError(f"totally positive by construction, oracle says {e}: {case}")
        snap = M.copy()
        kw = {}
        if tol is not None:
            kw["tol"] = tol
        if sizes is not None:
            kw["sub_sizes"] = list(sizes)
        got, exc = call(mp.is_totally_positive, M, **kw)
        if not np.array_equal(M, snap) or (sizes is not None and kw["sub_sizes"] != list(sizes)):
            return viol("is_totally_positive modified an argument", site="is_totally_positive:aliasing")
        return _verdict_result(f"is_totally_positive({case['base']} n={case['n']} mod={case['mod']} sizes={sizes} tol={tol})", "is_totally_positive",
                               got, exc, e, nontrivial=case["n"] >= 2)
    if fam == "dd":
        n = case["n"]
        M = np.array(case["ents"], dtype=np.int64).reshape(n, n)
        strict = case["strict"]
        e = P.diagonally_dominant_verdict(M, strict)
        got, exc = call(mp.is_diagonally_dominant, M) if strict is None else call(mp.is_diagonally_dominant, M, strict)
        gaps = P.dd_gap(M)
        return _verdict_result(f"is_diagonally_dominant({M.tolist()}, is_strict={strict})", "is_diagonally_dominant", got, exc, e,
                               nontrivial=bool(np.any(gaps == 0) or np.all(gaps > 0)))
    raise KeyError(fam)


# ================================================================================================ C16.pseudo
def _pu_matrix(d, p, q, kind):
    """Pseudo-unitary for signature (p, q) by construction."""
    def blk(k1, k2):
        out = np.zeros((d, d), dtype=complex)
        if p:
            out[:p, :p] = U(p, k1 if p > 1 else "g0")
        if q:
            out[p:, p:] = U(q, k2 if q > 1 else "g0")
        return out

    def hyp(t, phase):
        out = np.eye(d, dtype=complex)
        if p and q:
            a, b = 0, d - 1
            out[a, a] = out[b, b] = np.cosh(t)
            out[a, b] = np.sinh(t) * phase
            out[b, a] = np.sinh(t) * np.conj(phase)
        return out
    if kind == "blk":
        return blk("F", "g0")
    if kind == "hyp":
        return hyp(1.0, 1.0)
    if kind == "hypc":
        return hyp(0.5, np.exp(0.7j))
    if kind == "prod":
        return blk("g0", "F") @ hyp(0.5, np.exp(0.7j)) @ blk("F", "g0")
    if kind == "inv":
        return np.linalg.inv(blk("g0", "F") @ hyp(0.5, np.exp(0.7j)))
    if kind == "dag":
        return (blk("g0", "F") @ hyp(1.0, 1j)).conj().T
    raise KeyError(kind)


def _eta(d, key):
    if key.startswith("sig"):
        p = int(key[3:])
        return np.diag([1.0] * p + [-1.0] * (d - p))
    w = U(d, "g0" if key == "gen" else "o0")
    vals = [(-1) ** k * (k + 1.0) for k in range(d)]
    return herm(w @ np.diag(vals) @ w.conj().T)


def pseudo_cases(tier, seed):
    for d in dims_for(tier):
        for p in range(d + 1):
            q = d - p
            for kind in ("blk", "hyp", "hypc", "prod", "inv", "dag"):
                if kind != "blk" and (p == 0 or q == 0):
                    continue
                for pert in [None] + perts_for(d):
                    for ts in ("def", "r", "a"):
                        if ts != "def" and pert is not None and pert[1] == "m":
                            continue
                        for sig in ("right", "swapped", "shifted", "short"):
                            if sig != "right" and (pert is not None or ts != "def"):
                                continue
                            yield {"fn": "pu", "d": d, "p": p, "q": q, "kind": kind, "pert": pert, "ts": ts, "sig": sig}
        etas = [f"sig{p}" for p in range(d + 1)] + ["gen", "genr"]
        for eta in etas:
            for skey in ("udu:F:ind" if d > 1 else "udu:g0:ind", "udu:g0:pos", "udu:o0:ind" if d > 1 else "udu:I:ind"):
                for kind in ("etainv_s", "plain_s", "commuting"):
                    for pert in [None] + perts_for(d):
                        for ts in ("def", "r", "a"):
                            if ts != "def" and pert is not None and pert[1] == "m":
                                continue
                            if kind != "etainv_s" and (pert is not None or ts != "def"):
                                continue
                            yield {"fn": "ph", "d": d, "eta": eta, "s": skey, "kind": kind, "pert": pert, "ts": ts}


def pseudo_check(case):
    mp = _mp()
    d, pert, ts = case["d"], case["pert"], case["ts"]
    tol = TOLSETS[ts]
    if case["fn"] == "pu":
        p, q = case["p"], case["q"]
        A = perturb(_pu_matrix(d, p, q, case["kind"]), pert)
        if case["sig"] == "swapped":
            p, q = q, p
        elif case["sig"] == "shifted":
            p, q = (p + 1, q - 1) if q > 0 else (p - 1, q + 1)
        elif case["sig"] == "short":
            q = q + 1
        e = P.pseudo_unitary_verdict(A, p, q, **tol)
        if pert is None and case["sig"] == "right" and ts == "def" and e is not True:
            raise AssertionError(f"pseudo-unitary by construction, oracle says {e}: {case}")
        snap = A.copy()
        if ts == "def":
            got, exc = call(mp.is_pseudo_unitary, A, p, q)
        elif ts == "r":
            got, exc = call(mp.is_pseudo_unitary, A, p, q, 1e-3, 1e-12)
        else:
            got, exc = call(mp.is_pseudo_unitary, A, p=p, q=q, rtol=1e-12, atol=1e-3)
        if not np.array_equal(A, snap):
            return viol("is_pseudo_unitary modified its argument", site="is_pseudo_unitary:aliasing")
        nontriv = d >= 2 and case["p"] > 0 and case["q"] > 0
        return _verdict_result(f"is_pseudo_unitary({case['kind']}, p={p}, q={q}, pert={pert}, tol={ts})", "is_pseudo_unitary", got, exc, e, nontrivial=nontriv)
    eta = _eta(d, case["eta"])
    S = matrix(d, case["s"])
    if case["kind"] == "etainv_s":
        H = np.linalg.inv(eta) @ S
    elif case["kind"] == "plain_s":
        H = S.astype(complex)
    else:  # a polynomial in eta is Hermitian and commutes with eta: pseudo-Hermitian
        H = eta @ eta + 2 * eta
    H = perturb(np.asarray(H), pert)
    e = P.pseudo_hermitian_verdict(H, eta, **tol)
    if pert is None and case["kind"] in ("etainv_s", "commuting") and ts == "def" and e is not True:
        raise AssertionError(f"pseudo-Hermitian by construction, oracle says {e}: {case}")
    hs, es = H.copy(), eta.copy()
    if ts == "def":
        got, exc = call(mp.is_pseudo_hermitian, H, eta)
    elif ts == "r":
        got, exc = call(mp.is_pseudo_hermitian, H, eta, 1e-3, 1e-12)
    else:
        got, exc = call(mp.is_pseudo_hermitian, H, signature=eta, rtol=1e-12, atol=1e-3)
    if not (np.array_equal(H, hs) and np.array_equal(eta, es)):
        return viol("is_pseudo_hermitian modified an argument", site="is_pseudo_hermitian:aliasing")
    indefinite = case["eta"] not in ("sig0", f"sig{d}")
    return _verdict_result(f"is_pseudo_hermitian({case['kind']}, eta={case['eta']}, S={case['s']}, pert={pert}, tol={ts})", "is_pseudo_hermitian",
                           got, exc, e, nontrivial=d >= 2 and indefinite)


# ================================================================================================ C16.commuting
PAULI = {"I": np.eye(2), "X": np.array([[0, 1], [1, 0]]), "Y": np.array([[0, -1j], [1j, 0]]), "Z": np.array([[1, 0], [0, -1]])}


def commuting_cases(tier, seed):
    for d in dims_for(tier):
        keys = ["gen:0:c", "gen:0:r", "jordan", "int", f"udu:{ukeys_c(d, tier)[-1]}:ind", "nrm:" + ukeys_c(d, tier)[0], "csym:0"]
        for k in keys:
            for kind in ("poly", "identity", "self", "other", "dagger", "simdiag"):
                for pert in [None] + perts_for(d):
                    if kind in ("other", "self") and pert is not None:
                        continue
                    for order in ("AB", "BA"):
                        yield {"kind": kind, "d": d, "key": k, "pert": pert, "order": order}
    for a in itertools.product("IXYZ", repeat=2):
        for b in itertools.product("IXYZ", repeat=2):
            yield {"kind": "pauli2", "a": "".join(a), "b": "".join(b)}
    for a in "IXYZ":
        for b in "IXYZ":
            yield {"kind": "pauli1", "a": a, "b": b}


def _commuting_pair(case):
    kind = case["kind"]
    if kind == "pauli1":
        return PAULI[case["a"]], PAULI[case["b"]]
    if kind == "pauli2":
        return np.kron(PAULI[case["a"][0]], PAULI[case["a"][1]]), np.kron(PAULI[case["b"][0]], PAULI[case["b"][1]])
    d = case["d"]
    A = matrix(d, case["key"])
    if kind == "poly":
        B = A @ A + 2 * A + 3 * np.eye(d, dtype=A.dtype)
    elif kind == "identity":
        B = 1.5 * np.eye(d)
    elif kind == "self":
        B = A.copy()
    elif kind == "other":
        B = matrix(d, "gen:0:c" if case["key"] != "gen:0:c" else "int")
    elif kind == "dagger":
        B = A.conj().T.copy()  # commutes iff A is normal
    else:
        w = U(d, "g0")
        A = w @ np.diag(spectrum(d, "pos")) @ w.conj().T
        B = w @ np.diag(CSPEC[:d]) @ w.conj().T
    return A, perturb(np.asarray(B), case["pert"])


def commuting_check(case):
    mp = _mp()
    A, B = _commuting_pair(case)
    if case.get("order") == "BA":
        A, B = B, A
    D = A @ B - B @ A
    dmax = float(np.max(np.abs(D)))
    e = True if dmax <= P.ATOL / P.MARGIN else (False if dmax >= P.MARGIN * P.ATOL else None)
    if case["kind"] in ("poly", "identity", "self", "simdiag") and case.get("pert") is None and e is not True:
        raise AssertionError(f"commuting by construction, defect {dmax}: {case}")
    sa, sb = A.copy(), B.copy()
    got, exc = call(mp.is_commuting, A, B)
    if not (np.array_equal(A, sa) and np.array_equal(B, sb)):
        return viol("is_commuting modified an argument", site="is_commuting:aliasing")
    return _verdict_result(f"is_commuting({case})", "is_commuting", got, exc, e, nontrivial=A.shape[0] >= 2 and case["kind"] not in ("identity", "self"))


# ================================================================================================ C16.commutant
def _dsum(*blocks):
    n = sum(b.shape[0] for b in blocks)
    out = np.zeros((n, n), dtype=complex)
    k = 0
    for b in blocks:
        out[k:k + b.shape[0], k:k + b.shape[0]] = b
        k += b.shape[0]
    return out


def _xz(n):
    return cat.shift(n).astype(complex), cat.clock(n).astype(complex)


def generator_set(d, name):
    """(list of generators, dimension of the commutant) by construction."""
    z = lambda n: np.zeros((n, n), dtype=complex)  # noqa: E731
    parts = name.split(":")
    if parts[0] == "distinct":
        return [np.diag(np.arange(1.0, d + 1))], d
    if parts[0] == "deg":
        vals = [1.0, 1.0] + [float(k) for k in range(2, d)]
        return [np.diag(vals[:d])], 4 + (d - 2)
    if parts[0] == "deg3":
        vals = [1.0, 1.0, 1.0] + [2.0] * (d - 3)
        return [np.diag(vals)], 9 + (d - 3) ** 2
    if parts[0] == "scalar":
        return [np.eye(d)], d * d
    if parts[0] == "jordan":
        return [np.eye(d) + np.diag(np.ones(d - 1), 1)], d
    if parts[0] == "X":
        return [_xz(d)[0]], d
    if parts[0] == "XZ":
        return list(_xz(d)), 1
    if parts[0] == "blk":
        a = int(parts[1])
        b = d - a
        xa, za = _xz(a)
        xb, zb = _xz(b)
        return [_dsum(xa, z(b)), _dsum(za, z(b)), _dsum(z(a), xb), _dsum(z(a), zb)], 2
    if parts[0] == "MxI":
        n = int(parts[1])
        m = d // n
        x, zz = _xz(n)
        return [np.kron(x, np.eye(m)), np.kron(zz, np.eye(m))], m * m
    if parts[0] == "IxM":
        n = int(parts[1])
        m = d // n
        x, zz = _xz(n)
        return [np.kron(np.eye(m), x), np.kron(np.eye(m), zz)], m * m
    if parts[0] == "mixed":  # (M_2 (x) I_m) (+) M_1 with d = 2m + 1
        m = (d - 1) // 2
        x, zz = _xz(2)
        return [_dsum(np.kron(x, np.eye(m)), z(1)), _dsum(np.kron(zz, np.eye(m)), z(1)), _dsum(z(2 * m), np.eye(1))], m * m + 1
    if parts[0] == "pauliY":
        return [PAULI["Y"]], 2
    if parts[0] == "docex":
        return [np.array([[1, 1], [0, 1]])], 2
    raise KeyError(name)


def generator_names(d):
    ns = ["scalar"]
    if d >= 2:
        ns += ["distinct", "jordan", "X", "XZ"] + (["deg"] if d >= 3 else [])
        ns += [f"blk:{a}" for a in range(1, d) if a >= d - a]
    if d >= 4:
        ns += ["deg3"]
        ns += [f"MxI:{n}" for n in range(2, d) if d % n == 0] + [f"IxM:{n}" for n in range(2, d) if d % n == 0]
    if d >= 3 and d % 2 == 1:
        ns += ["mixed"]
    if d == 2:
        ns += ["pauliY", "docex"]
    return ns


def commutant_cases(tier, seed):
    for d in dims_for(tier):
        us = ["I"] if d == 1 else ["I", "F", "g0", "o0"]
        for name in generator_names(d):
            for u in us:
                for form in ("list", "ndarray"):
                    gens, _ = generator_set(d, name)
                    if form == "ndarray" and len(gens) != 1:
                        continue
                    if name == "scalar" and u != "I":
                        continue  # U I U^dagger is the identity only up to rounding, and rounding noise is all a scalar generator has
                    yield {"d": d, "gens": name, "U": u, "form": form}


def commutant_check(case):
    mp = _mp()
    d = case["d"]
    gens, dim = generator_set(d, case["gens"])
    w = U(d, case["U"])
    gens = [np.asarray(w @ g @ w.conj().T) for g in gens]
    if case["U"] in ("I", "o0") and all(float(np.max(np.abs(np.imag(g)))) == 0 for g in gens):
        gens = [np.ascontiguousarray(np.real(g)) for g in gens]
    arg = gens[0] if case["form"] == "ndarray" else list(gens)
    snaps = [g.copy() for g in gens]
    basis, exc = call(mp.commutant, arg)
    if exc is not None:
        return viol(f"commutant raised on {case}: {exc_text(exc)}", site="commutant:exception", observed=exc_text(exc)[:160])
    if any(not np.array_equal(g, s0) for g, s0 in zip(gens, snaps)) or (case["form"] == "list" and len(arg) != len(gens)):
        return viol("commutant modified its argument", site="commutant:aliasing")
    if not isinstance(basis, list) or any(np.asarray(b).shape != (d, d) for b in basis):
        return viol(f"commutant did not return a list of {d}x{d} matrices", site="commutant:shape", observed=repr(type(basis)))
    scale = max(1.0, max(float(np.max(np.abs(g))) for g in gens))
    worst = 0.0
    for b in basis:
        for g in gens:
            worst = max(worst, float(np.max(np.abs(g @ b - b @ g))))
    if worst > 1e-8 * scale:
        return viol(f"a returned basis element does not commute with a generator (defect {worst:.3g}) for {case}", site="commutant:commutes",
                    observed=worst, expected=0.0)
    if len(basis) != dim:
        return viol(f"commutant of {case['gens']} (d={d}, conjugated by {case['U']}) has {len(basis)} basis elements, construction gives {dim}",
                    site="commutant:dimension", observed=len(basis), expected=dim)
    G = np.array([[np.trace(a.conj().T @ b) for b in basis] for a in basis])
    if float(np.max(np.abs(G - np.eye(len(basis))))) > 1e-8:
        return viol(f"commutant basis is not orthonormal in the Hilbert-Schmidt inner product for {case}", site="commutant:orthonormal",
                    observed=float(np.max(np.abs(G - np.eye(len(basis))))), expected=0.0)
    nonsym = any(not np.allclose(g, g.T) for g in gens)
    return ok(d >= 2 and nonsym, obs=len(basis))


# ================================================================================================ C16.vector_sets
def _as_form(vs, form):
    vs = [np.asarray(v) for v in vs]
    if form == "list1d":
        return [v.copy() for v in vs]
    if form == "listcol":
        return [v.reshape(-1, 1).copy() for v in vs]
    if form == "ndarray":
        return np.array(vs)
    if form == "lists":
        return [v.tolist() for v in vs]
    raise KeyError(form)


def vector_set(case):
    d = case["d"]
    u = U(d, case["U"])
    vs = [u[:, j].copy() for j in case["cols"]]
    mod = case["mod"]
    if mod == "scaled":
        vs[-1] = 2.0 * vs[-1]
    elif mod.startswith("tilt"):
        eps = {"tiltz": 1e-6, "tiltm": 5e-3, "tiltM": 0.2}[mod]
        vs[1] = vs[1] + eps * vs[0]
    elif mod.startswith("norm"):
        eps = {"normz": 1e-8, "normm": 5e-3, "normM": 0.2}[mod]
        vs[0] = (1 + eps) * vs[0]
    elif mod == "dep":  # append an exact combination
        vs.append(vs[0] + vs[1])
    elif mod == "depnear":
        w = vs[0] + vs[1]
        w = w.astype(complex)
        w[0] += 1e-6
        vs.append(w)
    elif mod == "dup":
        vs.append(vs[0].copy())
    elif mod == "zero":
        vs.append(np.zeros_like(vs[0]))
    return vs


def vector_cases(tier, seed):
    for d in (2, 3, 4) if tier == "quick" else (2, 3, 4, 5):
        for ukey in ["I", "F", "g0", "o0"] + (["XZ", "g1"] if tier == "thorough" else []):
            for k in range(2, d + 1):
                for cols in itertools.combinations(range(d), k):
                    for mod in ("none", "scaled", "tiltz", "tiltm", "tiltM", "normz", "normm", "normM", "dep", "depnear", "dup", "zero"):
                        for form in ("list1d", "listcol", "ndarray", "lists"):
                            if form != "list1d" and mod not in ("none", "tiltm", "dep", "normm"):
                                continue
                            yield {"kind": "set", "d": d, "U": ukey, "cols": list(cols), "mod": mod, "form": form}
    # integer sets with exact dependencies
    for name in ("int3", "vander3", "pascal4", "int4", "eye_plus", "too_many"):
        for form in ("list1d", "listcol", "ndarray"):
            yield {"kind": "intset", "name": name, "form": form}
    # has_same_dimension
    for a in ("v2", "v3", "v4", "m22", "m33", "m23", "m32", "m14"):
        for b in ("v2", "v3", "v4", "m22", "m33", "m23", "m32", "m14"):
            for n in (1, 2):
                yield {"kind": "samedim", "items": [a] * n + [b]}


def _int_set(name):
    if name == "int3":
        M = np.arange(1, 10).reshape(3, 3)  # rank 2
        return [M[:, j].copy() for j in range(3)], False
    if name == "int4":
        M = np.arange(1, 17).reshape(4, 4)  # rank 2
        return [M[:, j].copy() for j in range(3)], False
    if name == "vander3":
        M = _vander(3)
        return [M[:, j].copy() for j in range(3)], True
    if name == "pascal4":
        M = _pascal(4)
        return [M[:, j].copy() for j in range(4)], True
    if name == "eye_plus":
        return [np.array([1, 0, 0]), np.array([0, 1, 0]), np.array([1, 1, 0])], False
    if name == "too_many":
        return [np.array([1, 0]), np.array([0, 1]), np.array([1, 2])], False
    raise KeyError(name)


def _item(code):
    if code[0] == "v":
        return np.arange(1, int(code[1]) + 1)
    return np.arange(1, int(code[1]) * int(code[2]) + 1).reshape(int(code[1]), int(code[2]))


def _samedim_truth(items):
    """Docstring: vector -> length; non-square matrix -> rows*cols; square matrix -> rows.  Implementation: matrix -> rows*cols.
    Judge only when both readings give the same verdict."""
    def doc(a):
        return a.shape[0] if a.ndim == 1 or a.shape[0] == a.shape[1] else a.shape[0] * a.shape[1]

    def alt(a):
        return a.shape[0] if a.ndim == 1 else a.shape[0] * a.shape[1]
    v1 = len({doc(a) for a in items}) == 1
    v2 = len({alt(a) for a in items}) == 1
    return v1 if v1 == v2 else "ambiguous"


def vector_check(case):
    mp, sp = _mp(), _sp()
    if case["kind"] == "samedim":
        items = [_item(c) for c in case["items"]]
        got, exc = call(mp.has_same_dimension, items)
        return _verdict_result(f"has_same_dimension({case['items']})", "has_same_dimension", got, exc, _samedim_truth(items),
                               nontrivial=len(set(case["items"])) > 1)
    if case["kind"] == "intset":
        vs, indep = _int_set(case["name"])
        arg = _as_form(vs, case["form"])
        if case["form"] == "ndarray":
            arg = list(arg)  # the documented argument is a list of vectors; rows of the stacked array
        got, exc = call(mp.is_linearly_independent, arg)
        return _verdict_result(f"is_linearly_independent(integer set {case['name']}, {case['form']})", "is_linearly_independent", got, exc, indep)
    vs = vector_set(case)
    form = case["form"]
    arg = _as_form(vs, form)
    snap = [np.array(v, copy=True) for v in vs]
    res = []
    mod = case["mod"]
    # --- is_mutually_orthogonal
    e = P.mutually_orthogonal_verdict(vs)
    got, exc = call(sp.is_mutually_orthogonal, arg)
    res.append(_verdict_result(f"is_mutually_orthogonal({case})", "is_mutually_orthogonal", got, exc, e))
    # --- is_orthonormal (documented input: array / list of 1-by-n vectors)
    e = P.orthonormal_verdict(vs)
    if mod == "none" and e is not True:
        raise AssertionError(f"orthonormal by construction, oracle says {e}: {case}")
    if form in ("ndarray", "list1d"):
        got, exc = call(mp.is_orthonormal, arg)
        site = "is_orthonormal" if form == "ndarray" else "is_orthonormal[list]"
        res.append(_verdict_result(f"is_orthonormal({case})", site, got, exc, e))
    # --- is_linearly_independent
    ratio = P.linear_independence_ratio(vs)
    if mod in ("dep", "dup", "zero") or len(vs) > case["d"]:
        e = False
    elif ratio >= 1e-9:
        e = True
    else:
        e = None
    if form != "ndarray":
        got, exc = call(mp.is_linearly_independent, arg)
        res.append(_verdict_result(f"is_linearly_independent({case})", "is_linearly_independent", got, exc, e))
    after = _as_form(vs, form)
    if any(not np.array_equal(np.asarray(a), np.asarray(b)) for a, b in zip(arg, after)) or any(not np.array_equal(a, b) for a, b in zip(vs, snap)):
        return viol("a vector-set predicate modified its argument", site="vector_sets:aliasing")
    return _first_bad(res)


# ================================================================================================ C16.mub
def mub_bases(d):
    """A complete set of d+1 mutually unbiased bases for d in {2,3,4,5} (columns of each matrix are the basis vectors)."""
    if d == 2:
        s = 1 / np.sqrt(2)
        return [np.eye(2, dtype=complex), s * np.array([[1, 1], [1, -1]], dtype=complex), s * np.array([[1, 1], [1j, -1j]], dtype=complex)]
    if d in (3, 5):  # odd prime: v^(k)_m[j] = w^(k j^2 + m j) / sqrt(d)
        w = np.exp(2j * np.pi / d)
        out = [np.eye(d, dtype=complex)]
        for k in range(d):
            out.append(np.array([[w ** ((k * j * j + m * j) % d) for m in range(d)] for j in range(d)]) / np.sqrt(d))
        return out
    if d == 4:
        rows = [
            [[1, 1, 1, 1], [1, 1, -1, -1], [1, -1, -1, 1], [1, -1, 1, -1]],
            [[1, -1, -1j, -1j], [1, -1, 1j, 1j], [1, 1, 1j, -1j], [1, 1, -1j, 1j]],
            [[1, -1j, -1j, -1], [1, -1j, 1j, 1], [1, 1j, 1j, -1], [1, 1j, -1j, 1]],
            [[1, -1j, -1, -1j], [1, -1j, 1, 1j], [1, 1j, -1, 1j], [1, 1j, 1, -1j]],
        ]
        return [np.eye(4, dtype=complex)] + [np.array(b, dtype=complex).T / 2 for b in rows]
    raise KeyError(d)


def _rot01(d, theta):
    r = np.eye(d, dtype=complex)
    r[0, 0] = r[1, 1] = np.cos(theta)
    r[0, 1] = -np.sin(theta)
    r[1, 0] = np.sin(theta)
    return r


def mub_vectors(case):
    d = case["d"]
    bases = mub_bases(d)
    chosen = [bases[k].copy() for k in case["bases"]]
    mod = case["mod"]
    if mod.startswith("rot"):
        theta = {"rotz": 1e-9, "rotm": 1e-2, "rotM": 0.3}[mod]
        chosen[-1] = _rot01(d, theta) @ chosen[-1]  # stays an orthonormal basis
    elif mod == "phases":
        chosen = [b * np.exp(1j * np.arange(1, d + 1) * (0.3 + k)) for k, b in enumerate(chosen)]
    elif mod == "shuffle":
        chosen = [b[:, ::-1] if k % 2 else np.roll(b, 1, axis=1) for k, b in enumerate(chosen)]
    elif mod == "global":
        w = cat.generic_unitary(d, 0)
        chosen = [w @ b for b in chosen]
    elif mod == "repeat":
        chosen[-1] = chosen[0].copy()
    elif mod == "scaled":  # blocks no longer orthonormal: outside the definition's precondition
        chosen[-1] = 1.1 * chosen[-1]
    vs = [b[:, j].copy() for b in chosen for j in range(d)]
    if mod == "drop":
        vs = vs[:-1]
    return vs


def mub_cases(tier, seed):
    for d in (2, 3, 4) if tier == "quick" else (2, 3, 4, 5):
        nb = d + 1
        subsets = []
        for k in range(1, nb + 1):
            for sub in itertools.combinations(range(nb), k):
                subsets.append(list(sub))
                if k == 2:
                    subsets.append(list(sub[::-1]))
        if d >= 4 and tier == "quick":
            subsets = [s for s in subsets if len(s) <= 3 or len(s) == nb]
        for sub in subsets:
            for mod in ("none", "rotz", "rotm", "rotM", "phases", "shuffle", "global", "repeat", "scaled", "drop"):
                for form in ("list1d", "listcol", "lists"):
                    if form != "list1d" and mod not in ("none", "rotm"):
                        continue
                    yield {"d": d, "bases": sub, "mod": mod, "form": form}
    yield from blockdev_cases()


BLOCKDEV4 = 0.5 * np.array([[1, 1, 1, 1], [1j, -1j, -1, 1], [-(1 + 1j), 0, 1j, 1], [0, -(1 - 1j), -1j, 1]], dtype=complex)


def blockdev_cases():
    """Two orthonormal bases of C^4 whose overlap matrix is flat except on a 2x2 block, under every placement of that block
    (all row permutations x six column permutations x both listing orders): added after seeded change C16-6, which only tested the
    overlaps with l >= k."""
    cols = [(0, 1, 2, 3), (2, 3, 0, 1), (0, 2, 1, 3), (3, 2, 1, 0), (1, 3, 0, 2), (2, 0, 3, 1)]
    for rp in itertools.permutations(range(4)):
        for cp in cols:
            for order in (0, 1):
                yield {"d": 4, "blockdev": True, "rows": list(rp), "cols": list(cp), "order": order, "mod": "blockdev", "form": "list1d", "bases": []}


def blockdev_vectors(case):
    U = BLOCKDEV4[case["rows"], :][:, case["cols"]]
    bu = [U[k].copy() for k in range(4)]
    be = [np.eye(4, dtype=complex)[k] for k in range(4)]
    return (bu + be) if case["order"] == 0 else (be + bu)


def mub_check(case):
    sp = _sp()
    d = case["d"]
    vs = blockdev_vectors(case) if case.get("blockdev") else mub_vectors(case)
    arg = _as_form(vs, case["form"])
    snap = [v.copy() for v in vs]
    cross, blocks = P.mub_verdict(vs, d)
    nb = len(vs) // d if len(vs) % d == 0 else 0
    if case["mod"] in ("none", "phases", "shuffle", "global") and nb >= 2 and not (cross is True and blocks is True):
        raise AssertionError(f"mutually unbiased by construction, oracle says {cross}/{blocks}: {case}")
    if len(vs) % d != 0:
        e = False
    elif nb < 2:
        e = "ambiguous"  # one basis: vacuous under the definition; the docstring also promises a ValueError for < 2 vectors
    elif blocks is not True:
        e = False if cross is False else "ambiguous"  # non-orthonormal blocks are outside the definition's precondition
    else:
        e = cross
    got, exc = call(sp.is_mutually_unbiased_basis, arg)
    after = _as_form(vs, case["form"])
    if any(not np.array_equal(np.asarray(a), np.asarray(b)) for a, b in zip(arg, after)) or any(not np.array_equal(a, b) for a, b in zip(vs, snap)):
        return viol("is_mutually_unbiased_basis modified its argument", site="is_mutually_unbiased_basis:aliasing")
    return _verdict_result(f"is_mutually_unbiased_basis({case})", "is_mutually_unbiased_basis", got, exc, e, nontrivial=nb >= 2)


# ================================================================================================ C16.upb
def _kets(d):
    return [np.eye(d)[k] for k in range(d)]


def upb_set(name):
    s = 1 / np.sqrt(2)
    if name == "tiles":
        e = _kets(3)
        return [np.kron(e[0], (e[0] - e[1]) * s), np.kron(e[2], (e[1] - e[2]) * s), np.kron((e[0] - e[1]) * s, e[2]),
                np.kron((e[1] - e[2]) * s, e[0]), np.kron(sum(e) / np.sqrt(3), sum(e) / np.sqrt(3))], [3, 3], True
    if name == "pyramid":
        h = np.sqrt(1 + np.sqrt(5)) / 2
        nrm = 2 / np.sqrt(5 + np.sqrt(5))
        v = [nrm * np.array([np.cos(2 * np.pi * k / 5), np.sin(2 * np.pi * k / 5), h]) for k in range(5)]
        return [np.kron(v[k], v[(2 * k) % 5]) for k in range(5)], [3, 3], True
    if name == "shifts":
        e = _kets(2)
        p, m = (e[0] + e[1]) * s, (e[0] - e[1]) * s
        k3 = lambda a, b, c: np.kron(np.kron(a, b), c)  # noqa: E731
        return [k3(e[0], e[0], e[0]), k3(p, e[1], m), k3(e[1], m, p), k3(m, p, e[1])], [2, 2, 2], True
    if name == "pb22":  # orthogonal product basis of 2x2 (not a tensor of bases)
        e = _kets(2)
        p, m = (e[0] + e[1]) * s, (e[0] - e[1]) * s
        return [np.kron(e[0], e[0]), np.kron(e[0], e[1]), np.kron(e[1], p), np.kron(e[1], m)], [2, 2], None
    if name == "pb23":
        e2, e3 = _kets(2), _kets(3)
        p, m = (e3[0] + e3[1]) * s, (e3[0] - e3[1]) * s
        return [np.kron(e2[0], e3[0]), np.kron(e2[0], e3[1]), np.kron(e2[0], e3[2]), np.kron(e2[1], p), np.kron(e2[1], m), np.kron(e2[1], e3[2])], [2, 3], None
    if name == "pb33":  # the complete "domino"-like basis: tiles' four + centre + completions
        e = _kets(3)
        return [np.kron(e[0], (e[0] - e[1]) * s), np.kron(e[0], (e[0] + e[1]) * s), np.kron(e[2], (e[1] - e[2]) * s), np.kron(e[2], (e[1] + e[2]) * s),
                np.kron((e[0] - e[1]) * s, e[2]), np.kron((e[0] + e[1]) * s, e[2]), np.kron((e[1] - e[2]) * s, e[0]), np.kron((e[1] + e[2]) * s, e[0]),
                np.kron(e[1], e[1])], [3, 3], None
    raise KeyError(name)


def _local_unitary(dims, key):
    if key == "I":
        return None
    keys = {"Fg": ["F", "g0", "g1"], "gF": ["g0", "F", "o0"], "oo": ["o0", "o1", "o0"]}[key]
    w = np.eye(1)
    for k, d in enumerate(dims):
        w = np.kron(w, U(d, keys[k % 3]))
    return w


def upb_vectors(case):
    vs, dims, _ = upb_set(case["set"])
    vs = [vs[k] for k in case["keep"]]
    w = _local_unitary(dims, case["lu"])
    if w is not None:
        vs = [w @ v for v in vs]
    if case["order"] == "rev":
        vs = vs[::-1]
    elif case["order"] == "roll":
        vs = vs[1:] + vs[:1]
    if case.get("phases"):
        vs = [np.exp(1j * (0.4 + k)) * np.asarray(v, dtype=complex) for k, v in enumerate(vs)]
    return vs, dims


def upb_cases(tier, seed):
    for name in ("tiles", "pyramid", "shifts"):
        vs, dims, _ = upb_set(name)
        n = len(vs)
        keeps = [list(range(n))] + [[k for k in range(n) if k != j] for j in range(n)]
        if tier == "thorough":
            keeps += [[k for k in range(n) if k not in (i, j)] for i in range(n) for j in range(i + 1, n)]
        for keep in keeps:
            for lu in ("I", "Fg", "gF", "oo"):
                for order in ("id", "rev", "roll"):
                    for phases in (False, True):
                        for form in ("ndarray", "list", "listcol"):
                            if form != "ndarray" and (order != "id" or phases):
                                continue
                            yield {"set": name, "keep": keep, "lu": lu, "order": order, "phases": phases, "form": form}
    for name in ("pb22", "pb23", "pb33"):
        vs, dims, _ = upb_set(name)
        n = len(vs)
        subs = [list(c) for k in range(1, n + 1) for c in itertools.combinations(range(n), k)]
        if name == "pb33":
            subs = [s for s in subs if len(s) in (1, 4, 5, 8, 9)]
            if tier == "quick":
                subs = subs[::5]
        for keep in subs:
            for lu in ("I", "gF"):
                yield {"set": name, "keep": keep, "lu": lu, "order": "id", "phases": False, "form": "ndarray"}


def upb_check(case):
    sp = _sp()
    vs, dims = upb_vectors(case)
    full_set, _, is_upb = upb_set(case["set"])
    total = int(np.prod(dims))
    ext = P.upb_extendible_ref(vs, dims)
    complete = len(vs) == total
    if is_upb and len(case["keep"]) == len(full_set) and ext is not False:
        raise AssertionError(f"UPB by construction (literature), reference search says extendible={ext}: {case}")
    if ext is None:
        e = None
    elif complete:
        e = "ambiguous"  # a complete product basis spans the whole space: not a *proper* subspace
    else:
        e = not ext
    form = case["form"]
    arg = np.array(vs) if form == "ndarray" else ([v.copy() for v in vs] if form == "list" else [v.reshape(-1, 1).copy() for v in vs])
    snap = [np.array(v, copy=True) for v in vs]
    dims_arg = list(dims) if form != "ndarray" else np.array(dims)
    out, exc = call(sp.is_unextendible_product_basis, arg, dims_arg)
    if exc is not None:
        return viol(f"is_unextendible_product_basis raised on an orthogonal product set: {exc_text(exc)}  {case}", site="is_unextendible_product_basis:exception",
                    observed=exc_text(exc)[:160])
    if any(not np.array_equal(np.asarray(a).ravel(), b) for a, b in zip(arg, snap)) or list(np.asarray(dims_arg)) != list(dims):
        return viol("is_unextendible_product_basis modified an argument", site="is_unextendible_product_basis:aliasing")
    if not (isinstance(out, tuple) and len(out) == 2 and is_boolish(out[0])):
        return viol(f"is_unextendible_product_basis returned {type(out).__name__}, documented (bool, witness)", site="is_unextendible_product_basis:type",
                    observed=repr(out)[:80])
    got, wit = bool(out[0]), out[1]
    if e is None:
        return indet("inside-margin")
    if e == "ambiguous":
        return indet("spec-ambiguous")
    if got != e:
        return viol(f"is_unextendible_product_basis verdict {got}, brute-force search over all assignments says {e}: {case}",
                    site="is_unextendible_product_basis:verdict", observed=got, expected=e)
    if got:
        if wit is not None:
            return viol("a witness was returned together with verdict True", site="is_unextendible_product_basis:witness", observed=repr(wit)[:80])
        return ok(True, obs=True)
    w = np.asarray(wit, dtype=complex).ravel()
    if w.shape != (total,) or np.linalg.norm(w) < 1e-6:
        return viol(f"verdict False but the witness is not a non-zero vector of length {total}", site="is_unextendible_product_basis:witness",
                    observed=repr(wit)[:80])
    w = w / np.linalg.norm(w)
    overlap = max(abs(np.vdot(np.asarray(v).ravel() / np.linalg.norm(v), w)) for v in vs)
    if overlap > 1e-8 or not P.is_product_ref(w, dims, 1e-8):
        return viol(f"witness is not a product state orthogonal to every input vector (max overlap {overlap:.3g}): {case}",
                    site="is_unextendible_product_basis:witness", observed=overlap, expected=0.0)
    return ok(len(vs) >= 2, obs=False)


# ================================================================================================ C16.states
def _state(d, key):
    if key.startswith("near:"):
        a, b = key[5:].split("|")
        return herm((1 - 1e-3) * cat.density(d, a) + 1e-3 * cat.density(d, b))
    if key.startswith("scaled:"):
        _, c, k = key.split(":", 2)
        return float(c) * cat.density(d, k)
    if key.startswith("T:"):
        return cat.density(d, key[2:]).T.copy()
    return cat.density(d, key)


def state_keys(d, tier):
    ks = list(cat.densities(d).keys())
    if tier == "quick":
        ks = [k for k in ks if not k.startswith("ket:f")]
    extra = ["near:ket:g0|ket:g1", "near:ket:e0|gfull0", "scaled:1.01:ket:g0", "scaled:0.99:ket:e0", "scaled:1.01:gfull0", "T:ket:g0", "T:gfull0"]
    return ks + extra


def states_cases(tier, seed):
    for d in (2, 3, 4) if tier == "quick" else (2, 3, 4, 5, 6):
        ks = state_keys(d, tier)
        for k in ks:
            for form in ("c", "r"):
                if form == "r" and float(np.max(np.abs(_state(d, k).imag))) > 0:
                    continue  # the real-dtype form exists only for real states
                yield {"fn": "pure", "d": d, "key": k, "form": form}
        sub = ["ket:e0", "ket:g0", "ket:g1", "gfull0", "ramp2@F", "near:ket:g0|ket:g1", "ket:ramp"]
        for pair in itertools.product(sub, repeat=2):
            yield {"fn": "purelist", "d": d, "keys": list(pair)}
        for trip in itertools.combinations(sub, 3):
            yield {"fn": "purelist", "d": d, "keys": list(trip)}
        # ensembles
        for n in (1, 2, 3):
            for combo in itertools.combinations(["ket:g0", "gfull0", "ramp2@F", "ket:e0"], n):
                for pk in cat.priors(n, generic=1):
                    for mod in ("none", "over", "under", "overz", "neg", "negz", "nonherm"):
                        yield {"fn": "ensemble", "d": d, "keys": list(combo), "prior": pk, "mod": mod}


def states_check(case):
    sp = _sp()
    d = case["d"]
    if case["fn"] == "pure":
        rho = _state(d, case["key"])
        if case["form"] == "r":
            rho = np.ascontiguousarray(rho.real)
        lam = P.max_eig_herm(rho)
        dens = P.density_verdict(rho)
        tau = P.ATOL + P.RTOL
        pure = True if abs(lam - 1) <= tau / P.MARGIN else (False if abs(lam - 1) >= P.MARGIN * tau else None)
        if case["key"].startswith("ket:") and pure is not True:
            raise AssertionError("pure by construction, oracle disagrees")
        # is_pure is defined on density matrices; on a non-density (scaled) input both readings agree only when lam_max != 1
        e_pure = pure if dens is True else (False if pure is False else "ambiguous")
        snap = rho.copy()
        g1, x1 = call(sp.is_pure, rho)
        g2, x2 = call(sp.is_mixed, rho)
        g3, x3 = call(sp.is_pure, [rho])
        if not np.array_equal(rho, snap):
            return viol("is_pure / is_mixed modified the state", site="is_pure:aliasing")
        e_mixed = (not pure) if (dens is True and pure is not None) else (None if pure is None else "ambiguous")
        return _first_bad([
            _verdict_result(f"is_pure({case['key']}, d={d})", "is_pure", g1, x1, e_pure, nontrivial=pure is False or np.iscomplexobj(rho)),
            _verdict_result(f"is_mixed({case['key']}, d={d})", "is_mixed", g2, x2, e_mixed, nontrivial=pure is False or np.iscomplexobj(rho)),
            _verdict_result(f"is_pure([{case['key']}], d={d})", "is_pure[list]", g3, x3, e_pure),
        ])
    if case["fn"] == "purelist":
        rhos = [_state(d, k) for k in case["keys"]]
        tau = P.ATOL + P.RTOL
        vs = []
        for r in rhos:
            lam = P.max_eig_herm(r)
            vs.append(True if abs(lam - 1) <= tau / P.MARGIN else (False if abs(lam - 1) >= P.MARGIN * tau else None))
        e = P.and3(*vs)
        n0 = len(rhos)
        got, exc = call(sp.is_pure, rhos)
        if len(rhos) != n0:
            return viol("is_pure modified the caller's list", site="is_pure:aliasing")
        return _verdict_result(f"is_pure(list {case['keys']}, d={d})", "is_pure[list]", got, exc, e, nontrivial=len(set(vs)) > 1 or e is True)
    # ensemble
    pr = cat.priors(len(case["keys"]), generic=1)[case["prior"]]
    ops = [p * _state(d, k) for p, k in zip(pr, case["keys"])]
    mod = case["mod"]
    if mod == "over":
        ops[-1] = ops[-1] * (1 + 5e-3 / pr[-1])
    elif mod == "under":
        ops[0] = ops[0] * (1 - 5e-3 / pr[0])
    elif mod == "overz":
        ops[-1] = ops[-1] * (1 + 1e-8)
    elif mod in ("neg", "negz"):
        w = cat.generic_unitary(d, 1)[:, 0].reshape(-1, 1)
        eps = 1e-3 if mod == "neg" else 1e-11
        ops[0] = herm(pr[0] * cat.proj(cat.generic_unitary(d, 1)[:, 1]) - eps * (w @ w.conj().T))
        ops[-1] = ops[-1] * (1 + eps / np.trace(ops[-1]).real) if len(ops) > 1 else ops[-1]
    elif mod == "nonherm":
        ops[0] = np.array(ops[0], dtype=complex)
        ops[0][0, d - 1] += 5e-3
    psd = P.and3(*[P.psd_verdict(o) for o in ops])
    tr = sum(complex(np.trace(o)) for o in ops)
    tau = P.ATOL + P.RTOL
    dev = abs(tr - 1)
    tv = True if dev <= tau / P.MARGIN else (False if dev >= P.MARGIN * tau else None)
    e = P.and3(psd, tv)
    if mod == "none" and e is not True:
        raise AssertionError(f"ensemble by construction, oracle says {e}: {case}")
    snaps = [o.copy() for o in ops]
    got, exc = call(sp.is_ensemble, ops)
    if len(ops) != len(snaps) or any(not np.array_equal(a, b) for a, b in zip(ops, snaps)):
        return viol("is_ensemble modified the caller's list", site="is_ensemble:aliasing")
    return _verdict_result(f"is_ensemble({case})", "is_ensemble", got, exc, e, nontrivial=len(ops) >= 2)


# ================================================================================================ C16.vec_unvec (exact)
def vec_cases(tier, seed):
    mx = 3 if tier == "quick" else 4
    for r in range(1, mx + 1):
        for c in range(1, mx + 1):
            for ent in ("int", "complex", "float"):
                yield {"kind": "roundtrip", "r": r, "c": c, "entries": ent}
    for a, b, c, e in itertools.product(range(1, mx + 1), repeat=4):
        for ent in ("int", "complex"):
            if ent == "complex" and max(a, b, c, e) > 3:
                continue
            yield {"kind": "axb", "shape": [a, b, c, e], "entries": ent}


def _filled(r, c, ent, offset=0):
    if ent == "complex":
        return primes_matrix(r, c, offset, cplx=True)
    m = primes_matrix(r, c, offset)
    return m.astype(float) / 4 if ent == "float" else m


def vec_check(case):
    mo = _mo()
    if case["kind"] == "roundtrip":
        r, c = case["r"], case["c"]
        X = _filled(r, c, case["entries"])
        snap = X.copy()
        v, exc = call(mo.vec, X)
        if exc is not None:
            return viol(f"vec raised on a {r}x{c} matrix: {exc_text(exc)}", site="vec:exception")
        v = np.asarray(v)
        if v.shape != (r * c, 1):
            return viol(f"vec of a {r}x{c} matrix has shape {v.shape}, documented column vector ({r * c},1)", site="vec:shape", observed=list(v.shape))
        if v.ravel().tolist() != P.vec_ref(X):
            return viol(f"vec of a {r}x{c} matrix does not stack the columns", site="vec:order", observed=v.ravel().tolist()[:12], expected=P.vec_ref(X)[:12])
        if not np.array_equal(X, snap):
            return viol("vec modified its argument", site="vec:aliasing")
        for shape_form in ("list", "tuple", "ndarray"):
            shp = [r, c] if shape_form == "list" else ((r, c) if shape_form == "tuple" else np.array([r, c]))
            for vin_name, vin in (("column", v.copy()), ("flat", v.ravel().copy())):
                vin0 = vin.copy()
                back, exc = call(mo.unvec, vin, shp)
                if exc is not None:
                    return viol(f"unvec(vec(X), shape={shape_form}) raised for {r}x{c} ({vin_name} input): {exc_text(exc)}", site="unvec:exception")
                if not same_array(back, X):
                    return viol(f"unvec(vec(X), [{r},{c}]) != X ({vin_name} input, shape as {shape_form})", site="unvec:inverse",
                                observed=np.asarray(back).tolist(), expected=X.tolist())
                if not np.array_equal(vin, vin0) or list(np.asarray(shp)) != [r, c]:
                    return viol("unvec modified an argument", site="unvec:aliasing")
        if r == c:
            back, exc = call(mo.unvec, v)
            if exc is not None or not same_array(back, X):
                return viol(f"unvec(vec(X)) with the default (square) shape != X for {r}x{r}", site="unvec:default_shape",
                            observed=None if exc is None else exc_text(exc))
        # vec(unvec(u, shape)) = u on an arbitrary labelled vector
        u = _filled(r * c, 1, case["entries"], offset=40)
        m, exc = call(mo.unvec, u, [r, c])
        if exc is None:
            if np.asarray(m).tolist() != P.unvec_ref(u, r, c):
                return viol(f"unvec(u, [{r},{c}]) is not the column-major fill", site="unvec:order", observed=np.asarray(m).tolist(), expected=P.unvec_ref(u, r, c))
            u2, exc = call(mo.vec, m)
        if exc is not None or not same_array(u2, u):
            return viol(f"vec(unvec(u, [{r},{c}])) != u", site="vec:inverse", observed=None if exc is None else exc_text(exc))
        return ok(r >= 2 and c >= 2 and r != c, calls=10)
    a, b, c, e = case["shape"]
    A, X, B = _filled(a, b, case["entries"]), _filled(b, c, case["entries"], 20), _filled(c, e, case["entries"], 60)
    lhs, exc = call(mo.vec, A @ X @ B)
    if exc is None:
        vx, exc = call(mo.vec, X)
    if exc is not None:
        return viol(f"vec raised: {exc_text(exc)}", site="vec:exception")
    rhs = P.kron_ref(B.T, A) @ np.asarray(vx)
    if not same_array(lhs, rhs):
        return viol(f"vec(AXB) != (B^T (x) A) vec(X) for shapes A {a}x{b}, X {b}x{c}, B {c}x{e}", site="vec:axb_identity",
                    observed=np.asarray(lhs).ravel().tolist()[:8], expected=rhs.ravel().tolist()[:8])
    return ok(len({a, b, c, e}) > 1 and b * c > 1, calls=2)


# ================================================================================================ C16.tensor (exact)
SHAPES2 = [(1, 1), (1, 2), (2, 1), (2, 2), (2, 3), (3, 1), (1, 3), (3, 2)]


def _operand(shape, idx, ent):
    if ent in ("small", "small_complex"):  # entries of modulus <= 3: every product of up to 13 of them is exact in int64 / float64
        n = int(np.prod(shape))
        v = np.array([(-1) ** k * (k % 3 + 1) for k in range(n)], dtype=np.int64)
        if ent == "small_complex":
            v = v + 1j * np.array([(k + 1) % 2 for k in range(n)])
        return v.reshape(shape)
    if len(shape) == 1:
        m = primes_matrix(1, shape[0], 7 * idx, cplx=(ent == "complex"))
        return m[0].copy()
    return primes_matrix(shape[0], shape[1], 7 * idx, cplx=(ent == "complex"))


def tensor_cases(tier, seed):
    shapes = SHAPES2 + ([(3, 3), (1, 4)] if tier == "thorough" else [])
    for s1, s2 in itertools.product(shapes, repeat=2):
        for ent in ("int", "complex"):
            yield {"kind": "n", "shapes": [list(s1), list(s2)], "entries": ent}
    for s1, s2 in itertools.product([(2,), (3,), (1,)], repeat=2):
        yield {"kind": "n", "shapes": [list(s1), list(s2)], "entries": "complex"}
    small = [(1, 2), (2, 1), (2, 2), (2, 3), (3, 1)] + ([(1, 1), (3, 2)] if tier == "thorough" else [])
    for trip in itertools.product(small, repeat=3):
        yield {"kind": "n", "shapes": [list(s) for s in trip], "entries": "int"}
    for trip in itertools.product([(2,), (3,)], repeat=3):
        yield {"kind": "n", "shapes": [list(s) for s in trip], "entries": "complex"}
    for quad in itertools.product([(1, 2), (2, 1), (2, 2)], repeat=4):
        yield {"kind": "n", "shapes": [list(s) for s in quad], "entries": "int"}
    if tier == "thorough":
        for five in itertools.product([(1, 2), (2, 1)], repeat=5):
            yield {"kind": "n", "shapes": [list(s) for s in five], "entries": "int"}
    for s in shapes + [(2,), (3,)]:
        for n in range(0, 5 if tier == "quick" else 7):
            if int(np.prod(s)) ** n > 5000:
                continue
            for ent in ("int", "complex"):
                yield {"kind": "power", "shape": list(s), "n": n, "entries": ent}
        yield {"kind": "single", "shape": list(s)}
    # higher powers (added after seeded change C16-7: exponentiation by squaring that was only wrong for odd n >= 5): every n up to 13
    # (thorough 15) on operands small enough for the result to stay below 2^15 entries, so that every halving chain is walked
    for s in [(1, 2), (2, 1), (2,), (2, 2), (1, 3), (3, 1), (2, 3)]:
        for n in range(5, 14 if tier == "quick" else 16):
            if int(np.prod(s)) ** n > 2 ** 15:
                continue
            for ent in ("small", "small_complex"):
                yield {"kind": "power", "shape": list(s), "n": n, "entries": ent}


def _kron_all(ops):
    out = ops[0]
    for o in ops[1:]:
        out = P.kron_ref(out, o)
    return out


def tensor_check(case):
    mo = _mo()
    tensor = mo.tensor
    if case["kind"] == "single":
        A = _operand(tuple(case["shape"]), 0, "int")
        got, exc = call(tensor, [A])
        if exc is not None or not same_array(got, A):
            return viol(f"tensor([A]) != A for shape {case['shape']}", site="tensor:single", observed=None if exc is None else exc_text(exc))
        return ok(False)
    if case["kind"] == "power":
        A = _operand(tuple(case["shape"]), 1, case["entries"])
        n = case["n"]
        snap = A.copy()
        # the repetition count is passed as a Python int, a numpy int64 or a numpy int32 in turn (numpy integers used to be taken for
        # a second Kronecker factor, repaired in toqito)
        n_arg = (n, np.int64(n), np.int32(n))[(n + len(case["shape"]) + A.size) % 3]
        got, exc = call(tensor, A, n_arg)
        if exc is not None:
            return viol(f"tensor(A, {n}) raised for shape {case['shape']}: {exc_text(exc)}", site="tensor:power_exception", observed=exc_text(exc)[:160])
        exp = np.eye(1, dtype=A.dtype) if n == 0 else _kron_all([A] * n)
        if n == 0 and A.ndim == 1:
            ok0 = np.asarray(got).size == 1 and np.asarray(got).ravel()[0] == 1
        else:
            ok0 = same_array(got, exp)
        if not ok0:
            return viol(f"tensor(A, {n}) != A (x) ... (x) A ({n} factors) for shape {case['shape']}", site="tensor:power",
                        observed=list(np.asarray(got).shape), expected=list(exp.shape))
        if not np.array_equal(A, snap):
            return viol("tensor(A, n) modified A", site="tensor:aliasing")
        if n >= 2:
            got2, exc = call(tensor, [A] * n)
            if exc is not None or not same_array(got2, exp):
                return viol(f"tensor([A]*{n}) != tensor(A, {n})", site="tensor:power_vs_list")
        return ok(n >= 2 and A.size > 1, calls=2)
    ops = [_operand(tuple(s), k + 1, case["entries"]) for k, s in enumerate(case["shapes"])]
    snaps = [o.copy() for o in ops]
    exp = _kron_all(ops)
    results = {}
    lst = list(ops)
    results["list"] = call(tensor, lst)
    results["varargs"] = call(tensor, *ops)
    results["list_again"] = call(tensor, lst)  # the same argument objects a second time
    if len({o.shape for o in ops}) == 1:
        results["stacked"] = call(tensor, np.stack(ops))
    if len(ops) >= 3:
        left, exc = call(tensor, ops[0], ops[1])
        results["assoc_left"] = call(tensor, left, *ops[2:]) if exc is None else (None, exc)
        right, exc = call(tensor, *ops[1:])
        results["assoc_right"] = call(tensor, ops[0], right) if exc is None else (None, exc)
        results["nested_list"] = call(tensor, [ops[0], tensor(ops[1:])]) if exc is None else (None, exc)
    for name, (got, exc) in results.items():
        if exc is not None:
            return viol(f"tensor ({name} form) raised for shapes {case['shapes']}: {exc_text(exc)}", site=f"tensor:{name}_exception", observed=exc_text(exc)[:160])
        if not same_array(got, exp):
            return viol(f"tensor ({name} form) != Kronecker product for shapes {case['shapes']}", site=f"tensor:{name}",
                        observed=np.asarray(got).ravel().tolist()[:8], expected=exp.ravel().tolist()[:8])
    if len(lst) != len(ops) or any(not np.array_equal(a, b) for a, b in zip(ops, snaps)):
        return viol("tensor modified an argument", site="tensor:aliasing")
    return ok(len({tuple(s) for s in case["shapes"]}) > 1 or case["entries"] == "complex", calls=len(results))


# ================================================================================================ C16.gram
def gram_vector_sets(d, tier):
    names = ["e0", "ramp", "chirp", "g0", "g1"] + (["01", "0i1"] if d >= 3 else ["+i", "pi8ph"])
    out = []
    for k in range(1, min(d, 3) + 1):
        for sub in itertools.combinations(names, k):
            out.append(list(sub))
    # rank-deficient: more vectors than the dimension, and a duplicate
    out.append(names[: d + 1])
    out.append(["g0", "g1", "g0"])
    out.append(["ramp", "ramp"])
    if tier == "thorough":
        out.append(names)
    return out


def gram_cases(tier, seed):
    for d in (2, 3, 4) if tier == "quick" else (2, 3, 4, 5):
        for names in gram_vector_sets(d, tier):
            # field "n" = natural dtypes: every vector in the narrowest dtype that holds it (int for 0/1 vectors, float for real ones,
            # complex otherwise), so one list mixes dtypes - after seeded change C16-5 (buffer dtype taken from the first vector only)
            for field in ("c", "r", "n"):
                for scale in ("unit", "scaled"):
                    for form in ("1d", "col"):
                        if form == "col" and scale == "scaled":
                            continue
                        yield {"d": d, "names": names, "field": field, "scale": scale, "form": form}


def _gram_vectors(case):
    d = case["d"]
    vs = []
    for k, n in enumerate(case["names"]):
        v = cat.ket(d, n)
        if case["field"] == "r":
            v = np.ascontiguousarray(v.real + v.imag)  # a real vector with the same flavour
            if np.linalg.norm(v) < 1e-9:
                v = np.ascontiguousarray(cat.ket(d, n).real)
        if case["scale"] == "scaled":
            v = v * (0.5 + k)
        if case["field"] == "n" and np.abs(np.asarray(v).imag).max() == 0:
            v = np.ascontiguousarray(np.asarray(v).real)
            if np.all(v == np.round(v)):
                v = v.astype(np.int64)
        vs.append(v.reshape(-1, 1) if case["form"] == "col" else v)
    if case["field"] == "n":
        # narrowest dtype first (the order in which a user would typically write |0>, |+>, |+i>)
        vs.sort(key=lambda a: {"i": 0, "f": 1, "c": 2}[np.asarray(a).dtype.kind])
    return vs


def gram_check(case):
    mo = _mo()
    vs = _gram_vectors(case)
    n = len(vs)
    snaps = [v.copy() for v in vs]
    G, exc = call(mo.vectors_to_gram_matrix, vs)
    if exc is not None:
        return viol(f"vectors_to_gram_matrix raised: {exc_text(exc)}  {case}", site="vectors_to_gram_matrix:exception", observed=exc_text(exc)[:160])
    G = np.asarray(G)
    Gref = P.gram(vs)
    scale = max(1.0, float(np.max(np.abs(Gref))))
    if G.shape != (n, n) or float(np.max(np.abs(G - Gref))) > ALG * scale:
        return viol(f"vectors_to_gram_matrix is not the matrix of inner products <v_i, v_j> (conjugate-linear in v_i): {case}",
                    site="vectors_to_gram_matrix:definition", observed=G.tolist() if G.size <= 16 else None, expected=Gref.tolist() if G.size <= 16 else None)
    if len(vs) != n or any(not np.array_equal(a, b) for a, b in zip(vs, snaps)):
        return viol("vectors_to_gram_matrix modified its argument", site="vectors_to_gram_matrix:aliasing")
    G_again, exc = call(mo.vectors_to_gram_matrix, vs)  # the same argument objects a second time
    if exc is not None or not same_array(G_again, G):
        return viol("a second vectors_to_gram_matrix call with the same argument objects gave a different result", site="vectors_to_gram_matrix:aliasing")
    gs = G.copy()
    ws, exc = _quiet(mo.vectors_from_gram_matrix, G)
    if exc is not None:
        return viol(f"vectors_from_gram_matrix raised on a Gram matrix: {exc_text(exc)}  {case}", site="vectors_from_gram_matrix:exception",
                    observed=exc_text(exc)[:160])
    if not np.array_equal(G, gs):
        return viol("vectors_from_gram_matrix modified its argument", site="vectors_from_gram_matrix:aliasing")
    if len(ws) != n:
        return viol(f"vectors_from_gram_matrix returned {len(ws)} vectors for an {n}x{n} Gram matrix", site="vectors_from_gram_matrix:count", observed=len(ws), expected=n)
    G2, exc = call(mo.vectors_to_gram_matrix, [np.asarray(w) for w in ws])
    if exc is not None:
        return viol(f"Gram matrix of the returned vectors could not be formed: {exc_text(exc)}", site="vectors_from_gram_matrix:exception")
    G2 = np.asarray(G2)
    err = float(np.max(np.abs(G2 - G)))
    rank = int(np.sum(np.linalg.svd(Gref, compute_uv=False) > 1e-9 * scale))
    cplx = float(np.max(np.abs(Gref.imag))) > 1e-6
    if err > SPEC * scale:
        err_conj = float(np.max(np.abs(G2 - G.conj())))
        return viol(f"Gram round trip fails: max|Gram(vectors_from_gram_matrix(G)) - G| = {err:.3g}"
                    + (" (the result equals conj(G))" if err_conj <= SPEC * scale else "") + f"  {case}",
                    site="vectors_from_gram_matrix:roundtrip", observed={"err": err, "err_vs_conj": err_conj, "rank": rank, "n": n}, expected=0.0)
    return ok(n >= 2 and (cplx or rank < n), obs=round(err, 9), calls=3, rank=rank)


# ================================================================================================ C16.majorizes / spark / norms
def majorizes_cases(tier, seed):
    p6, p5, p7 = P.partitions(6), P.partitions(5), P.partitions(7)
    for a in p6:
        for b in p6 + p5 + p7:
            for form in ("list", "ndarray", "float", "shuffled"):
                yield {"a": list(a), "b": list(b), "form": form}
            yield {"a": list(b), "b": list(a), "form": "list"}
    for a in p6:
        for b in p6:
            if len(a) <= 4 and len(b) <= 4:
                yield {"a": list(a), "b": list(b), "form": "matrix"}


def majorizes_check(case):
    mp = _mp()
    a, b, form = case["a"], case["b"], case["form"]
    e = P.majorizes_ref(a, b)
    if form == "list":
        aa, bb = list(a), list(b)
    elif form == "ndarray":
        aa, bb = np.array(a), np.array(b)
    elif form == "float":
        aa, bb = np.array(a) / 6.0, np.array(b) / 6.0
    elif form == "shuffled":
        aa, bb = list(a[::-1]), list(b[1:] + b[:1])
    else:  # matrices with the given singular values (diag(a) dressed by orthogonal matrices)
        na, nb = len(a), len(b)
        aa = cat.generic_orthogonal(na, 0) @ np.diag(np.array(a, dtype=float)) @ cat.generic_orthogonal(na, 1).T
        bb = cat.generic_orthogonal(nb, 1) @ np.diag(np.array(b, dtype=float)) @ cat.generic_orthogonal(nb, 0).T
        # partial sums of singular values tie exactly on many pairs: judge only strict cases
        sa, sb = sorted(a, reverse=True), sorted(b, reverse=True)
        n = max(len(sa), len(sb))
        sa, sb = sa + [0] * (n - len(sa)), sb + [0] * (n - len(sb))
        gaps = [sum(sa[:k + 1]) - sum(sb[:k + 1]) for k in range(n)]
        if any(g == 0 for g in gaps) and all(g >= 0 for g in gaps):
            e = None
    sa_, sb_ = (list(aa) if isinstance(aa, list) else aa.copy()), (list(bb) if isinstance(bb, list) else bb.copy())
    got, exc = call(mp.majorizes, aa, bb)
    if not (np.array_equal(np.asarray(aa), np.asarray(sa_)) and np.array_equal(np.asarray(bb), np.asarray(sb_))):
        return viol("majorizes modified an argument", site="majorizes:aliasing")
    return _verdict_result(f"majorizes({a}, {b}) [{form}]", "majorizes", got, exc, e, nontrivial=sum(a) == sum(b) and a != b)


def spark_cases(tier, seed):
    thin = {(3, 3): 7, (3, 4): 211} if tier == "quick" else {(3, 4): 7}
    for r in (1, 2, 3):
        for c in (1, 2, 3, 4):
            step = thin.get((r, c), 1)
            for k, ents in enumerate(itertools.product((0, 1, -1), repeat=r * c)):
                if k % step == 0:
                    yield {"r": r, "c": c, "ents": list(ents)}


def spark_check(case):
    mp = _mp()
    r, c = case["r"], case["c"]
    M = np.array(case["ents"], dtype=np.int64).reshape(r, c)
    snap = M.copy()
    got, exc = call(mp.spark, M)
    if exc is not None:
        return viol(f"spark raised on {M.tolist()}: {exc_text(exc)}", site="spark:exception", observed=exc_text(exc)[:160])
    if not np.array_equal(M, snap):
        return viol("spark modified its argument", site="spark:aliasing")
    defn = P.spark_definition(M)
    lib = P.spark_ref(M)
    if defn != lib:
        # only possible when every subset of up to min(m, n) columns is independent and n > m: impossible (n > m columns of
        # an m-row matrix: any m+1 are dependent) -- or when all n <= m columns are independent: docstring says n_cols + 1
        e = defn
    else:
        e = defn
    if not isinstance(got, (int, np.integer)) or int(got) != e:
        return viol(f"spark({M.tolist()}) = {got!r}, smallest number of linearly dependent columns is {e} (n_cols + 1 if none)", site="spark:value",
                    observed=int(got) if isinstance(got, (int, np.integer)) else repr(got), expected=e)
    return ok(e >= 2, obs=int(got))


def norms_cases(tier, seed):
    shapes = [(1, 1), (2, 2), (2, 3), (3, 2), (3, 3), (4, 4), (3, 1), (1, 4)] + ([(5, 5), (4, 6), (6, 6)] if tier == "thorough" else [])
    for (r, c) in shapes:
        # structured special cases (added after seeded change C16-4: a Hermitian "fast path" is invisible on generic, PSD, unitary
        # or rectangular matrices): indefinite Hermitian matrices whose largest |eigenvalue| is negative, real symmetric and complex
        for kind in ("gen_c", "gen_r", "int", "lowrank", "unitary_like", "herm_indef_r", "herm_indef_c", "herm_psd", "antiherm", "normal"):
            if kind in ("unitary_like", "herm_indef_r", "herm_indef_c", "herm_psd", "antiherm", "normal") and r != c:
                continue
            for k in range(1, min(r, c) + 2):
                for p in (1, 2, 3, "inf"):
                    yield {"fn": "kp", "r": r, "c": c, "kind": kind, "k": k, "p": p}
            yield {"fn": "trace", "r": r, "c": c, "kind": kind}


def _norm_matrix(case):
    r, c, kind = case["r"], case["c"], case["kind"]
    if kind == "gen_c":
        return cat.generic_matrix(r, c, 0)
    if kind == "gen_r":
        return cat.generic_matrix(r, c, 1, real=True)
    if kind == "int":
        return np.arange(1, r * c + 1, dtype=np.int64).reshape(r, c) - 3
    if kind == "lowrank":
        return np.outer(np.arange(1, r + 1), np.arange(1, c + 1) * (1 + 1j))
    if kind in ("herm_indef_r", "herm_indef_c", "herm_psd", "antiherm", "normal"):
        spec = np.array([-5.0, 1.0, 2.0, -0.5, 3.0, -4.0][:r]) if kind != "herm_psd" else np.arange(1.0, r + 1)
        if kind == "herm_indef_r":
            u = cat.generic_orthogonal(r, 0) if r > 1 else np.eye(1)
        else:
            u = cat.generic_unitary(r, 0) if r > 1 else np.eye(1)
        if kind == "normal":
            spec = spec * np.exp(1j * np.arange(r))
        m = (u * spec) @ u.conj().T
        if kind == "antiherm":
            return 1j * (m + m.conj().T) / 2
        return m if kind == "normal" else (m + m.conj().T) / 2
    return cat.generic_unitary(r, 0) * 1.5


def norms_check(case):
    mp = _mp()
    M = _norm_matrix(case)
    snap = M.copy()
    scale = max(1.0, float(np.max(np.abs(M))) * max(M.shape))
    if case["fn"] == "trace":
        got, exc = call(mp.trace_norm, M)
        e = P.trace_norm_ref(M)
        site = "trace_norm"
    else:
        p = np.inf if case["p"] == "inf" else case["p"]
        got, exc = call(mp.kp_norm, M, case["k"], p)
        e = P.kp_norm_ref(M, case["k"], p)
        site = "kp_norm"
    if exc is not None:
        return viol(f"{site} raised on {case}: {exc_text(exc)}", site=f"{site}:exception", observed=exc_text(exc)[:160])
    if not np.array_equal(M, snap):
        return viol(f"{site} modified its argument", site=f"{site}:aliasing")
    if abs(float(got) - e) > ALG * scale:
        return viol(f"{site}({case}) = {float(got)!r}, singular-value definition gives {e!r}", site=f"{site}:value", observed=float(got), expected=e)
    return ok(min(M.shape) >= 2, obs=round(float(got), 9))


# ================================================================================================ C16.misc_helpers
def misc_cases(tier, seed):
    for d in (1, 2, 3, 4):
        names = ["e0", "g0"] if d == 1 else ["e0", "ramp", "chirp", "g0", "g1"]
        for n in names:
            for form in ("1d", "col", "row"):
                yield {"fn": "to_density", "d": d, "ket": n, "form": form}
        for key in ("gen:0:c", "udu:g0:dens", "int"):
            if d >= 2:  # a 1x1 input is both a vector and a square matrix
                yield {"fn": "to_density_square", "d": d, "key": key}
    for n in (1, 2, 3, 5):
        for form in ("1d", "col", "row", "square"):
            yield {"fn": "dimension", "n": n, "form": form}
    for sd in (0, 1, 42):
        for eps in (0, 0.1, 1e-3):
            for vset in ("doc", "kets3", "single"):
                yield {"fn": "perturb", "seed": sd, "eps": eps, "set": vset}
    for k in (1, 2, 3):
        for names in (["e0", "g0"], ["+", "-i", "pi8ph"], ["g1"]):
            yield {"fn": "tensor_comb", "k": k, "names": names}


def misc_check(case):
    mo = _mo()
    fn = case["fn"]
    if fn == "to_density":
        d = case["d"]
        v = cat.ket(d, case["ket"])
        arg = v if case["form"] == "1d" else (v.reshape(-1, 1) if case["form"] == "col" else v.reshape(1, -1))
        snap = arg.copy()
        got, exc = call(mo.to_density_matrix, arg)
        if exc is not None:
            return viol(f"to_density_matrix raised on a {case['form']} vector: {exc_text(exc)}", site="to_density_matrix:exception")
        exp = np.array([[v[i] * np.conj(v[j]) for j in range(d)] for i in range(d)])
        if np.asarray(got).shape != (d, d) or float(np.max(np.abs(np.asarray(got) - exp))) > 1e-12:
            return viol(f"to_density_matrix({case['form']} vector) != |v><v|", site="to_density_matrix:value", observed=np.asarray(got).tolist(), expected=exp.tolist())
        if not np.array_equal(arg, snap):
            return viol("to_density_matrix modified its argument", site="to_density_matrix:aliasing")
        return ok(d >= 2 and float(np.max(np.abs(v.imag))) > 0)
    if fn == "to_density_square":
        d = case["d"]
        M = matrix(d, case["key"])
        got, exc = call(mo.to_density_matrix, M)
        if exc is not None or not same_array(got, M):
            return viol("to_density_matrix(square matrix) is not returned as is", site="to_density_matrix:square", observed=None if exc is None else exc_text(exc))
        return ok(True)
    if fn == "dimension":
        n, form = case["n"], case["form"]
        arg = {"1d": np.arange(n) + 1.0, "col": np.ones((n, 1)), "row": np.ones((1, n)), "square": np.eye(n)}[form]
        got, exc = call(mo.calculate_vector_matrix_dimension, arg)
        if exc is not None:
            return viol(f"calculate_vector_matrix_dimension raised on a {form} of size {n}: {exc_text(exc)}", site="calculate_vector_matrix_dimension:exception")
        if form == "square" and n > 1:
            if got in (n, n * n):
                return indet("spec-ambiguous")  # prose: square of the side length; the docstring's own example: the side length
            return viol(f"calculate_vector_matrix_dimension(eye({n})) = {got!r}: neither the side length nor its square",
                        site="calculate_vector_matrix_dimension:value", observed=repr(got), expected=[n, n * n])
        if not isinstance(got, (int, np.integer)) or int(got) != n:
            return viol(f"calculate_vector_matrix_dimension({form} of length {n}) = {got!r}", site="calculate_vector_matrix_dimension:value",
                        observed=repr(got), expected=n)
        return ok(n >= 2)
    if fn == "perturb":
        vsets = {"doc": [np.array([1.0, 2.0]), np.array([3.0, 4.0])], "kets3": [cat.ket(3, "e0").real, cat.ket(3, "ramp").real, cat.generic_real_ket(3, 0)],
                 "single": [np.array([0.6, 0.0, 0.8, 0.0])]}
        vs = [np.array(v, dtype=float) for v in vsets[case["set"]]]
        snaps = [v.copy() for v in vs]
        eps = case["eps"]
        np.random.seed(case["seed"])
        a, exc = call(mo.perturb_vectors, vs, eps)
        if exc is not None:
            return viol(f"perturb_vectors raised: {exc_text(exc)}", site="perturb_vectors:exception")
        np.random.seed(case["seed"])
        b, _ = call(mo.perturb_vectors, vs, eps)
        a = np.asarray(a)
        if any(not np.array_equal(x, y) for x, y in zip(vs, snaps)):
            return viol("perturb_vectors modified the caller's vectors", site="perturb_vectors:aliasing")
        if a.shape != (len(vs), len(vs[0])):
            return viol(f"perturb_vectors returned shape {a.shape}", site="perturb_vectors:shape", observed=list(a.shape))
        if not np.array_equal(a, np.asarray(b)):
            return viol("perturb_vectors is not reproducible under the same global numpy seed", site="perturb_vectors:reproducible")
        if eps == 0:
            if not np.array_equal(a, np.array(vs)):
                return viol("perturb_vectors(eps=0) changed the vectors", site="perturb_vectors:eps0")
            return ok(False)
        norms = np.linalg.norm(a, axis=1)
        if float(np.max(np.abs(norms - 1))) > 1e-12:
            return viol("perturb_vectors(eps>0) did not return normalised vectors", site="perturb_vectors:normalised", observed=norms.tolist())
        dev = max(float(np.linalg.norm(a[i] - vs[i] / np.linalg.norm(vs[i]))) for i in range(len(vs)))
        bound = 2 * eps * 5 * np.sqrt(len(vs[0])) / min(np.linalg.norm(v) for v in vs)
        if dev > bound or dev == 0.0:
            return viol(f"perturbed vectors deviate by {dev:.3g} from the normalised inputs (eps={eps}; expected a non-zero deviation of order eps)",
                        site="perturb_vectors:magnitude", observed=dev, expected=bound)
        return ok(True, obs=round(dev, 9))
    if fn == "tensor_comb":
        states = [cat.ket(2, n) for n in case["names"]]
        snaps = [s.copy() for s in states]
        k = case["k"]
        got, exc = call(mo.tensor_comb, states, k)
        if exc is not None:
            return viol(f"tensor_comb raised: {exc_text(exc)}", site="tensor_comb:exception")
        seqs = list(itertools.product(range(len(states)), repeat=k))
        if not isinstance(got, dict) or list(got.keys()) != seqs:
            return viol("tensor_comb keys are not all index sequences of length k in lexicographic order", site="tensor_comb:keys")
        for seq in seqs:
            v = states[seq[0]]
            for i in seq[1:]:
                v = P.kron_ref(v, states[i])
            exp = np.outer(v, v.conj())
            if np.asarray(got[seq]).shape != exp.shape or float(np.max(np.abs(np.asarray(got[seq]) - exp))) > 1e-12:
                return viol(f"tensor_comb[{seq}] is not the density matrix of the tensor product of the selected states", site="tensor_comb:value")
        if len(states) != len(snaps) or any(not np.array_equal(a, b) for a, b in zip(states, snaps)):
            return viol("tensor_comb modified the caller's list", site="tensor_comb:aliasing")
        return ok(k >= 2 and len(states) >= 2, calls=1)
    raise KeyError(fn)


# ================================================================================================ C16.rejections
def _rejection_table():
    mp, mo, sp = _mp(), _mo(), _sp()
    e2 = np.eye(2)
    rect = np.ones((2, 3))
    s = 1 / np.sqrt(2)
    return {
        "is_square:1d": (lambda: mp.is_square(np.array([1, 2, 3])), (ValueError,)),
        "is_square:3d": (lambda: mp.is_square(np.zeros((2, 2, 2))), (ValueError,)),
        "is_stochastic:type": (lambda: mp.is_stochastic(e2, "both"), (TypeError,)),
        "is_stochastic:type_rect": (lambda: mp.is_stochastic(rect, "columns"), (TypeError,)),
        "is_nonnegative:type": (lambda: mp.is_nonnegative(e2, "positive"), (TypeError,)),
        "is_pseudo_unitary:neg_p": (lambda: mp.is_pseudo_unitary(e2, -1, 3), (ValueError,)),
        "is_pseudo_unitary:neg_q": (lambda: mp.is_pseudo_unitary(e2, 3, -1), (ValueError,)),
        "is_pseudo_hermitian:nonherm_sig": (lambda: mp.is_pseudo_hermitian(e2, np.array([[1, 1], [0, 1]])), (ValueError,)),
        "is_pseudo_hermitian:singular_sig": (lambda: mp.is_pseudo_hermitian(e2, np.diag([1.0, 0.0])), (ValueError,)),
        "has_same_dimension:empty": (lambda: mp.has_same_dimension([]), (ValueError,)),
        "is_totally_positive:empty": (lambda: mp.is_totally_positive(np.zeros((0, 0))), (ValueError,)),
        "spark:1d": (lambda: mp.spark(np.array([1, 2, 3])), (ValueError,)),
        "spark:list": (lambda: mp.spark([[1, 2], [3, 4]]), (ValueError,)),
        "is_mutually_orthogonal:one": (lambda: sp.is_mutually_orthogonal([np.array([1, 0])]), (ValueError,)),
        "is_mutually_orthogonal:none": (lambda: sp.is_mutually_orthogonal([]), (ValueError,)),
        "to_density_matrix:rect": (lambda: mo.to_density_matrix(rect), (ValueError,)),
        "to_density_matrix:3d": (lambda: mo.to_density_matrix(np.zeros((2, 2, 2))), (ValueError,)),
        "calculate_vector_matrix_dimension:list": (lambda: mo.calculate_vector_matrix_dimension([1, 2, 3]), (ValueError,)),
        "calculate_vector_matrix_dimension:rect": (lambda: mo.calculate_vector_matrix_dimension(rect), (ValueError,)),
        "calculate_vector_matrix_dimension:3d": (lambda: mo.calculate_vector_matrix_dimension(np.zeros((2, 2, 2))), (ValueError,)),
        "vectors_from_gram_matrix:rect": (lambda: mo.vectors_from_gram_matrix(np.ones((3, 2))), (np.linalg.LinAlgError,)),
        "vectors_to_gram_matrix:lengths": (lambda: mo.vectors_to_gram_matrix([np.array([1, 2]), np.array([1, 2, 3])]), (ValueError,)),
        "tensor:noargs": (lambda: mo.tensor(), (ValueError,)),
        "tensor_comb:empty": (lambda: mo.tensor_comb([], 2), (ValueError,)),
        "is_unextendible_product_basis:dims": (lambda: sp.is_unextendible_product_basis(np.eye(4), [2, 3]), (ValueError,)),
        "is_unextendible_product_basis:entangled": (lambda: sp.is_unextendible_product_basis(np.array([[s, 0, 0, s]]), [2, 2]), (ValueError,)),
    }


NONSQUARE_FALSE = ["is_hermitian", "is_anti_hermitian", "is_symmetric", "is_normal", "is_unitary", "is_identity", "is_idempotent", "is_projection",
                   "is_diagonal", "is_diagonally_dominant", "is_positive_definite", "is_positive_semidefinite", "is_density", "is_permutation",
                   "is_circulant"]


def rejection_cases(tier, seed):
    for name in ["is_square:1d", "is_square:3d", "is_stochastic:type", "is_stochastic:type_rect", "is_nonnegative:type", "is_pseudo_unitary:neg_p",
                 "is_pseudo_unitary:neg_q", "is_pseudo_hermitian:nonherm_sig", "is_pseudo_hermitian:singular_sig", "has_same_dimension:empty",
                 "is_totally_positive:empty", "spark:1d", "spark:list", "is_mutually_orthogonal:one", "is_mutually_orthogonal:none",
                 "to_density_matrix:rect", "to_density_matrix:3d", "calculate_vector_matrix_dimension:list", "calculate_vector_matrix_dimension:rect",
                 "calculate_vector_matrix_dimension:3d", "vectors_from_gram_matrix:rect", "vectors_to_gram_matrix:lengths", "tensor:noargs",
                 "tensor_comb:empty", "is_unextendible_product_basis:dims", "is_unextendible_product_basis:entangled"]:
        yield {"kind": "raises", "name": name}
    for fn in NONSQUARE_FALSE:
        for shape in ([1, 2], [2, 1], [2, 3], [3, 2], [3, 4], [1, 4]):
            for fill in ("ones", "eye", "generic"):
                yield {"kind": "nonsquare", "fn": fn, "shape": shape, "fill": fill}
    for shape in ([2, 3], [3, 2], [1, 3]):
        yield {"kind": "nonsquare", "fn": "is_stochastic", "shape": shape, "fill": "ones"}
        yield {"kind": "nonsquare", "fn": "is_pseudo_unitary", "shape": shape, "fill": "eye"}
        yield {"kind": "nonsquare", "fn": "is_pseudo_hermitian", "shape": shape, "fill": "eye"}


def rejection_check(case):
    if case["kind"] == "raises":
        thunk, excs = _rejection_table()[case["name"]]
        val, exc = _quiet(thunk)
        if exc is None:
            return viol(f"{case['name']}: the documented error was not raised; returned {val!r}", site=case["name"].split(":")[0] + ":no_error",
                        observed=repr(val)[:80], expected=[e.__name__ for e in excs])
        if not isinstance(exc, excs):
            return viol(f"{case['name']}: raised {exc_text(exc)}, documented {[e.__name__ for e in excs]}", site=case["name"].split(":")[0] + ":wrong_error",
                        observed=type(exc).__name__, expected=[e.__name__ for e in excs])
        return ok(True, obs=type(exc).__name__)
    mp = _mp()
    r, c = case["shape"]
    M = {"ones": np.ones((r, c)), "eye": np.eye(r, c), "generic": cat.generic_matrix(r, c, 2)}[case["fill"]]
    fn = case["fn"]
    if fn == "is_stochastic":
        got, exc = call(mp.is_stochastic, M / c, "right")
    elif fn == "is_pseudo_unitary":
        got, exc = call(mp.is_pseudo_unitary, M, 1, r - 1)
    elif fn == "is_pseudo_hermitian":
        got, exc = call(mp.is_pseudo_hermitian, M, np.diag([1.0] + [-1.0] * (r - 1)))
    else:
        got, exc = call(getattr(mp, fn), M)
    return _verdict_result(f"{fn} on a {r}x{c} ({case['fill']}) matrix", fn, got, exc, False)


# ================================================================================================ clause table
CLAUSES = [
    Clause(f"C16.{g}", predicate_cases(g), predicate_check, tol="exact(margin 100x tol)", weight=0.002,
           doc=f"{g} group: " + ", ".join(dict.fromkeys(v[1] for v in GROUPS[g])) + " on catalogue x perturbation x transform x tolerance variant")
    for g in GROUPS
] + [
    Clause("C16.families", families_cases, families_check, tol="exact(margin 100x tol)", weight=0.002,
           doc="exhaustive families: Sym(n) n<=4 and all maps, circulants over {0,1,i}^n, simplex-grid stochastic, totally positive "
               "(exact Fraction minors), diagonal dominance with exact ties"),
    Clause("C16.pseudo", pseudo_cases, pseudo_check, tol="exact(margin 100x tol)", weight=0.001,
           doc="is_pseudo_unitary / is_pseudo_hermitian on constructed group elements, all signatures, perturbations, tolerance variants"),
    Clause("C16.commuting", commuting_cases, commuting_check, tol="exact(margin 100x tol)", weight=0.001,
           doc="is_commuting on polynomial / simultaneously diagonal / Pauli pairs and perturbations, both argument orders"),
    Clause("C16.commutant", commutant_cases, commutant_check, tol="alg(1e-8)", weight=0.01,
           doc="commutant basis commutes with every generator, is HS-orthonormal, dimension = sum m_k^2 by construction"),
    Clause("C16.vector_sets", vector_cases, vector_check, tol="exact(margin 100x tol)", weight=0.001,
           doc="is_mutually_orthogonal / is_orthonormal / is_linearly_independent on column subsets of catalogue unitaries; has_same_dimension"),
    Clause("C16.mub", mub_cases, mub_check, tol="exact(margin 100x tol)", weight=0.002,
           doc="is_mutually_unbiased_basis on all ordered sub-collections of complete MUB sets d=2..5, rotations, phases, shuffles"),
    Clause("C16.upb", upb_cases, upb_check, tol="alg(1e-8)", weight=0.01,
           doc="is_unextendible_product_basis on Tiles / Pyramid / Shifts, each with vectors removed, local unitaries, orders; product-basis subsets; "
               "witness verified"),
    Clause("C16.states", states_cases, states_check, tol="exact(margin 100x tol)", weight=0.001,
           doc="is_pure / is_mixed / is_ensemble on the density catalogue, nearly pure states, scaled and non-PSD ensembles"),
    Clause("C16.vec_unvec", vec_cases, vec_check, tol="exact", doc="vec/unvec mutual inverses (column stacking), vec(AXB) = (B^T (x) A) vec(X) on primes"),
    Clause("C16.tensor", tensor_cases, tensor_check, tol="exact", doc="tensor list / varargs / stacked / (A, n) forms, associativity, n = 0..4(6) on prime-filled operands and n = 5..13(15) on small-entry operands"),
    Clause("C16.gram", gram_cases, gram_check, tol="spec(1e-6)", weight=0.001,
           doc="vectors_to_gram_matrix = <v_i, v_j>; Gram -> vectors -> Gram round trip on PD and rank-deficient, real and complex sets"),
    Clause("C16.majorizes", majorizes_cases, majorizes_check, tol="exact", doc="majorizes vs sorted partial sums on all pairs of partitions of 6 (and 5, 7)"),
    Clause("C16.spark", spark_cases, spark_check, tol="exact", doc="spark vs exact brute force on 0/+-1 matrices of shape <= 3x4"),
    Clause("C16.norms", norms_cases, norms_check, tol="alg(1e-9)", doc="kp_norm / trace_norm vs singular-value definitions"),
    Clause("C16.misc_helpers", misc_cases, misc_check, tol="alg(1e-12)", doc="to_density_matrix, calculate_vector_matrix_dimension, perturb_vectors, tensor_comb"),
    Clause("C16.rejections", rejection_cases, rejection_check, tol="exact", doc="documented errors are raised; non-square inputs give False"),
]

# every toqito call of this property is repeated with column-major copies of its array arguments (engine.call, layout twin)
for _c in CLAUSES:
    _c.layout_twin = True
    _c.strided_twin = True  # and with strided read-only views (engine.call)
    _c.repeat_twin = True  # repeated calls agree; scribbling over a returned array must not affect later calls (engine.call)
