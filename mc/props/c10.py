"""C10 — state discrimination values are certified optima (certified primal/dual bracket + arithmetic certificates on
toqito's own operators + closed forms + invariances), exhaustively over all sub-ensembles of the ket catalogue."""

from __future__ import annotations

import itertools

import numpy as np

from mc import catalog
from mc.engine import Clause, call, exc_text, indet, ok, viol
from mc.ref import c10_ensembles as en
from mc.ref import sdp_cert as sc

EPS = sc.EPS_IPM
CERT = 1e-3  # certificate reconstructed from an interior-point point is only sqrt(gap)-accurate: judged in the 1e-3 class

RULE = ("case = (dimension, subset of the ket catalogue or of the density catalogue, prior, input form[, unitary / "
        "relabelling]); every subset of size 2-3 (quick) / 2-5 (thorough; 2-3 for d=4) of Kets(d), d in {2,3}(+4), is "
        "executed against every listed prior, strategy and both primal and dual forms; each toqito value is compared "
        "with the harness's own primal/dual bracket [L,U] (cvxpy+CLARABEL, repaired and re-verified with eigvalsh), "
        "and toqito's returned operators are certified arithmetically; non-trivial iff the ensemble is not mutually "
        "orthogonal (certified optimum < 1 - 1e-3) [min-error, invariance], iff the certified unambiguous optimum "
        "is > 1e-3 or every state lies in the span of the others [unambiguous], always [is_distinguishable]")
ASSUMPTIONS = [
    "numpy eigh/eigvalsh/svd/matmul are correct (they carry the arithmetic certificates)",
    "weak duality of the min-error discrimination SDP and of the operator-form unambiguous SDP (proved in mc/ref/sdp_cert.py docstrings)",
    "picos exposes only the cvxopt solver for SDPs in this image, so 'every supported solver' = cvxopt",
    "ensembles bounded: 2-3 (quick) / 2-5 (thorough) states, d in {2,3} (quick) / {2,3,4} (thorough), catalogue kets and densities + 2 seed-derived generic elements each",
    "values compared with tolerance class ipm = 1e-4; dual certificates rebuilt from interior-point points (sqrt(gap)-accurate) with 1e-3; "
    "booleans judged only at margin >= 1e-3 from the boundary",
    "primal forms are called with cvxopt_kktsolver='ldl' (the remedy named in state_exclusion's docstring and used by toqito's own tests) and an "
    "iteration cap, because CVXOPT's default KKT solver raises or stalls for minutes on the redundant equality rows; dual forms with defaults",
]


def _first(problems, nontrivial=True):
    site, detail, observed, expected = problems[0]
    more = "" if len(problems) == 1 else f" (+{len(problems) - 1} further defect(s): " + ", ".join(p[0] for p in problems[1:4]) + ")"
    return viol(detail + more, site=site, observed=observed, expected=expected, nontrivial=nontrivial)


def _fresh(inputs):
    return [x.copy() for x in inputs]


# ------------------------------------------------------------------------------------------------ C10.min_error
def min_error_cases(tier, seed):
    for idx, (d, keys) in enumerate(en.ket_subsets(tier)):
        n = len(keys)
        full = tier == "thorough" and n <= 3
        for prior in en.prior_keys(n):
            forms = en.KET_FORMS if (full or prior == "g0") else ("col",)
            if tier == "quick" and n == 3 and prior == "g0":
                forms = ("col", "1d" if idx % 2 == 0 else "dm")  # the other form of each triple is in the thorough tier
            for form in forms:
                yield {"d": d, "keys": keys, "kind": "ket", "prior": prior, "form": form}
        if n == 2 or (n == 3 and tier == "thorough"):
            yield {"d": d, "keys": keys, "kind": "ket", "prior": "none", "form": "1d"}
    for d, keys in en.mixed_subsets(tier):
        for prior in en.prior_keys(len(keys)):
            yield {"d": d, "keys": keys, "kind": "dens", "prior": prior, "form": "dm"}
    # ensembles that list a state twice (cf. seeded change C12-11, which merged repeated states and summed their priors)
    for j, (d, keys) in enumerate(en.ket_subsets(tier)):
        if len(keys) == 2 and j % (6 if tier == "quick" else 2) == 0:
            yield {"d": d, "keys": [keys[0], keys[1], keys[0]], "kind": "ket", "prior": "ramp", "form": "col"}
            yield {"d": d, "keys": [keys[1], keys[1], keys[0]], "kind": "ket", "prior": "uniform", "form": "dm"}


def check_min_error_values(tag, val, rhos, w, b, problems):
    """Value-level oracles for one returned min-error value."""
    fn = "state_distinguishability"
    if not np.isfinite(val):
        problems.append((f"{fn}:value:{tag}", "returned value is not finite", val, [b["L"], b["U"]]))
        return
    if not (b["L"] - EPS <= val <= b["U"] + EPS):
        problems.append((f"{fn}:value:{tag}", f"min-error value {val:.8f} outside the certified bracket [{b['L']:.8f}, {b['U']:.8f}]",
                         val, [b["L"], b["U"]]))
    if len(rhos) == 2:
        h = sc.helstrom(rhos, w)
        if abs(val - h) > EPS:
            problems.append((f"{fn}:helstrom:{tag}", f"two states: value {val:.8f} != Helstrom bound {h:.8f}", val, h))
    if sc.pairwise_orthogonal(rhos) and abs(val - float(np.sum(w))) > EPS:
        problems.append((f"{fn}:orthogonal:{tag}", f"mutually orthogonal ensemble: value {val:.8f} != 1", val, 1.0))
    if val < float(np.max(w)) - EPS:
        problems.append((f"{fn}:max_prior:{tag}", f"value {val:.8f} below the largest prior {np.max(w):.8f}", val, float(np.max(w))))
    pgm = sc.pretty_good(rhos, w)
    if val < pgm - EPS:
        problems.append((f"{fn}:pgm:{tag}", f"value {val:.8f} below the pretty-good-measurement success probability {pgm:.8f}", val, pgm))


def check_operators(fn, tag, ms_raw, rhos, w, val, sense, problems):
    """Arithmetic certificate on the operators toqito returned."""
    try:
        ms = [sc.to_np(m) for m in ms_raw]
    except Exception as e:  # noqa: BLE001
        problems.append((f"{fn}:povm_valid:{tag}", f"returned measurement has no numeric value ({type(e).__name__})", None, None))
        return
    d = rhos[0].shape[0]
    if len(ms) != len(rhos) or any(m.shape != (d, d) for m in ms):
        problems.append((f"{fn}:povm_valid:{tag}", f"returned {len(ms)} operators of shapes {[m.shape for m in ms]} for {len(rhos)} states of dimension {d}",
                         None, None))
        return
    r = sc.povm_report(ms, rhos, w, val, sense)
    if r["neg"] > EPS or r["sum"] > EPS or r["nonherm"] > EPS:
        problems.append((f"{fn}:povm_valid:{tag}", f"returned operators are not a POVM (negativity {r['neg']:.2e}, |sum-I| {r['sum']:.2e}, "
                         f"non-Hermitian {r['nonherm']:.2e})", [r["neg"], r["sum"], r["nonherm"]], 0.0))
    if r["attain"] > EPS:
        problems.append((f"{fn}:povm_attains:{tag}", f"returned operators give sum_i p_i Tr(rho_i M_i) = {r['attained']:.8f}, reported value {float(val):.8f}",
                         r["attained"], float(val)))
    if r["yherm"] > CERT or r["yfeas"] > CERT:
        rel = ">=" if sense == "max" else "<="
        problems.append((f"{fn}:dual_certificate:{tag}", f"Y = sum_i p_i rho_i M_i is not a dual certificate (|Y-Y^dagger| {r['yherm']:.2e}, "
                         f"violation of Y {rel} p_i rho_i {r['yfeas']:.2e})", [r["yherm"], r["yfeas"]], 0.0))


def run_discrimination(inputs, probs, strategy, pd):
    from toqito.state_opt import state_distinguishability

    args = _fresh(inputs)
    before = en.digest(args, probs)
    p = None if probs is None else list(probs)
    res, exc = call(state_distinguishability, args, p, strategy, "cvxopt", pd, **en.solver_kwargs(strategy, pd))
    mutated = en.digest(args, probs) != before or (p is not None and p != list(probs))
    return res, exc, mutated


def min_error_check(case):
    """Values first, operator certificates second; one verdict per case."""
    inputs, rhos, kets, probs, w = en.build(case)
    b = sc.bracket_discrimination(rhos, w)
    if b is None:
        return indet("harness bracket unavailable (solver failure)")
    if b["U"] - b["L"] > sc.WIDE:
        return indet(f"harness bracket too wide ({b['U'] - b['L']:.1e})")
    fn = "state_distinguishability"
    problems, op_problems, vals = [], [], {}
    for pd in ("primal", "dual"):
        res, exc, mutated = run_discrimination(inputs, probs, "min_error", pd)
        if exc is not None:
            if en.solver_failure(exc):
                return indet(f"solver failure ({pd}): " + exc_text(exc))
            problems.append((f"{fn}:exception:{pd}", f"raised on an in-domain ensemble ({pd}): " + exc_text(exc), exc_text(exc), None))
            continue
        if mutated:
            problems.append((f"{fn}:mutates_input:{pd}", "the caller's states / probabilities were modified", None, None))
        if not (isinstance(res, tuple) and len(res) == 2):
            problems.append((f"{fn}:return:{pd}", f"did not return (value, measurements) but {type(res).__name__}", None, None))
            continue
        val = float(np.real(res[0]))
        vals[pd] = val
        check_min_error_values(pd, val, rhos, w, b, problems)
        check_operators(fn, pd, res[1], rhos, w, val, "max", op_problems)
    if len(vals) == 2 and abs(vals["primal"] - vals["dual"]) > 2 * EPS:
        problems.append((f"{fn}:primal_dual", f"primal {vals['primal']:.8f} and dual {vals['dual']:.8f} values differ", vals["primal"], vals["dual"]))
    problems += op_problems
    nontrivial = b["U"] < 1 - 1e-3
    if problems:
        return _first(problems, nontrivial)
    return ok(nontrivial, obs=[round(vals["primal"], 6), round(vals["dual"], 6)], calls=2,
              complex=en.is_complex_case(rhos), width=b["U"] - b["L"])


# ------------------------------------------------------------------------------------------------ C10.unambiguous
def unambiguous_cases(tier, seed):
    for d, keys in en.ket_subsets(tier):
        n = len(keys)
        if n > 4:
            continue
        for prior in en.prior_keys(n):
            yield {"d": d, "keys": keys, "kind": "ket", "prior": prior, "form": "col"}
        yield {"d": d, "keys": keys, "kind": "ket", "prior": "g0", "form": "1d"}
        if n == 2:
            yield {"d": d, "keys": keys, "kind": "ket", "prior": "none", "form": "1d"}


def unambiguous_check(case):
    inputs, rhos, kets, probs, w = en.build(case)
    n = len(kets)
    u = sc.bracket_unambiguous(kets, w)
    if u is None:
        return indet("harness bracket unavailable (ill-conditioned span or solver failure)")
    if u["U"] - u["L"] > sc.WIDE:
        return indet(f"harness bracket too wide ({u['U'] - u['L']:.1e})")
    fn = "state_distinguishability"
    problems, op_problems, vals = [], [], {}
    res, exc, _ = run_discrimination(inputs, probs, "min_error", "dual")
    v_me = None if exc is not None else float(np.real(res[0]))
    all_dependent = all(a <= 1e-9 for a in u["a"])
    for pd in ("primal", "dual"):
        tag = "unambiguous_" + pd
        res, exc, mutated = run_discrimination(inputs, probs, "unambiguous", pd)
        if exc is not None:
            if en.solver_failure(exc):
                return indet(f"solver failure ({pd}): " + exc_text(exc))
            problems.append((f"{fn}:exception:{tag}", f"raised on an in-domain pure-state ensemble ({tag}): " + exc_text(exc), exc_text(exc), None))
            continue
        if mutated:
            problems.append((f"{fn}:mutates_input:{tag}", "the caller's states / probabilities were modified", None, None))
        val = float(np.real(res[0]))
        vals[pd] = val
        if not (u["L"] - EPS <= val <= u["U"] + EPS):
            problems.append((f"{fn}:value:{tag}", f"unambiguous value {val:.8f} outside the certified bracket [{u['L']:.8f}, {u['U']:.8f}]",
                             val, [u["L"], u["U"]]))
        if v_me is not None and val > v_me + 2 * EPS:
            problems.append((f"{fn}:le_min_error:{tag}", f"unambiguous value {val:.8f} exceeds the minimum-error value {v_me:.8f}", val, v_me))
        if all_dependent and abs(val) > EPS:
            problems.append((f"{fn}:dependent_zero:{tag}", f"every state lies in the span of the others but the value is {val:.8f}", val, 0.0))
        if n == 2 and case["prior"] in ("uniform", "none"):
            cf = 1 - abs(np.vdot(kets[0], kets[1]))
            if abs(val - cf) > EPS:
                problems.append((f"{fn}:two_pure:{tag}", f"two equiprobable pure states: value {val:.8f} != 1-|<psi|phi>| = {cf:.8f}", val, cf))
        if sc.pairwise_orthogonal(rhos) and abs(val - 1) > EPS:
            problems.append((f"{fn}:orthogonal:{tag}", f"orthogonal states: unambiguous value {val:.8f} != 1", val, 1.0))
        # toqito's own optimisation variables as certificates of the documented Gram-matrix programs
        try:
            point = sc.to_np(res[1][0])
        except Exception as e:  # noqa: BLE001
            op_problems.append((f"{fn}:certificate:{tag}", f"returned variable has no numeric value ({type(e).__name__})", None, None))
            continue
        if pd == "primal":
            if point.size != n:
                op_problems.append((f"{fn}:certificate:{tag}", f"returned success probabilities of shape {point.shape}", None, None))
                continue
            r = sc.gram_primal_report(point, kets, w, val)
            if max(r.values()) > EPS:
                op_problems.append((f"{fn}:certificate:{tag}", f"returned q is not a feasible point attaining the value {r}", max(r.values()), 0.0))
        else:
            if point.shape != (n, n):
                op_problems.append((f"{fn}:certificate:{tag}", f"returned Z of shape {point.shape}", None, None))
                continue
            r = sc.gram_dual_report(point, kets, w, val)
            if max(r.values()) > EPS:
                op_problems.append((f"{fn}:certificate:{tag}", f"returned Z is not a dual-feasible point attaining the value {r}", max(r.values()), 0.0))
    if len(vals) == 2 and abs(vals["primal"] - vals["dual"]) > 2 * EPS:
        problems.append((f"{fn}:primal_dual:unambiguous", f"unambiguous primal {vals['primal']:.8f} and dual {vals['dual']:.8f} values differ",
                         vals["primal"], vals["dual"]))
    problems += op_problems
    nontrivial = u["U"] > 1e-3 or all_dependent
    if problems:
        return _first(problems, nontrivial)
    return ok(nontrivial, obs=[round(vals["primal"], 6), round(vals["dual"], 6)], calls=3, complex=en.is_complex_case(rhos))


# ------------------------------------------------------------------------------------------------ C10.invariance
CORE = {2: ("e0", "+i", "pi8ph", "trine1", "g0"), 3: ("e0", "f1", "0i1", "chirp", "g0"), 4: ("e0", "f1", "0i1", "chirp", "g0")}


def core_subsets(tier):
    for d in en.dims(tier):
        for k in (2, 3):
            for keys in itertools.combinations(CORE[d], k):
                yield d, list(keys)


def invariance_cases(tier, seed):
    for d, keys in core_subsets(tier):
        n = len(keys)
        ukeys = [k for k in catalog.unitaries(d).keys() if k != "I"]
        few = [k for k in ukeys if k in ("F", "ph", "X", "g0")]
        for prior in ("ramp", "g0"):
            for strategy in ("min_error", "unambiguous"):
                for pd in ("primal", "dual"):
                    for form in (("col", "dm") if strategy == "min_error" else ("col",)):
                        if form == "dm" and tier == "quick":
                            continue
                        for uk in (few if (strategy == "unambiguous" and tier == "quick") else ukeys):
                            yield {"d": d, "keys": keys, "kind": "ket", "prior": prior, "form": form, "strategy": strategy, "pd": pd, "U": uk}
                    for perm in itertools.permutations(range(n)):
                        if list(perm) != list(range(n)):
                            yield {"d": d, "keys": keys, "kind": "ket", "prior": prior, "form": "col", "strategy": strategy, "pd": pd,
                                   "perm": list(perm)}


def invariance_check(case):
    inputs, rhos, kets, probs, w = en.build(case)
    strategy, pd = case["strategy"], case["pd"]
    fn = "state_distinguishability"
    if strategy == "min_error":
        b = sc.bracket_discrimination(rhos, w)
    else:
        b = sc.bracket_unambiguous(kets, w)
    if b is None or b["U"] - b["L"] > sc.WIDE:
        return indet("harness bracket unavailable or wide")
    if "U" in case:
        um = catalog.unitary(case["d"], case["U"])
        t_inputs = en.apply_unitary(inputs, um)
        t_rhos = [um @ r @ um.conj().T for r in rhos]
        t_kets = [um @ k for k in kets]
        t_probs, t_w = probs, w
        what = "unitary " + case["U"]
        site = "unitary"
    else:
        perm = case["perm"]
        t_inputs = [inputs[k] for k in perm]
        t_rhos = [rhos[k] for k in perm]
        t_kets = [kets[k] for k in perm]
        t_probs = [probs[k] for k in perm]
        t_w = np.array([w[k] for k in perm])
        what = f"relabelling {perm}"
        site = "relabel"
    res0, exc0, _ = run_discrimination(inputs, probs, strategy, pd)
    res1, exc1, _ = run_discrimination(t_inputs, t_probs, strategy, pd)
    tag = f"{strategy}_{pd}"
    for exc in (exc0, exc1):
        if exc is not None:
            if en.solver_failure(exc):
                return indet("solver failure: " + exc_text(exc))
            return viol(f"raised ({tag}, {what}): " + exc_text(exc), site=f"{fn}:exception:{tag}", observed=exc_text(exc))
    v0, v1 = float(np.real(res0[0])), float(np.real(res1[0]))
    nontrivial = b["U"] < 1 - 1e-3 and b["U"] > 1e-3
    problems = []
    if abs(v0 - v1) > 2 * EPS:
        problems.append((f"{fn}:{site}_invariance:{tag}", f"value changed under {what}: {v0:.8f} -> {v1:.8f}", v1, v0))
    if not (b["L"] - EPS <= v1 <= b["U"] + EPS):
        problems.append((f"{fn}:{site}_bracket:{tag}", f"value {v1:.8f} after {what} outside the bracket of the original ensemble "
                         f"[{b['L']:.8f}, {b['U']:.8f}]", v1, [b["L"], b["U"]]))
    if strategy == "min_error":
        check_operators(fn, f"{pd}_{site}", res1[1], t_rhos, t_w, v1, "max", problems)
    elif pd == "primal":
        r = sc.gram_primal_report(sc.to_np(res1[1][0]), t_kets, t_w, v1)
        if max(r.values()) > EPS:
            problems.append((f"{fn}:certificate:{tag}_{site}", f"returned q is not feasible/attaining after {what}: {r}", max(r.values()), 0.0))
    if problems:
        return _first(problems, nontrivial)
    return ok(nontrivial, obs=[round(v0, 6), round(v1, 6)], calls=2)


# ------------------------------------------------------------------------------------------------ C10.is_distinguishable
def isdist_cases(tier, seed):
    for d, keys in en.ket_subsets(tier):
        if len(keys) > 4:
            continue
        yield {"d": d, "keys": keys, "kind": "ket", "prior": "none", "form": "col"}
        yield {"d": d, "keys": keys, "kind": "ket", "prior": "g0", "form": "1d"}
        if len(keys) == 2:
            yield {"d": d, "keys": keys, "kind": "ket", "prior": "ramp", "form": "dm"}
    for d in en.dims(tier):
        # complete orthonormal bases and their sub-bases (the only perfectly distinguishable catalogue sets of size d)
        for base in ("e", "f"):
            names = [f"{base}{k}" for k in range(d)]
            if all(nm in en.ket_names(d) for nm in names) and d == 4:  # for d <= 3 these are ordinary subsets above
                yield {"d": d, "keys": names, "kind": "ket", "prior": "none", "form": "col"}
    for d, keys in en.mixed_subsets(tier):
        if len(keys) == 2:
            yield {"d": d, "keys": keys, "kind": "dens", "prior": "none", "form": "dm"}


def isdist_check(case):
    from toqito.state_props import is_distinguishable

    inputs, rhos, kets, probs, w = en.build(case)
    b = sc.bracket_discrimination(rhos, w)
    if b is None:
        return indet("harness bracket unavailable")
    if sc.pairwise_orthogonal(rhos):
        expected = True
    elif b["U"] <= 1 - 1e-3:
        expected = False
    else:
        return indet(f"inside the decision margin (certified optimum in [{b['L']:.6f}, {b['U']:.6f}])")
    args = _fresh(inputs)
    got, exc = call(is_distinguishable, args, None if probs is None else list(probs))
    if exc is not None:
        if en.solver_failure(exc):
            return indet("solver failure: " + exc_text(exc))
        return viol("is_distinguishable raised: " + exc_text(exc), site="is_distinguishable:exception", observed=exc_text(exc))
    if not isinstance(got, (bool, np.bool_)):
        return viol(f"is_distinguishable returned {type(got).__name__}, not a boolean", site="is_distinguishable:type", observed=repr(got))
    if bool(got) != expected:
        return viol(f"is_distinguishable = {bool(got)} but the certified optimum is in [{b['L']:.6f}, {b['U']:.6f}] "
                    f"(max pair overlap {sc.max_pair_overlap(rhos):.3e})", site="is_distinguishable:verdict", observed=bool(got), expected=expected)
    return ok(True, obs=bool(got), expected=expected)


# ------------------------------------------------------------------------------------------------ C10.history
# Same exploration as C11.history (added after seeded change C11-6: solver options of one call leaked into later calls).
HIST_EVENTS = ["min_error_dual", "min_error_primal_ldl", "unambiguous_dual", "is_distinguishable_orthogonal", "is_distinguishable_pair", "loose_options"]


def history_cases(tier, seed):
    yield {"ens": ["e0", "+", "+i"], "prior": "ramp", "depth": 2}
    yield {"ens": ["e0", "g0"], "prior": "g0", "depth": 2 if tier == "quick" else 3}


def history_check(case):
    from mc.history import explore
    from toqito.state_opt import state_distinguishability
    from toqito.state_props import is_distinguishable

    kets = [catalog.ket(2, k).reshape(-1, 1) for k in case["ens"]]
    probs = [float(x) for x in en.weights(len(kets), case["prior"])]
    orth = [catalog.ket(2, "+i").reshape(-1, 1), catalog.ket(2, "-i").reshape(-1, 1)]
    pair = [catalog.ket(2, "e0").reshape(-1, 1), catalog.ket(2, "pi8ph").reshape(-1, 1)]

    def apply(_, ev):
        if ev == "loose_options":
            v, exc = call(state_distinguishability, [k.copy() for k in kets], list(probs), primal_dual="dual", abs_ipm_opt_tol=1e-2,
                          rel_ipm_opt_tol=1e-2, abs_prim_fsb_tol=1e-2, rel_prim_fsb_tol=1e-2, abs_dual_fsb_tol=1e-2, rel_dual_fsb_tol=1e-2)
            return "done" if exc is None else "EXC:" + type(exc).__name__
        if ev == "min_error_dual":
            v, exc = call(state_distinguishability, [k.copy() for k in kets], list(probs), primal_dual="dual")
        elif ev == "min_error_primal_ldl":
            v, exc = call(state_distinguishability, [k.copy() for k in kets], list(probs), primal_dual="primal", cvxopt_kktsolver="ldl")
        elif ev == "unambiguous_dual":
            v, exc = call(state_distinguishability, [k.copy() for k in kets[:2]], [0.5, 0.5], strategy="unambiguous", primal_dual="dual")
        else:
            v, exc = call(is_distinguishable, [k.copy() for k in (orth if ev.endswith("orthogonal") else pair)], [0.5, 0.5])
            return ("EXC:" + type(exc).__name__) if exc is not None else bool(v)
        if exc is not None:
            return "EXC:" + type(exc).__name__
        return round(float(np.real(v[0] if isinstance(v, tuple) else v)), 4)

    def same(a, b, ev):
        if ev == "loose_options":
            return True
        if isinstance(a, (str, bool)) or isinstance(b, (str, bool)):
            return a == b
        return abs(a - b) <= 2e-4

    stats, bad = explore(lambda: None, HIST_EVENTS, apply, lambda o: "stateless", lambda o, h: None, same, case["depth"])
    for b in bad:
        return viol(f"discrimination call history: {b['kind']} after {b.get('history')}: {b.get('after_history', '')} vs {b.get('from_initial', '')}",
                    site="discrimination_history:" + b["kind"], observed=repr(b)[:300])
    return ok(True, obs=[stats["transitions"], stats["histories"]], states=stats["states"], transitions=stats["transitions"], histories=stats["histories"])


CLAUSES = [
    Clause("C10.min_error", min_error_cases, min_error_check, tol="ipm(1e-4); certificates 1e-3", chunk=6, weight=0.15, probe=4,
           doc="min-error value in certified bracket, Helstrom / orthogonal / max-prior / PGM, primal = dual, returned operators are a POVM "
               "attaining the value with Y = sum p_i rho_i M_i dual feasible; kets in 3 forms and mixed ensembles"),
    Clause("C10.unambiguous", unambiguous_cases, unambiguous_check, tol="ipm(1e-4)", chunk=6, weight=0.12, probe=4,
           doc="unambiguous value in the operator-form certified bracket, <= min-error, 0 for dependent sets, 1-|<psi|phi>|, primal = dual, "
               "returned q / Z feasible for the documented Gram programs"),
    Clause("C10.invariance", invariance_cases, invariance_check, tol="ipm(1e-4)", chunk=6, weight=0.1, probe=4,
           doc="value unchanged under every catalogue unitary and every relabelling; operators follow the relabelling"),
    Clause("C10.is_distinguishable", isdist_cases, isdist_check, tol="exact on margin >= 1e-3", chunk=10, weight=0.06, probe=4,
           doc="is_distinguishable True for orthogonal sets, False when the certified optimum <= 1 - 1e-3"),
    Clause("C10.history", history_cases, history_check, tol="ipm(2e-4)", chunk=1, weight=10.0, probe=1,
           doc="BFS over call histories (incl. a call with loose solver options): every later value equals the value from the initial state"),
]
