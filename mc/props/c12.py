"""C12 — PPT / symmetric-extension discrimination values: ordered, dual-consistent, caller's list untouched.

Space.  Bipartite ensembles on 2x2, 2x3 (and 3x2 = 2x3 with the parties exchanged): ALL subsets of size 2-3 (quick) / 2-4 (thorough)
of a 12-ket catalogue per system (4 maximally entangled, 4 product, 2 partially entangled, 2 seed-derived generic complex kets) and a
few mixed states, x priors {uniform, ramp, generic} x subsystems {[0],[1]} x {primal, dual} x input form {column, 1-D, density
matrix} x probability container {None, list, ndarray}; hierarchy level {1, 2} x dim form {None, int, list, ndarray}.

Oracles (mc/ref/c12_ppt.py).  A certified bracket [L, U] of the PPT optimum itself (own SDP pair solved with cvxpy+CLARABEL, both points
repaired to exact feasibility and re-verified with eigvalsh; weak duality), a certified bracket of the unrestricted optimum, and the
value of explicit one-way LOCC measurements in catalogue bases (pure arithmetic).  toqito must satisfy
locc - eps <= value, value <= global U + eps, L - eps <= value <= U + eps, primal = dual, [0] = [1], returned operators = PPT POVM
attaining the value, closed forms (four Bell states 1/2, Yu-Duan-Ying 7/8, Bell + resource state), local-unitary invariance,
hierarchy level 1 = PPT value, level 2 <= level 1, every level >= explicit LOCC value (and, because PPT operators on 2x2 / 2x3 are
separable (Horodecki), >= the certified PPT lower bound).

History clause (model checking).  state = digest (bytes + shape + dtype of every element, container type and length) of the caller's
``states`` list and ``probs``; events = {hierarchy level 1, hierarchy level 2, ppt primal, ppt dual}; every history of depth 2 (thorough:
depth 3 over the cheap events) is replayed on fresh arguments with the real functions as transitions; invariant: the digest never
changes; differential oracle: the value after a history equals the value of the same event from the initial state.
"""

from __future__ import annotations

import itertools
import signal
import traceback
import zlib
from functools import lru_cache

import numpy as np

from mc import catalog, own
from mc.engine import Clause, call, exc_text, indet, ok, viol
from mc.ref import c12_ppt as R

RULE = ("case = (system, sub-ensemble of the ket catalogue [all subsets of the stated sizes], prior, and the list of calling "
        "configurations executed on it: input form x transposed party x primal/dual [x hierarchy level x dim form]); every case of "
        "the tier is executed, nothing is sampled; non-trivial iff the certified PPT optimum is < 1 - 1e-3 (the ensemble is not "
        "perfectly PPT-distinguishable) [value clauses], always [closed forms]; history: case = (ensemble, first event), every "
        "history of the stated depth over the event menu starting with that event is replayed on fresh caller-owned arguments "
        "(states = distinct digests of the caller's list/probs reached, transitions = real API calls), non-trivial iff the list "
        "holds kets (the form the function has to convert)")
ASSUMPTIONS = [
    "numpy eigvalsh/eigh/kron/matmul and reshape/transpose are correct (they carry the arithmetic certificates and the partial transpose)",
    "weak duality of the PPT discrimination SDP pair (proved in the docstring of mc/ref/c12_ppt.py); harness points are repaired to exact "
    "feasibility and re-verified, so no solver is trusted",
    "Peres-Horodecki: a PSD operator on 2x2 or 2x3 with PSD partial transpose is separable, so the certified PPT lower bound L is the value "
    "of a separable measurement and every hierarchy level must be >= L - eps",
    "tolerance classes: ipm 1e-4 (picos+CVXOPT), scs 1e-3 (cvxpy default), returned operators judged feasible within 1e-5",
    "CVXOPT's default KKT solver diverges on the redundant equality rows picos generates for sum_i M_i = I (picos issue 341, named in "
    "state_exclusion's docstring); ppt_distinguishability offers no solver options, so a primal call that raises ArithmeticError from "
    "inside cvxopt or exceeds a CPU guard of 1 s (normal: < 0.35 s) is counted as indeterminate (solver failure), never as a violation",
    "only the solvers present in the image (picos: cvxopt; cvxpy default: SCS)",
    "ensembles bounded: 2-3 (quick) / 2-4 (thorough) states on 2x2, 2x3, 3x2; hierarchy levels 1-2; histories of depth 2 (3 over the cheap menu)",
]

IPM = 1e-4
SCS = 1e-3
OPS = 1e-5  # feasibility slack for operators returned by an interior-point solver
WIDE = 1e-5  # a harness bracket wider than this is indeterminate
GUARD_CPU = 1.0


def _seed():
    return catalog.seed()


# ------------------------------------------------------------------------------------------------ guarded call / failures
class _CpuGuard(BaseException):
    """Raised by the CPU-time guard; BaseException so that no `except Exception` in a solver stack swallows it."""


_WARM = []


def _warm_picos():
    """One tiny picos/CVXOPT solve per process, outside any guard, so that the guard never measures one-off solver set-up."""
    if _WARM:
        return
    _WARM.append(True)
    try:
        import picos

        pr = picos.Problem()
        x = picos.HermitianVariable("x", (2, 2))
        pr.add_constraint(x >> 0)
        pr.add_constraint(picos.trace(x) == 1)
        pr.set_objective("max", (np.diag([1.0, 2.0]) | x).real)
        pr.solve(solver="cvxopt")
    except Exception:  # noqa: BLE001 - warm-up only
        pass


def guarded_call(cpu_s, fn, *a, **k):
    """call(fn) under a virtual (user CPU time) timer.  Returns (value, exc, timed_out)."""
    _warm_picos()

    def handler(signum, frame):
        raise _CpuGuard()
    old = signal.signal(signal.SIGVTALRM, handler)
    signal.setitimer(signal.ITIMER_VIRTUAL, cpu_s)
    try:
        val, exc = call(fn, *a, **k)
        return val, exc, False
    except _CpuGuard:
        return None, None, True
    finally:
        signal.setitimer(signal.ITIMER_VIRTUAL, 0)
        signal.signal(signal.SIGVTALRM, old)


def primal_options(fn) -> dict:
    """Solver options for the primal form.  ppt_distinguishability's siblings (state_distinguishability, state_exclusion) forward
    **kwargs to picos and document cvxopt_kktsolver="ldl" as the remedy for CVXOPT's ArithmeticError; if the function under test
    forwards options too, the remedy is applied (then the primal form returns on every ensemble); otherwise defaults + CPU guard."""
    import inspect

    try:
        params = inspect.signature(fn).parameters.values()
    except (TypeError, ValueError):
        return {}
    if any(p.kind is inspect.Parameter.VAR_KEYWORD for p in params):
        return {"cvxopt_kktsolver": "ldl"}
    return {}


def solver_failure(exc) -> bool:
    """True iff the exception is a numerical breakdown / no-solution report of the SDP solver stack (DESIGN 4.3)."""
    if type(exc).__name__ in ("SolutionFailure", "SolverError"):
        return True
    tb = traceback.extract_tb(exc.__traceback__)
    last = tb[-1].filename.replace("\\", "/") if tb else ""
    in_solver = any(p in last for p in ("/cvxopt/", "/picos/solvers/", "/scs/"))
    if isinstance(exc, ArithmeticError) and in_solver:
        return True
    if isinstance(exc, ValueError) and in_solver and "Rank(" in str(exc):
        return True
    return False


# ------------------------------------------------------------------------------------------------ building inputs
def build(case):
    """-> (objs, rhos, w, da, db): objs are 1-D kets or density matrices from the catalogue."""
    system = case["sys"]
    da, db = R.SYSTEMS[system]
    objs = [R.state(system, k) for k in case["kets"]]
    rhos = [R.proj(o) if o.ndim == 1 else R.herm(o) for o in objs]
    n = len(objs)
    if case["prior"] in ("zero0", "zeromid"):
        # one state that is never prepared (prior exactly 0), first or in the middle - added after seeded change C12-9, which dropped such
        # states from the list but kept indexing the unfiltered prior
        w = np.arange(1, n + 1, dtype=float)
        w[0 if case["prior"] == "zero0" else n // 2] = 0.0
        w = w / w.sum()
    else:
        w = catalog.prior(n, case["prior"]) if case["prior"] != "none" else np.ones(n) / n
    return objs, rhos, w, da, db


def make_states(objs, form):
    out = []
    for o in objs:
        if o.ndim == 2:
            out.append(np.array(o, dtype=complex))
        elif form == "col":
            out.append(np.array(o, dtype=complex).reshape(-1, 1))
        elif form == "1d":
            out.append(np.array(o, dtype=complex))
        elif form == "dm":
            out.append(R.proj(o))
        elif form in ("natural", "natural_dm"):
            # narrowest dtype that holds the state (float for real states, complex otherwise): one list then mixes dtypes
            # (after seeded change C12-5: the prior-weighted states were stacked into a buffer typed after the FIRST state only)
            v = np.array(o, dtype=complex)
            if np.abs(v.imag).max() == 0:
                v = np.ascontiguousarray(v.real)
            out.append(v.reshape(-1, 1) if form == "natural" else np.outer(v, np.conj(v)))
        else:
            raise KeyError(form)
    return out


def make_probs(w, pform):
    if pform == "none":
        return None
    if pform == "nd":
        return np.array(w, dtype=float)
    return [float(x) for x in w]


def digest_args(states, probs):
    parts = [type(states).__name__, str(len(states)), own.digest(*states), type(probs).__name__]
    if probs is not None:
        parts.append(own.digest(np.asarray(probs)))
        parts.append(str(len(probs)))
    return "|".join(parts)


@lru_cache(maxsize=512)
def _oracle_cached(system, keys, prior, seed):
    case = {"sys": system, "kets": list(keys), "prior": prior}
    objs, rhos, w, da, db = build(case)
    b = R.ppt_bracket(rhos, w, da, db)
    if b is None:
        return None
    g = R.global_bracket(rhos, w)
    if g is None:
        return None
    lo, how = R.locc_lower(rhos, w, da, db)
    # harness self-consistency (a failure here is a harness error, never a verdict about toqito)
    assert lo <= b["U"] + 1e-9, f"harness: explicit LOCC value {lo} above the certified PPT upper bound {b['U']}"
    assert b["L"] <= g[1] + 1e-9, f"harness: PPT lower bound {b['L']} above the global upper bound {g[1]}"
    return {"L": b["L"], "U": b["U"], "gL": g[0], "gU": g[1], "locc": lo, "how": how}


def oracle(case):
    return _oracle_cached(case["sys"], tuple(case["kets"]), case["prior"], _seed())


def pform_for(prior, idx=0):
    if prior == "none":
        return "none"
    return "nd" if idx % 2 else "list"


def subsets(system, sizes, with_mixed=False):
    names = list(R.ket_catalogue(system))
    for k in sizes:
        for sub in itertools.combinations(names, k):
            yield list(sub)


def crc(x) -> int:
    return zlib.crc32(repr(x).encode())


def _first(problems, nontrivial, **info):
    site, detail, observed, expected = problems[0]
    more = "" if len(problems) == 1 else f" (+{len(problems) - 1} more: " + ", ".join(p[0] for p in problems[1:4]) + ")"
    return viol(detail + more, site=site, observed=observed, expected=expected, nontrivial=nontrivial, **info)


FULL_CALLS = [[f, s] for f in ("col", "1d", "dm") for s in (0, 1)] + [["natural", 0], ["natural_dm", 1]]


# ------------------------------------------------------------------------------------------------ C12.ppt_value (dual form)
def ppt_value_cases(tier, seed):
    for system in ("2x2", "2x3"):
        for sub in subsets(system, (2,)):
            for prior in ("g0", "uniform", "ramp"):
                # quick: full product form x party on the generic prior, the two extreme configurations on the others
                calls = FULL_CALLS if (prior == "g0" or tier == "thorough") else [["col", 0], ["dm", 1]]
                yield {"sys": system, "kets": sub, "prior": prior, "calls": calls, "pform": pform_for(prior, crc(sub))}
            yield {"sys": system, "kets": sub, "prior": "none", "calls": [["1d", 1]] if tier == "quick" else [["col", 0], ["1d", 1]], "pform": "none"}
        for sub in subsets(system, (3,)):
            if tier == "quick":
                # deviation-bounded: default prior = generic; the two extreme calling configurations
                yield {"sys": system, "kets": sub, "prior": "g0", "calls": [["col", 0], ["dm", 1], ["natural", 0]], "pform": pform_for("g0", crc(sub))}
            else:
                for prior in ("uniform", "ramp", "g0"):
                    yield {"sys": system, "kets": sub, "prior": prior, "calls": FULL_CALLS, "pform": pform_for(prior, crc(sub))}
        if tier == "thorough":
            for sub in subsets(system, (4,)):
                for prior in ("uniform", "g0"):
                    yield {"sys": system, "kets": sub, "prior": prior, "calls": [["col", 0], ["1d", 1], ["dm", 1]], "pform": pform_for(prior, crc(sub))}
        # mixed-state ensembles (density matrices only)
        mixed = list(R.mixed_catalogue(system))
        pure = ["g0", list(R.ket_catalogue(system))[0]]
        for a, b in itertools.combinations(mixed, 2):
            yield {"sys": system, "kets": [a, b], "prior": "g0", "calls": [["dm", 0], ["dm", 1]], "pform": "list"}
        for a in mixed:
            for b in pure:
                yield {"sys": system, "kets": [a, b, mixed[(mixed.index(a) + 1) % len(mixed)]], "prior": "ramp", "calls": [["dm", 0], ["dm", 1]], "pform": "nd"}
    # the exchanged system: non-square dims the other way round
    for sub in subsets("3x2", (2, 3)):
        if tier == "quick" and crc(sub) % 8:
            continue
        yield {"sys": "3x2", "kets": sub, "prior": "g0", "calls": [["col", 0], ["dm", 1]], "pform": "list"}


def check_value(tag, val, orc, eps, fn, problems):
    """The ordering sentences of the property first, the certified bracket (which implies them) last."""
    if val > orc["gU"] + eps:
        problems.append((f"{fn}:above_global:{tag}", f"value {val:.8f} exceeds the certified unrestricted optimum {orc['gU']:.8f}", val, orc["gU"]))
    if val < orc["locc"] - eps:
        problems.append((f"{fn}:below_locc:{tag}", f"value {val:.8f} is below an explicit LOCC measurement ({orc['how']}) achieving {orc['locc']:.8f}",
                         val, orc["locc"]))
    if val < orc["L"] - eps or val > orc["U"] + eps:
        problems.append((f"{fn}:bracket:{tag}", f"value {val:.8f} outside the certified bracket [{orc['L']:.8f}, {orc['U']:.8f}] of the PPT optimum",
                         val, [orc["L"], orc["U"]]))


def ppt_value_check(case):
    from toqito.state_opt import ppt_distinguishability

    objs, rhos, w, da, db = build(case)
    orc = oracle(case)
    if orc is None:
        return indet("harness bracket unavailable (solver failure)")
    if orc["U"] - orc["L"] > WIDE:
        return indet(f"harness bracket too wide ({orc['U'] - orc['L']:.1e})")
    fn = "ppt_distinguishability"
    problems, vals, ncalls = [], {}, 0
    args_by_form = {}
    probs = make_probs(w, case["pform"])
    for form, sub in case["calls"]:
        if form not in args_by_form:
            args_by_form[form] = make_states(objs, form)
        args = args_by_form[form]  # the same argument objects are reused for the second call in that form
        before = digest_args(args, probs)
        res, exc = call(ppt_distinguishability, args, [sub], [da, db], probs, "min_error", "cvxopt", "dual")
        ncalls += 1
        if digest_args(args, probs) != before:
            problems.append((f"{fn}:aliasing", f"the caller's states / probs were modified (form {form}, subsystems [{sub}], dual)", None, None))
            args_by_form[form] = make_states(objs, form)
        if exc is not None:
            if solver_failure(exc):
                return indet(f"solver failure (dual, {form}, [{sub}]): " + exc_text(exc))
            problems.append((f"{fn}:exception:dual", f"raised on an in-domain ensemble (form {form}, subsystems [{sub}]): " + exc_text(exc), exc_text(exc), None))
            continue
        if not (isinstance(res, tuple) and len(res) == 2):
            problems.append((f"{fn}:return", f"did not return (value, measurements) but {type(res).__name__}", None, None))
            continue
        val = float(np.real(res[0]))
        vals[(form, sub)] = val
        check_value(f"dual:{form}", val, orc, IPM, fn, problems)
    ref_key = next(iter(vals), None)
    for key, v in vals.items():
        if abs(v - vals[ref_key]) > 2 * IPM:
            what = "party" if key[0] == ref_key[0] else "form"
            problems.append((f"{fn}:{what}_invariance", f"value {v:.8f} for (form, transposed party) = {key} differs from {vals[ref_key]:.8f} for {ref_key}",
                             v, vals[ref_key]))
    nontrivial = orc["U"] < 1 - 1e-3
    if problems:
        return _first(problems, nontrivial, calls=ncalls)
    first = vals[ref_key] if ref_key is not None else None
    return ok(nontrivial, obs=None if first is None else round(first, 6), calls=ncalls, ppt_below_global=bool(orc["gL"] - orc["U"] > 1e-3))


# ------------------------------------------------------------------------------------------------ C12.ppt_primal_dual (+ returned operators)
def primal_dual_cases(tier, seed):
    for system in ("2x2", "2x3"):
        for sub in subsets(system, (2,)):
            if tier == "quick" and system == "2x2" and crc(sub) % 2:
                continue  # on the unchanged tree every 2x2 primal call ends in a CVXOPT breakdown (about 1 CPU-s each): halve them in quick
            yield {"sys": system, "kets": sub, "prior": "g0", "form": "col", "sub": crc(sub) % 2, "pform": "list"}
            if tier == "thorough":
                yield {"sys": system, "kets": sub, "prior": "uniform", "form": "dm", "sub": 1 - crc(sub) % 2, "pform": "nd"}
        for sub in subsets(system, (3,)):
            if tier == "quick" and crc(sub) % 8:
                continue
            yield {"sys": system, "kets": sub, "prior": "g0" if crc(sub) % 16 < 8 else "uniform", "form": "col" if crc(sub) % 3 else "dm",
                   "sub": crc(sub) % 2, "pform": "list"}
            if crc(sub) % 16 == 0:
                yield {"sys": system, "kets": sub, "prior": "zero0", "form": "col", "sub": crc(sub) % 2, "pform": "list"}
        if tier == "thorough":
            for sub in subsets(system, (4,)):
                if crc(sub) % 6:
                    continue
                yield {"sys": system, "kets": sub, "prior": "g0", "form": "col", "sub": crc(sub) % 2, "pform": "list"}


def check_operators(fn, pd, ms, rhos, w, val, da, db, problems):
    try:
        rep = R.povm_report(ms, rhos, w, val, da, db)
    except Exception as e:  # noqa: BLE001 - no usable operators were returned
        problems.append((f"{fn}:povm_missing:{pd}", f"returned measurement operators cannot be read ({type(e).__name__}: {e})", None, None))
        return
    if len(ms) != len(rhos):
        problems.append((f"{fn}:povm_count:{pd}", f"{len(ms)} operators for {len(rhos)} states", len(ms), len(rhos)))
        return
    if rep["neg"] < -OPS or rep["sum"] > OPS or rep["nonherm"] > OPS:
        problems.append((f"{fn}:povm_valid:{pd}", f"returned operators are not a POVM (min eigenvalue {rep['neg']:.2e}, |sum - I| {rep['sum']:.2e}, "
                         f"non-Hermitian part {rep['nonherm']:.2e})", [rep["neg"], rep["sum"], rep["nonherm"]], 0.0))
    if rep["negpt"] < -OPS:
        problems.append((f"{fn}:povm_ppt:{pd}", f"a returned operator is not PPT (min eigenvalue of the partial transpose {rep['negpt']:.2e})", rep["negpt"], 0.0))
    if rep["gap"] > IPM:
        problems.append((f"{fn}:povm_attains:{pd}", f"returned operators give sum_i p_i Tr(rho_i M_i) = {rep['attained']:.8f} but the reported value is "
                         f"{float(val):.8f} (their transposes give {rep['attained_transposed']:.8f})",
                         [rep["attained"], float(val), rep["attained_transposed"]], float(val)))


def primal_dual_check(case):
    from toqito.state_opt import ppt_distinguishability

    objs, rhos, w, da, db = build(case)
    orc = oracle(case)
    if orc is None:
        return indet("harness bracket unavailable (solver failure)")
    if orc["U"] - orc["L"] > WIDE:
        return indet(f"harness bracket too wide ({orc['U'] - orc['L']:.1e})")
    fn = "ppt_distinguishability"
    sub, form = case["sub"], case["form"]
    args = make_states(objs, form)
    probs = make_probs(w, case["pform"])
    problems, op_problems, vals, failed = [], [], {}, None
    nontrivial = orc["U"] < 1 - 1e-3
    for pd in ("dual", "primal"):
        before = digest_args(args, probs)
        if pd == "primal":
            res, exc, timed_out = guarded_call(GUARD_CPU, ppt_distinguishability, args, [sub], [da, db], probs, "min_error", "cvxopt", pd,
                                               **primal_options(ppt_distinguishability))
        else:
            res, exc = call(ppt_distinguishability, args, [sub], [da, db], probs, "min_error", "cvxopt", pd)
            timed_out = False
        if digest_args(args, probs) != before:
            problems.append((f"{fn}:aliasing", f"the caller's states / probs were modified ({pd})", None, None))
            args = make_states(objs, form)
        if timed_out:
            failed = f"solver failure ({pd}): no solution within {GUARD_CPU} CPU-s (CVXOPT diverging)"
            continue
        if exc is not None:
            if solver_failure(exc):
                failed = f"solver failure ({pd}): " + exc_text(exc)
                continue
            problems.append((f"{fn}:exception:{pd}", f"raised on an in-domain ensemble ({pd}): " + exc_text(exc), exc_text(exc), None))
            continue
        if not (isinstance(res, tuple) and len(res) == 2):
            problems.append((f"{fn}:return", f"did not return (value, measurements) but {type(res).__name__}", None, None))
            continue
        val = float(np.real(res[0]))
        vals[pd] = val
        check_value(pd, val, orc, IPM, fn, problems)
        check_operators(fn, pd, list(res[1]), rhos, w, val, da, db, op_problems)
    if len(vals) == 2 and abs(vals["primal"] - vals["dual"]) > 2 * IPM:
        problems.append((f"{fn}:primal_dual", f"primal {vals['primal']:.8f} and dual {vals['dual']:.8f} values differ", vals["primal"], vals["dual"]))
    problems += op_problems  # values first, operator certificates second
    if problems:
        return _first(problems, nontrivial, calls=2)
    if failed:
        return indet(failed)
    return ok(nontrivial, obs=[round(vals["primal"], 6), round(vals["dual"], 6)], calls=2, complex=bool(any(np.abs(r.imag).max() > 1e-9 for r in rhos)))


# ------------------------------------------------------------------------------------------------ C12.closed_forms
def _bell(k):
    s = 1 / np.sqrt(2)
    return np.array([[s, 0, 0, s], [s, 0, 0, -s], [0, s, s, 0], [0, s, -s, 0]][k], dtype=complex)


def closed_cases(tier, seed):
    for form in ("col", "1d", "dm"):
        for sub in (0, 1):
            for pd in ("primal", "dual"):
                yield {"what": "bell4", "form": form, "sub": sub, "pd": pd}
    for level in (1, 2):
        for form in ("col", "dm"):
            yield {"what": "bell4_hierarchy", "level": level, "form": form}
    # 16-dimensional ensembles: one CVXOPT solve costs 8 s (dual) to 60 s (primal) of CPU; the primal ones are thorough-only
    yield {"what": "ydy", "subs": [0, 2], "pd": "dual", "form": "col"}
    yield {"what": "ydy", "subs": [1, 3], "pd": "dual", "form": "dm"}
    yield {"what": "bell_resource", "eps": "0.5", "pd": "dual", "subs": [0, 2]}
    if tier == "thorough":
        yield {"what": "ydy", "subs": [0, 2], "pd": "primal", "form": "col"}
        yield {"what": "ydy", "subs": [1, 3], "pd": "dual", "form": "col"}
        yield {"what": "bell_resource", "eps": "0.5", "pd": "primal", "subs": [0, 2]}
        yield {"what": "bell_resource", "eps": "0.8", "pd": "dual", "subs": [1, 3]}


def closed_check(case):
    from toqito.state_opt import ppt_distinguishability, symmetric_extension_hierarchy

    what = case["what"]
    if what in ("bell4", "bell4_hierarchy"):
        kets = [_bell(k) for k in range(4)]
        states = make_states(kets, case["form"])
        before = digest_args(states, None)
        if what == "bell4":
            opts = primal_options(ppt_distinguishability) if case["pd"] == "primal" else {}
            res, exc, timed_out = guarded_call(GUARD_CPU, ppt_distinguishability, states, [case["sub"]], [2, 2], None, "min_error", "cvxopt", case["pd"], **opts)
            fn = "ppt_distinguishability"
            eps = IPM
        else:
            res, exc = call(symmetric_extension_hierarchy, states, None, case["level"])
            timed_out = False
            fn = "symmetric_extension_hierarchy"
            eps = SCS
        changed = digest_args(states, None) != before
        if timed_out or (exc is not None and solver_failure(exc)):
            return indet("solver failure: " + ("CPU guard" if timed_out else exc_text(exc)))
        if exc is not None:
            return viol(f"{fn} raised on the four Bell states: " + exc_text(exc), site=f"{fn}:exception:bell4", observed=exc_text(exc))
        val = float(np.real(res[0] if isinstance(res, tuple) else res))
        if abs(val - 0.5) > eps:
            return viol(f"{fn} on the four Bell states with equal priors gives {val:.6f}, expected 1/2", site=f"{fn}:bell4", observed=val, expected=0.5)
        if changed:
            return viol("the caller's list of states was modified", site=f"{fn}:aliasing")
        return ok(True, obs=round(val, 5))
    # four-qubit ensembles: qubit order A1 B1 A2 B2, Alice holds qubits 0 and 2
    if what == "ydy":
        pairs = [(0, 0), (2, 1), (3, 1), (1, 1)]  # psi0 psi0, psi1 psi3, psi2 psi3, psi3 psi3 with psi1 = bell(2), psi2 = bell(3), psi3 = bell(1)
        kets = [np.kron(_bell(a), _bell(b)) for a, b in pairs]
        expected = 7 / 8
    else:
        e = float(case["eps"])
        tau = np.zeros(4, dtype=complex)
        tau[0], tau[3] = np.sqrt((1 + e) / 2), np.sqrt((1 - e) / 2)
        kets = [np.kron(_bell(k), tau) for k in range(4)]
        expected = 0.5 * (1 + np.sqrt(1 - e * e))
    states = make_states(kets, case.get("form", "col"))
    probs = [0.25] * 4
    before = digest_args(states, probs)
    opts = primal_options(ppt_distinguishability) if case["pd"] == "primal" else {}
    res, exc, timed_out = guarded_call(150 * GUARD_CPU, ppt_distinguishability, states, list(case["subs"]), [2, 2, 2, 2], probs, "min_error", "cvxopt", case["pd"], **opts)
    if timed_out or (exc is not None and solver_failure(exc)):
        return indet("solver failure: " + ("CPU guard" if timed_out else exc_text(exc)))
    if exc is not None:
        return viol(f"ppt_distinguishability raised on the {what} ensemble: " + exc_text(exc), site=f"ppt_distinguishability:exception:{what}", observed=exc_text(exc))
    val = float(np.real(res[0]))
    if abs(val - expected) > IPM:
        return viol(f"ppt_distinguishability on the {what} ensemble (subsystems {case['subs']}) gives {val:.6f}, expected {expected:.6f}",
                    site=f"ppt_distinguishability:{what}", observed=val, expected=float(expected))
    if digest_args(states, probs) != before:
        return viol("the caller's states / probs were modified", site="ppt_distinguishability:aliasing")
    return ok(True, obs=round(val, 5))


# ------------------------------------------------------------------------------------------------ C12.local_unitary
def lu_ensembles(system, tier):
    names = list(R.ket_catalogue(system))
    ent = names[0:2]
    out = [([ent[0], names[4], "g0"], "g0"), ([names[8], "g1"], "ramp"), ([ent[1], names[9], names[7]], "uniform"), ([names[2], names[3], names[0]], "g0")]
    if tier == "thorough":
        out += [(["g0", "g1", names[5]], "ramp"), ([names[1], names[6]], "g0")]
    return out


def lu_cases(tier, seed):
    for system in ("2x2", "2x3"):
        for kets, prior in lu_ensembles(system, tier):
            for i, (ua, ub) in enumerate(R.local_unitary_pairs(system, tier)):
                yield {"sys": system, "kets": kets, "prior": prior, "ua": ua, "ub": ub, "sub": i % 2, "form": ("col", "dm", "1d")[i % 3]}


def lu_check(case):
    from toqito.state_opt import ppt_distinguishability

    objs, rhos, w, da, db = build(case)
    orc = oracle(case)
    if orc is None or orc["U"] - orc["L"] > WIDE:
        return indet("harness bracket unavailable or wide")
    W = np.kron(catalog.unitary(da, case["ua"]), catalog.unitary(db, case["ub"]))
    moved = [W @ o for o in objs]
    states = make_states(moved, case["form"])
    probs = make_probs(w, "list")
    before = digest_args(states, probs)
    res, exc = call(ppt_distinguishability, states, [case["sub"]], [da, db], probs, "min_error", "cvxopt", "dual")
    fn = "ppt_distinguishability"
    if exc is not None:
        if solver_failure(exc):
            return indet("solver failure: " + exc_text(exc))
        return viol("raised on a locally rotated ensemble: " + exc_text(exc), site=f"{fn}:exception:dual", observed=exc_text(exc))
    val = float(np.real(res[0]))
    nontrivial = orc["U"] < 1 - 1e-3
    if val < orc["L"] - IPM or val > orc["U"] + IPM:
        return viol(f"value {val:.8f} of the ensemble rotated by U_A (x) U_B = {case['ua']} (x) {case['ub']} is outside the certified bracket "
                    f"[{orc['L']:.8f}, {orc['U']:.8f}] of the unrotated ensemble", site=f"{fn}:local_unitary", observed=val, expected=[orc["L"], orc["U"]],
                    nontrivial=nontrivial)
    if digest_args(states, probs) != before:
        return viol("the caller's states / probs were modified", site=f"{fn}:aliasing", nontrivial=nontrivial)
    return ok(nontrivial, obs=round(val, 6))


# ------------------------------------------------------------------------------------------------ C12.hierarchy
DIMFORMS = ("list", "none", "int", "nd")


def dim_arg(dimform, da, db):
    if dimform == "none":
        return None
    if dimform == "int":
        return int(da)
    if dimform == "nd":
        return np.array([da, db])
    return [int(da), int(db)]


def level2_ensembles(system, tier):
    names = list(R.ket_catalogue(system))
    me, prod, pe = names[0:4], names[4:8], names[8:10]
    out = [([me[0], "g0"], "g0"), ([pe[0], prod[3]], "ramp"), ([me[1], pe[1]], "uniform"), (["g0", "g1"], "g0")]
    if system == "2x2":
        out += [([me[0], me[2], pe[0]], "g0"), ([prod[1], prod[2], "g1"], "ramp"), ([me[3], prod[3], "g0"], "uniform"), ([me[0], me[1], me[2]], "g0"),
                ([pe[0], pe[1], "g1"], "g0"), ([me[1], prod[0], prod[2]], "ramp")]
    if tier == "thorough":
        out += [([a, b], "g0") for a, b in itertools.combinations(names, 2) if crc((a, b)) % (3 if system == "2x2" else 6) == 0]
        if system == "2x2":
            out += [(list(s), "g0") for s in itertools.combinations(names, 3) if crc(s) % 10 == 0]
            out += [([me[0], me[1], me[2], "g0"], "g0"), ([prod[0], pe[0], me[3], "g1"], "ramp")]
        elif system == "2x3":
            out += [([me[0], me[2], pe[0]], "g0"), ([prod[1], "g0", "g1"], "ramp")]
    return out


def hierarchy_cases(tier, seed):
    # level 1 = PPT value: every pair, default configuration (column kets, dim as list)
    for system in ("2x2", "2x3"):
        for sub in subsets(system, (2,)):
            yield {"sys": system, "kets": sub, "prior": "g0", "form": "col", "dim": "list", "level": 1, "pform": pform_for("g0", crc(sub))}
            # ensembles that list a state twice (added after seeded change C12-11, which merged repeated states and summed their priors)
            if crc(sub) % (4 if tier == "quick" else 1) == 0:
                yield {"sys": system, "kets": [sub[0], sub[1], sub[0]], "prior": "ramp", "form": "col", "dim": "list", "level": 1, "pform": "list"}
                yield {"sys": system, "kets": [sub[0], sub[0]], "prior": "g0", "form": "dm", "dim": "list", "level": 1 + crc(sub) % 2, "pform": "list"}
        for sub in subsets(system, (3,)):
            if crc(sub) % (16 if tier == "quick" else 2):
                continue
            yield {"sys": system, "kets": sub, "prior": ("g0", "ramp", "uniform")[crc(sub) % 3], "form": ("col", "dm")[crc(sub) % 2], "dim": "list", "level": 1,
                   "pform": "list"}
            if crc(sub) % (32 if tier == "quick" else 4) == 0:
                for zp in ("zero0", "zeromid"):
                    yield {"sys": system, "kets": sub, "prior": zp, "form": "col", "dim": "list", "level": 1, "pform": "list"}
        if tier == "thorough":
            for sub in subsets(system, (4,)):
                if crc(sub) % 12:
                    continue
                yield {"sys": system, "kets": sub, "prior": "g0", "form": "col", "dim": "list", "level": 1, "pform": "list"}
    # dim forms x input forms x prior container on a fixed set of ensembles, all three systems
    for system in ("2x2", "2x3", "3x2"):
        names = list(R.ket_catalogue(system))
        ens = [([names[0], names[5], "g0"], "g0"), ([names[9], "g1"], "ramp")]
        if tier == "thorough":
            ens += [([names[1], names[2], names[6]], "uniform"), ([names[8], names[7]], "g0")]
        for kets, prior in ens:
            for dimform in DIMFORMS:
                for form in ("col", "dm"):
                    if system == "3x2" and dimform == "none":
                        continue  # the default (equal dimensions / rounded square root) describes 2x3, not 3x2
                    for pform in ("list", "nd"):
                        yield {"sys": system, "kets": kets, "prior": prior, "form": form, "dim": dimform, "level": 1, "pform": pform}
            yield {"sys": system, "kets": kets, "prior": "none", "form": "col", "dim": "list", "level": 1, "pform": "none"}
        mixed = list(R.mixed_catalogue(system))
        yield {"sys": system, "kets": [mixed[0], mixed[2]], "prior": "g0", "form": "dm", "dim": "list", "level": 1, "pform": "list"}
        yield {"sys": system, "kets": [mixed[1], mixed[3], "g0"], "prior": "ramp", "form": "dm", "dim": "int", "level": 1, "pform": "nd"}
    # level 2 (bounded count)
    for system in ("2x2", "2x3", "3x2"):
        ens = level2_ensembles("2x3" if system == "3x2" else system, tier)
        if system == "3x2":
            ens = ens[:3] if tier == "quick" else ens[:8]
        for i, (kets, prior) in enumerate(ens):
            yield {"sys": system, "kets": kets, "prior": prior, "form": ("col", "dm")[i % 2], "dim": ("list", "int", "nd")[i % 3], "level": 2, "pform": ("list", "nd")[i % 2]}
    mixed = list(R.mixed_catalogue("2x2"))
    yield {"sys": "2x2", "kets": [mixed[0], mixed[1]], "prior": "g0", "form": "dm", "dim": "list", "level": 2, "pform": "list"}


def hierarchy_check(case):
    from toqito.state_opt import ppt_distinguishability, symmetric_extension_hierarchy

    objs, rhos, w, da, db = build(case)
    orc = oracle(case)
    if orc is None or orc["U"] - orc["L"] > WIDE:
        return indet("harness bracket unavailable or wide")
    fn = "symmetric_extension_hierarchy"
    level = case["level"]
    states = make_states(objs, case["form"])
    probs = make_probs(w, case["pform"])
    dim = dim_arg(case["dim"], da, db)
    dim_before = None if not isinstance(dim, np.ndarray) else dim.copy()
    nontrivial = orc["U"] < 1 - 1e-3
    problems, ncalls = [], 0
    before = digest_args(states, probs)
    vals = {}
    levels = (1,) if level == 1 else (2, 1)
    for lv in levels:
        res, exc = call(symmetric_extension_hierarchy, states, probs, lv, dim)
        ncalls += 1
        changed = digest_args(states, probs) != before or (dim_before is not None and not np.array_equal(dim, dim_before))
        if changed:
            problems.append((f"{fn}:aliasing", f"the caller's list of states (form {case['form']}) / probs / dim was modified by the call at level {lv}", None, None))
            states = make_states(objs, case["form"])
            before = digest_args(states, probs)
        if exc is not None:
            if solver_failure(exc):
                return indet(f"solver failure (level {lv}): " + exc_text(exc))
            return viol(f"raised on an in-domain ensemble (level {lv}, dim form {case['dim']}, form {case['form']}): " + exc_text(exc),
                        site=f"{fn}:exception:dim_{case['dim']}", observed=exc_text(exc), nontrivial=nontrivial)
        if res is None or not np.isfinite(float(np.real(res))):
            return indet(f"solver returned no value at level {lv}")
        vals[lv] = float(np.real(res))
    value_problems = []
    v1 = vals[1]
    if v1 < orc["L"] - SCS or v1 > orc["U"] + SCS:
        value_problems.append((f"{fn}:level1_is_ppt", f"level 1 value {v1:.6f} is outside the certified bracket [{orc['L']:.6f}, {orc['U']:.6f}] of the PPT optimum "
                               f"(dim form {case['dim']})", v1, [orc["L"], orc["U"]]))
    if level == 1:
        # against toqito's own PPT value as the statement says (dual form, the robust one)
        res, exc = call(ppt_distinguishability, make_states(objs, case["form"]), [0], [da, db], make_probs(w, "list"), "min_error", "cvxopt", "dual")
        ncalls += 1
        if exc is None:
            pv = float(np.real(res[0]))
            if abs(pv - v1) > SCS + IPM:
                value_problems.append((f"{fn}:level1_vs_ppt_distinguishability", f"level 1 value {v1:.6f} differs from ppt_distinguishability {pv:.6f}", v1, pv))
    for lv, v in vals.items():
        if v < orc["locc"] - SCS:
            value_problems.append((f"{fn}:below_locc:level{lv}", f"level {lv} value {v:.6f} is below an explicit LOCC (separable) measurement "
                                   f"({orc['how']}) achieving {orc['locc']:.6f}", v, orc["locc"]))
    if level == 2:
        v2 = vals[2]
        if v2 > v1 + SCS:
            value_problems.append((f"{fn}:monotone", f"level 2 value {v2:.6f} exceeds level 1 value {v1:.6f}", v2, v1))
        if v2 > orc["U"] + SCS:
            value_problems.append((f"{fn}:level2_above_ppt", f"level 2 value {v2:.6f} exceeds the certified PPT upper bound {orc['U']:.6f}", v2, orc["U"]))
        if v2 < orc["L"] - SCS:
            value_problems.append((f"{fn}:level2_below_separable", f"level 2 value {v2:.6f} is below {orc['L']:.6f}, the value of an arithmetic-verified PPT "
                                   f"POVM which on {case['sys']} is a separable measurement", v2, orc["L"]))
    problems = value_problems + problems
    if problems:
        return _first(problems, nontrivial, calls=ncalls)
    return ok(nontrivial, obs=[round(vals[k], 4) for k in sorted(vals)], calls=ncalls)


# ------------------------------------------------------------------------------------------------ C12.history (BFS over call histories)
EVENT_FN = {"L1": "symmetric_extension_hierarchy", "L2": "symmetric_extension_hierarchy", "P": "ppt_distinguishability", "D": "ppt_distinguishability"}
EVENT_TOL = {"L1": SCS, "L2": SCS, "P": IPM, "D": IPM}
FULL_MENU = ["L1", "L2", "P", "D"]
CHEAP_MENU = ["L1", "P", "D"]


def history_ensembles(tier):
    n22, n23 = list(R.ket_catalogue("2x2")), list(R.ket_catalogue("2x3"))
    m22 = list(R.mixed_catalogue("2x2"))
    out = [
        {"sys": "2x2", "kets": n22[0:4], "prior": "none", "form": "col", "pform": "none"},
        {"sys": "2x2", "kets": [n22[7], n22[8], "g0"], "prior": "g0", "form": "col", "pform": "nd"},
        {"sys": "2x2", "kets": [n22[0], "g1"], "prior": "ramp", "form": "dm", "pform": "list"},
        {"sys": "2x2", "kets": [m22[0], m22[2]], "prior": "g0", "form": "dm", "pform": "list"},
        {"sys": "2x3", "kets": [n23[3], "g0"], "prior": "g0", "form": "col", "pform": "list"},
    ]
    if tier == "thorough":
        out += [
            {"sys": "2x3", "kets": [n23[8], n23[5]], "prior": "ramp", "form": "dm", "pform": "nd"},
            {"sys": "2x2", "kets": [n22[1], n22[5], n22[9]], "prior": "uniform", "form": "col", "pform": "list"},
            {"sys": "2x2", "kets": ["g0", "g1"], "prior": "g0", "form": "col", "pform": "nd"},
            {"sys": "2x2", "kets": [n22[2], n22[6], "g1", n22[9]], "prior": "g0", "form": "col", "pform": "list"},
            {"sys": "2x3", "kets": [n23[0], n23[6], "g1"], "prior": "g0", "form": "col", "pform": "nd"},
            {"sys": "3x2", "kets": [n23[1], n23[9]], "prior": "ramp", "form": "col", "pform": "list"},
            {"sys": "3x2", "kets": [n23[4], "g0", n23[2]], "prior": "uniform", "form": "dm", "pform": "list"},
        ]
    return out


def history_cases(tier, seed):
    for ens in history_ensembles(tier):
        for first in FULL_MENU:
            yield {**ens, "menu": FULL_MENU, "depth": 2, "first": first}
        if tier == "thorough" and ens["sys"] != "2x3":
            for first in CHEAP_MENU:
                yield {**ens, "menu": CHEAP_MENU, "depth": 3, "first": first}


def _apply_event(ev, states, probs, da, db):
    """One transition: the real call.  Returns ("val", float) | ("fail", text)."""
    from toqito.state_opt import ppt_distinguishability, symmetric_extension_hierarchy

    if ev in ("L1", "L2"):
        res, exc = call(symmetric_extension_hierarchy, states, probs, int(ev[1]), [da, db])
        timed_out = False
    else:
        opts = primal_options(ppt_distinguishability) if ev == "P" else {}
        res, exc, timed_out = guarded_call(GUARD_CPU, ppt_distinguishability, states, [0], [da, db], probs, "min_error", "cvxopt",
                                           "primal" if ev == "P" else "dual", **opts)
    if timed_out:
        return ("fail", "cpu guard")
    if exc is not None:
        if solver_failure(exc):
            return ("fail", exc_text(exc))
        return ("exc", exc_text(exc))
    val = res[0] if isinstance(res, tuple) else res
    if val is None or not np.isfinite(float(np.real(val))):
        return ("fail", "no value")
    return ("val", float(np.real(val)))


def history_check(case):
    objs, rhos, w, da, db = build(case)
    menu, depth, first = case["menu"], case["depth"], case["first"]

    def fresh():
        return make_states(objs, case["form"]), make_probs(w, case["pform"])

    s0, p0 = fresh()
    d0 = digest_args(s0, p0)
    seen = {d0}
    transitions = 0
    # values of every event from the initial state (the differential oracle's reference)
    base = {}
    for ev in menu:
        s, p = fresh()
        base[ev] = _apply_event(ev, s, p, da, db)
        transitions += 1
        dg = digest_args(s, p)
        seen.add(dg)
        if base[ev][0] == "exc":
            return viol(f"{EVENT_FN[ev]} raised from the initial state (event {ev}): {base[ev][1]}", site=f"{EVENT_FN[ev]}:exception:history", observed=base[ev][1],
                        states=len(seen), transitions=transitions)
        if dg != d0:
            return viol(f"event {ev} from the initial state changed the caller's list of states / probs "
                        f"(element shapes before {[tuple(x.shape) for x in s0]}, after {[tuple(np.shape(x)) for x in s]})",
                        site=f"{EVENT_FN[ev]}:aliasing", observed=[list(np.shape(x)) for x in s], expected=[list(x.shape) for x in s0],
                        states=len(seen), transitions=transitions)
    # the same single-event history replayed a second time: same schedule, same observation
    s, p = fresh()
    again = _apply_event(first, s, p, da, db)
    transitions += 1
    if again[0] != base[first][0] or (again[0] == "val" and abs(again[1] - base[first][1]) > EVENT_TOL[first]):
        return viol(f"event {first} replayed from the initial state gives {again}, first time {base[first]}", site=f"{EVENT_FN[first]}:nondeterministic",
                    observed=list(again), expected=list(base[first]), states=len(seen), transitions=transitions)
    histories = 0
    for tail in itertools.product(menu, repeat=depth - 1):
        h = (first,) + tail
        s, p = fresh()
        val = None
        for step, ev in enumerate(h):
            val = _apply_event(ev, s, p, da, db)
            transitions += 1
            dg = digest_args(s, p)
            seen.add(dg)
            if val[0] == "exc":
                return viol(f"{EVENT_FN[ev]} raised after history {list(h[:step])} (event {ev}): {val[1]}", site=f"{EVENT_FN[ev]}:exception:history",
                            observed=val[1], states=len(seen), transitions=transitions)
            if dg != d0:
                return viol(f"after history {list(h[: step + 1])} the caller's list of states / probs differs from the initial state",
                            site=f"{EVENT_FN[ev]}:aliasing", observed=[list(np.shape(x)) for x in s], expected=[list(x.shape) for x in s0],
                            states=len(seen), transitions=transitions)
        last = h[-1]
        ref = base[last]
        if val[0] == "val" and ref[0] == "val" and abs(val[1] - ref[1]) > EVENT_TOL[last]:
            return viol(f"event {last} after history {list(h[:-1])} returns {val[1]:.8f}, from the initial state {ref[1]:.8f}",
                        site=f"{EVENT_FN[last]}:history_value", observed=val[1], expected=ref[1], states=len(seen), transitions=transitions)
        histories += 1
    nontrivial = case["form"] == "col"
    return ok(nontrivial, obs=None, states=len(seen), transitions=transitions, histories=histories,
              solver_failures=sum(1 for v in base.values() if v[0] == "fail"))


# ------------------------------------------------------------------------------------------------ alphabets (evidence)
def _alph(tier, seed):
    out = {}
    for system in R.SYSTEMS:
        out[f"kets[{system}]"] = list(R.ket_catalogue(system))
        out[f"mixed[{system}]"] = list(R.mixed_catalogue(system))
    out["priors"] = ["none", "uniform", "ramp", "g0"]
    out["forms"] = ["col", "1d", "dm"]
    out["local_bases[2]"] = list(R.local_bases(2))
    out["local_bases[3]"] = list(R.local_bases(3))
    out["generic"] = {f"g{k}[{d}]": [round(float(x.real), 4) for x in catalog.generic_ket(d, k)[:2]] for d in (4, 6) for k in range(catalog.G)}
    return out


CLAUSES = [
    Clause("C12.history", history_cases, history_check, tol="digest exact; values scs(1e-3)/ipm(1e-4)", chunk=1, weight=20.0, probe=1, alphabets=_alph,
           doc="BFS over call histories {hierarchy L1, L2, ppt primal, ppt dual}: the caller's states list / probs never change; value after a history = value from the initial state"),
    Clause("C12.hierarchy", hierarchy_cases, hierarchy_check, tol="scs(1e-3)", chunk=1, weight=1.5, probe=2,
           doc="level 1 inside the certified PPT bracket and = ppt_distinguishability; level 2 <= level 1, >= explicit LOCC value and >= certified separable (PPT on 2x2/2x3) value; dim forms None/int/list/ndarray"),
    Clause("C12.ppt_primal_dual", primal_dual_cases, primal_dual_check, tol="ipm(1e-4)", chunk=1, weight=1.2, probe=1,
           doc="primal = dual, both inside the certified bracket; returned operators are a PPT POVM attaining the value; primal solver breakdowns are indeterminate"),
    Clause("C12.ppt_value", ppt_value_cases, ppt_value_check, tol="ipm(1e-4)", chunk=1, weight=0.6, probe=3,
           doc="dual form: locc <= value <= global optimum, value inside the certified PPT bracket, same for subsystems [0]/[1] and for ket / density-matrix forms"),
    Clause("C12.local_unitary", lu_cases, lu_check, tol="ipm(1e-4)", chunk=2, weight=0.2, probe=2,
           doc="value of (U_A x U_B)-rotated ensembles inside the certified bracket of the unrotated ensemble, catalogue unitaries on both sides"),
    Clause("C12.closed_forms", closed_cases, closed_check, tol="ipm(1e-4) / scs(1e-3)", chunk=1, weight=8.0, probe=1,
           doc="four Bell states 1/2 (all forms, both parties, primal/dual, hierarchy levels 1-2); Yu-Duan-Ying 7/8; Bell states with a resource state"),
]
