"""C11 — state exclusion values are certified optima and decide antidistinguishability (certified primal/dual bracket,
arithmetic certificates on toqito's operators, closed forms, named antidistinguishable sets, predicate agreement)."""

from __future__ import annotations

import itertools

import numpy as np

from mc import catalog
from mc.engine import Clause, call, exc_text, indet, ok, viol
from mc.ref import c10_ensembles as en
from mc.ref import sdp_cert as sc

EPS = sc.EPS_IPM
CERT = 1e-3  # certificate reconstructed from an interior-point point is only sqrt(gap)-accurate: judged in the 1e-3 class

RULE = ("case = (dimension, subset of the ket catalogue / density catalogue or a named set (trine, BB84, PBR(n, theta)), "
        "prior, input form[, unitary / relabelling]); every subset of size 2-3 (quick) / 2-5 (thorough; 2-3 for d=4) of "
        "Kets(d) is executed in primal and dual form; each toqito value is compared with the harness's own primal/dual "
        "bracket [L,U] (cvxpy+CLARABEL, repaired and verified with eigvalsh) and toqito's operators are certified "
        "arithmetically; antidistinguishability of every ensemble is decided by the bracket of the unnormalised value "
        "(U <= 1e-9: yes, L >= 1e-6: no, else indeterminate); non-trivial iff the ensemble contains no orthogonal pair "
        "(otherwise exclusion is trivially perfect)")
ASSUMPTIONS = [
    "numpy eigh/eigvalsh/svd/matmul are correct (they carry the arithmetic certificates)",
    "weak duality of the exclusion SDP and of the unambiguous-exclusion SDP (argument in mc/ref/sdp_cert.py docstrings)",
    "picos exposes only the cvxopt solver for SDPs in this image, so 'every supported solver' = cvxopt",
    "primal forms are called with cvxopt_kktsolver='ldl' (the remedy named in state_exclusion's docstring) and an iteration cap; "
    "the unambiguous variant with abs_ipm_opt_tol=1e-5 (the option used by toqito's own tests); dual forms and the predicates with defaults",
    "ensembles bounded: 2-3 (quick) / 2-5 (thorough) states, d in {2,3} (quick) / {2,3,4} (thorough) + PBR n<=2 (quick) / n<=3 (thorough)",
    "values compared with tolerance class ipm = 1e-4; certificates rebuilt from interior-point points with 1e-3; booleans judged "
    "only when the certified unnormalised value is <= 1e-9 or >= 1e-6 (predicate tolerance 1e-8)",
]


def _first(problems, nontrivial=True):
    site, detail, observed, expected = problems[0]
    more = "" if len(problems) == 1 else f" (+{len(problems) - 1} further defect(s): " + ", ".join(p[0] for p in problems[1:4]) + ")"
    return viol(detail + more, site=site, observed=observed, expected=expected, nontrivial=nontrivial)


def _fresh(inputs):
    return [x.copy() for x in inputs]


# ------------------------------------------------------------------------------------------------ named sets
THETAS = {"quick": ([9, 10], [19, 20], [21, 20], [11, 10], [4, 3], [2, 1]),
          "thorough": ([1, 2], [3, 5], [7, 10], [4, 5], [9, 10], [19, 20], [1, 1], [21, 20], [11, 10], [5, 4], [4, 3], [3, 2], [2, 1])}


def theta_of(frac) -> float:
    return (np.pi / 4) * frac[0] / frac[1]


def own_named(case):
    """The harness's own construction of the named sets, from the formulas in the docstrings."""
    name = case["named"]
    if name == "trine":
        kets = [np.array([1.0, 0.0]), np.array([-0.5, -np.sqrt(3) / 2]), np.array([-0.5, np.sqrt(3) / 2])]
    elif name == "bb84":
        s = 1 / np.sqrt(2)
        kets = [np.array([1.0, 0.0]), np.array([0.0, 1.0]), np.array([s, s]), np.array([s, -s])]
    elif name == "pbr":
        th = theta_of(case["theta"])
        psi = [np.array([np.cos(th / 2), np.sin(th / 2)]), np.array([np.cos(th / 2), -np.sin(th / 2)])]
        kets = []
        for bits in itertools.product((0, 1), repeat=case["n"]):
            v = np.array([1.0])
            for b in bits:
                v = np.kron(v, psi[b])
            kets.append(v)
    else:
        raise KeyError(name)
    if case.get("drop") is not None:
        kets = [k for i, k in enumerate(kets) if i != case["drop"]]
    return [k.astype(complex) for k in kets]


def toqito_named(case):
    from toqito.states import bb84, pusey_barrett_rudolph, trine

    name = case["named"]
    if name == "trine":
        out = trine()
    elif name == "bb84":
        b = bb84()
        out = [b[0][0], b[0][1], b[1][0], b[1][1]]
    else:
        out = pusey_barrett_rudolph(case["n"], theta_of(case["theta"]))
    out = list(out)
    if case.get("drop") is not None:
        out = [k for i, k in enumerate(out) if i != case["drop"]]
    return out


def named_cases(tier):
    yield {"kind": "named", "named": "trine", "d": 2}
    yield {"kind": "named", "named": "bb84", "d": 2}
    for k in range(4):
        yield {"kind": "named", "named": "bb84", "d": 2, "drop": k}
    for k in range(3):
        yield {"kind": "named", "named": "trine", "d": 2, "drop": k}
    for n in ((1, 2) if tier == "quick" else (1, 2, 3)):
        for th in THETAS[tier]:
            if n == 3 and th not in ([1, 2], [3, 5], [7, 10], [9, 10], [11, 10], [3, 2], [2, 1]):
                continue
            yield {"kind": "named", "named": "pbr", "n": n, "theta": th, "d": 2 ** n}


def known_antidistinguishable(case):
    """Textbook facts used ONLY to cross-check the harness's own bracket (a disagreement is a harness error)."""
    name = case["named"]
    if name == "trine":
        return case.get("drop") is None  # two trine states are not orthogonal, hence not antidistinguishable
    if name == "bb84":
        return True  # the full set and every 3-subset contain an orthogonal pair
    n, th = case["n"], theta_of(case["theta"])
    thr = 2 * np.arctan(2 ** (1.0 / n) - 1)  # Pusey-Barrett-Rudolph: tan(theta/2) >= 2^(1/n) - 1
    if th >= thr * 1.02:
        return True
    if th <= thr * 0.98:
        return False
    return None


def build(case):
    if case.get("kind") == "named":
        kets = own_named(case)
        rhos = [sc.as_density(k) for k in kets]
        inputs = [np.asarray(x) for x in toqito_named(case)]
        n = len(kets)
        w = en.weights(n, case.get("prior", "uniform"))
        probs = None if case.get("prior") == "none" else [float(x) for x in w]
        return inputs, rhos, kets, probs, w
    if case.get("kind") == "dup":
        if case["src"] == "dens":
            rho = catalog.density(case["d"], case["key"])
            base = en.natural(rho)
        else:
            k = catalog.ket(case["d"], case["key"])
            rho = sc.as_density(k)
            base = en.natural(k).reshape(-1, 1)
        n = case["n"]
        w = np.ones(n) / n
        return [base.copy() for _ in range(n)], [rho.copy() for _ in range(n)], None, [float(x) for x in w], w
    if case.get("kind") == "nearorth":
        # two pure states that are nearly, but not exactly, orthogonal: |<a|b>| = c with c = 5e-3 or 2e-3, unnormalised exclusion value
        # 1 - sqrt(1 - c^2) = 1.25e-5 resp. 2e-6 (clearly positive) - added after seeded change C11-12, whose relative tolerance at 1 called
        # such pairs antidistinguishable
        d, c = case["d"], case["c"]
        U = catalog.unitary(d, case["u"])
        a = U[:, 0]
        b = c * np.exp(0.7j) * U[:, 0] + np.sqrt(1 - c * c) * U[:, 1]
        kets = [a, b]
        rhos = [sc.as_density(k) for k in kets]
        inputs = [k.reshape(-1, 1).copy() for k in kets] if case["form"] == "col" else [r.copy() for r in rhos]
        w = np.ones(2) / 2
        return inputs, rhos, kets, [0.5, 0.5], w
    return en.build(case)


# ------------------------------------------------------------------------------------------------ C11.named_states
def named_states_cases(tier, seed):
    yield from named_cases(tier)


def named_states_check(case):
    own = own_named(case)
    got, exc = call(toqito_named, case)
    fn = {"trine": "trine", "bb84": "bb84", "pbr": "pusey_barrett_rudolph"}[case["named"]]
    if exc is not None:
        return viol(f"{fn} raised: " + exc_text(exc), site=f"{fn}:exception", observed=exc_text(exc))
    if len(got) != len(own):
        return viol(f"{fn} returned {len(got)} states, expected {len(own)}", site=f"{fn}:count", observed=len(got), expected=len(own))
    d = own[0].shape[0]
    for i, (g, o) in enumerate(zip(got, own)):
        g = np.asarray(g)
        if g.shape not in ((d, 1), (d,)):
            return viol(f"{fn} state {i} has shape {g.shape}, expected a ket of dimension {d}", site=f"{fn}:shape", observed=list(g.shape))
        err = float(np.max(np.abs(g.reshape(-1) - o)))
        if err > 1e-9:
            return viol(f"{fn} state {i} differs from the documented formula by {err:.2e}", site=f"{fn}:value", observed=g.reshape(-1).tolist(),
                        expected=o.real.tolist())
    return ok(True, obs=len(got))


# ------------------------------------------------------------------------------------------------ C11.min_error
def run_exclusion(inputs, probs, strategy, pd, kwargs=None):
    from toqito.state_opt import state_exclusion

    args = _fresh(inputs)
    before = en.digest(args, probs)
    p = None if probs is None else list(probs)
    kw = en.solver_kwargs(strategy, pd) if kwargs is None else kwargs
    res, exc = call(state_exclusion, args, p, strategy, "cvxopt", pd, **kw)
    mutated = en.digest(args, probs) != before or (p is not None and p != list(probs))
    return res, exc, mutated


def min_error_cases(tier, seed):
    for case in named_cases(tier):
        for prior in ("uniform", "g0"):
            yield dict(case, prior=prior)
    for d, keys in en.ket_subsets(tier):
        n = len(keys)
        full = tier == "thorough" and n <= 3
        for prior in en.prior_keys(n):
            forms = en.KET_FORMS if (full or prior == "g0") else ("col",)
            for form in forms:
                yield {"d": d, "keys": keys, "kind": "ket", "prior": prior, "form": form}
        if n <= 3:
            yield {"d": d, "keys": keys, "kind": "ket", "prior": "none", "form": "1d"}
    for d, keys in en.mixed_subsets(tier):
        for prior in en.prior_keys(len(keys)):
            yield {"d": d, "keys": keys, "kind": "dens", "prior": prior, "form": "dm"}
    # ensembles that list a state twice (cf. seeded change C12-11, which merged repeated states and summed their priors)
    for j, (d, keys) in enumerate(en.ket_subsets(tier)):
        if len(keys) == 2 and j % (6 if tier == "quick" else 2) == 0:
            yield {"d": d, "keys": [keys[0], keys[1], keys[0]], "kind": "ket", "prior": "ramp", "form": "col"}
            yield {"d": d, "keys": [keys[1], keys[1], keys[0]], "kind": "ket", "prior": "uniform", "form": "dm"}


def check_exclusion_values(tag, val, rhos, w, b, problems):
    fn = "state_exclusion"
    if not np.isfinite(val):
        problems.append((f"{fn}:value:{tag}", "returned value is not finite", val, [b["L"], b["U"]]))
        return
    if not (b["L"] - EPS <= val <= b["U"] + EPS):
        problems.append((f"{fn}:value:{tag}", f"exclusion value {val:.8f} outside the certified bracket [{b['L']:.8f}, {b['U']:.8f}]",
                         val, [b["L"], b["U"]]))
    if val < -EPS:
        problems.append((f"{fn}:nonnegative:{tag}", f"exclusion value {val:.8f} is negative", val, 0.0))
    if val > float(np.min(w)) + EPS:
        problems.append((f"{fn}:min_prior:{tag}", f"exclusion value {val:.8f} exceeds the smallest prior {np.min(w):.8f}", val, float(np.min(w))))
    if len(rhos) == 2:
        cf = sc.exclusion_two(rhos, w)
        if abs(val - cf) > EPS:
            problems.append((f"{fn}:two_states:{tag}", f"two states: value {val:.8f} != (1 - ||p0 rho0 - p1 rho1||_1)/2 = {cf:.8f}", val, cf))
    if sc.max_pair_overlap(rhos) < 1e-12 and abs(val) > EPS:
        problems.append((f"{fn}:orthogonal:{tag}", f"orthogonal states: exclusion value {val:.8f} != 0", val, 0.0))


def check_operators(fn, tag, ms_raw, rhos, w, val, sense, problems):
    try:
        ms = [sc.to_np(m) for m in ms_raw]
    except Exception as e:  # noqa: BLE001
        problems.append((f"{fn}:povm_valid:{tag}", f"returned measurement has no numeric value ({type(e).__name__})", None, None))
        return
    d = rhos[0].shape[0]
    if len(ms) != len(rhos) or any(m.shape != (d, d) for m in ms):
        problems.append((f"{fn}:povm_valid:{tag}", f"returned {len(ms)} operators of shapes {[m.shape for m in ms]} for {len(rhos)} states of dimension {d}",
                         None, None))
        return
    r = sc.povm_report(ms, rhos, w, val, sense)
    if r["neg"] > EPS or r["sum"] > EPS or r["nonherm"] > EPS:
        problems.append((f"{fn}:povm_valid:{tag}", f"returned operators are not a POVM (negativity {r['neg']:.2e}, |sum-I| {r['sum']:.2e}, "
                         f"non-Hermitian {r['nonherm']:.2e})", [r["neg"], r["sum"], r["nonherm"]], 0.0))
    if r["attain"] > EPS:
        problems.append((f"{fn}:povm_attains:{tag}", f"returned operators give sum_i p_i Tr(rho_i M_i) = {r['attained']:.8f}, reported value {float(val):.8f}",
                         r["attained"], float(val)))
    if r["yherm"] > CERT or r["yfeas"] > CERT:
        rel = ">=" if sense == "max" else "<="
        problems.append((f"{fn}:dual_certificate:{tag}", f"Y = sum_i p_i rho_i M_i is not a dual certificate (|Y-Y^dagger| {r['yherm']:.2e}, "
                         f"violation of Y {rel} p_i rho_i {r['yfeas']:.2e})", [r["yherm"], r["yfeas"]], 0.0))


def min_error_check(case):
    inputs, rhos, kets, probs, w = build(case)
    b = sc.bracket_exclusion(rhos, w)
    if b is None:
        return indet("harness bracket unavailable (solver failure)")
    if b["U"] - b["L"] > sc.WIDE:
        return indet(f"harness bracket too wide ({b['U'] - b['L']:.1e})")
    fn = "state_exclusion"
    problems, op_problems, vals = [], [], {}
    for pd in ("primal", "dual"):
        res, exc, mutated = run_exclusion(inputs, probs, "min_error", pd)
        if exc is not None:
            if en.solver_failure(exc):
                return indet(f"solver failure ({pd}): " + exc_text(exc))
            problems.append((f"{fn}:exception:{pd}", f"raised on an in-domain ensemble ({pd}): " + exc_text(exc), exc_text(exc), None))
            continue
        if mutated:
            problems.append((f"{fn}:mutates_input:{pd}", "the caller's states / probabilities were modified", None, None))
        if not (isinstance(res, tuple) and len(res) == 2):
            problems.append((f"{fn}:return:{pd}", f"did not return (value, measurements) but {type(res).__name__}", None, None))
            continue
        val = float(np.real(res[0]))
        vals[pd] = val
        check_exclusion_values(pd, val, rhos, w, b, problems)
        check_operators(fn, pd, res[1], rhos, w, val, "min", op_problems)
    if len(vals) == 2 and abs(vals["primal"] - vals["dual"]) > 2 * EPS:
        problems.append((f"{fn}:primal_dual", f"primal {vals['primal']:.8f} and dual {vals['dual']:.8f} values differ", vals["primal"], vals["dual"]))
    problems += op_problems
    nontrivial = sc.max_pair_overlap(rhos) > 1e-6
    if problems:
        return _first(problems, nontrivial)
    return ok(nontrivial, obs=[round(vals["primal"], 6), round(vals["dual"], 6)], calls=2, complex=en.is_complex_case(rhos),
              width=b["U"] - b["L"], zero=b["U"] < 1e-9)


# ------------------------------------------------------------------------------------------------ C11.antidistinguishable
def antidist_cases(tier, seed):
    for case in named_cases(tier):
        yield dict(case, form="col")
    for d, keys in en.ket_subsets(tier):
        if len(keys) > 4:
            continue
        yield {"d": d, "keys": keys, "kind": "ket", "form": "col"}
        if len(keys) == 3:
            yield {"d": d, "keys": keys, "kind": "ket", "form": "1d" if keys[0] < keys[1] else "dm"}
    for d, keys in en.mixed_subsets(tier):
        if len(keys) <= (3 if tier == "thorough" or d == 2 else 2):
            yield {"d": d, "keys": keys, "kind": "dens", "form": "dm"}
    # equal-modulus sets with relative phases around the (refuted) "(n-2)/(n-1)" overlap bound (after seeded change C11-5): membership is
    # decided by the harness's own certified bracket, which depends on the phases, not only on the overlap moduli
    for n_, rs in ((3, (0.4, 0.5, 0.55)), (4, (0.5, 0.6, 0.65, 0.66)), (5, (0.7, 0.74))):
        if n_ == 5 and tier == "quick":
            continue
        for r in rs:
            for pattern in range(len(en.GRAM_PHASES)):
                if en.gram_kets(n_, r, pattern) is not None:
                    yield {"kind": "gram", "n": n_, "r": r, "pattern": pattern, "form": "col"}
    for d in (2, 3):
        for c_ in (5e-3, 2e-3):
            for u in ("I", "g0"):
                for form in ("col", "dm"):
                    yield {"kind": "nearorth", "d": d, "c": c_, "u": u, "form": form}
    for d in en.dims(tier):
        for key in ("e0", "g0"):
            for n in (2, 3):
                yield {"kind": "dup", "d": d, "src": "ket", "key": key, "n": n}
        yield {"kind": "dup", "d": d, "src": "dens", "key": "gfull0", "n": 3}


def antidist_check(case):
    from toqito.state_props import common_quantum_overlap, is_antidistinguishable

    c = dict(case, prior="ones") if case.get("kind") != "dup" else case
    inputs, rhos, kets, _, _ = build(c)
    n = len(rhos)
    ones = np.ones(n)
    b = sc.bracket_exclusion(rhos, ones)
    if b is None:
        return indet("harness bracket unavailable")
    if case.get("kind") == "named":
        known = known_antidistinguishable(case)
        if known is True and b["U"] > 1e-9 or known is False and b["L"] < 1e-6:
            raise RuntimeError(f"harness bracket [{b['L']:.3e}, {b['U']:.3e}] contradicts the textbook fact for {case}")
    problems = []
    # value-level: the overlap is the unnormalised exclusion value
    ov, exc = call(common_quantum_overlap, _fresh(inputs))
    if exc is not None:
        if en.solver_failure(exc):
            return indet("solver failure: " + exc_text(exc))
        problems.append(("common_quantum_overlap:exception", "common_quantum_overlap raised: " + exc_text(exc), exc_text(exc), None))
    else:
        ov = float(np.real(ov))
        if not (b["L"] - EPS <= ov <= b["U"] + EPS):
            problems.append(("common_quantum_overlap:value", f"overlap {ov:.8f} outside the certified bracket of the unnormalised exclusion value "
                             f"[{b['L']:.8f}, {b['U']:.8f}]", ov, [b["L"], b["U"]]))
        if kets is not None and n == 2:
            cf = 1 - np.sqrt(max(0.0, 1 - abs(np.vdot(kets[0], kets[1])) ** 2))
            if abs(ov - cf) > EPS:
                problems.append(("common_quantum_overlap:two_pure", f"two pure states: overlap {ov:.8f} != 1 - sqrt(1-|<psi|phi>|^2) = {cf:.8f}", ov, cf))
        if case.get("kind") == "dup" and abs(ov - 1) > EPS:
            problems.append(("common_quantum_overlap:identical", f"{n} identical states: overlap {ov:.8f} != 1", ov, 1.0))
    # verdict-level
    if b["U"] <= 1e-9:
        expected = True
    elif b["L"] >= 1e-6:
        expected = False
    else:
        expected = None
    got, exc = call(is_antidistinguishable, _fresh(inputs))
    if exc is not None:
        if en.solver_failure(exc):
            return indet("solver failure: " + exc_text(exc))
        problems.append(("is_antidistinguishable:exception", "is_antidistinguishable raised: " + exc_text(exc), exc_text(exc), None))
    elif not isinstance(got, (bool, np.bool_)):
        problems.append(("is_antidistinguishable:type", f"returned {type(got).__name__}, not a boolean", repr(got), None))
    elif expected is not None and bool(got) != expected:
        problems.append(("is_antidistinguishable:verdict", f"is_antidistinguishable = {bool(got)} but the certified unnormalised exclusion value is in "
                         f"[{b['L']:.3e}, {b['U']:.3e}]", bool(got), expected))
    if expected is not None and not isinstance(ov, type(None)) and exc is None and not problems:
        # agreement between the two predicates' views: overlap ~ 0 exactly when antidistinguishable
        if expected and abs(ov) > EPS or (not expected and b["L"] >= 10 * EPS and abs(ov) <= EPS):
            problems.append(("common_quantum_overlap:agreement", f"overlap {ov:.8f} disagrees with antidistinguishability = {expected}", ov, expected))
    nontrivial = sc.max_pair_overlap(rhos) > 1e-6
    if problems:
        return _first(problems, nontrivial)
    if expected is None:
        return indet(f"verdict inside the decision margin (certified value in [{b['L']:.3e}, {b['U']:.3e}]); overlap checked")
    return ok(nontrivial, obs=[bool(got), round(ov, 6)], calls=2, expected=expected)


# ------------------------------------------------------------------------------------------------ C11.invariance
CORE = {2: ("e0", "+i", "pi8ph", "trine1", "g0"), 3: ("e0", "f1", "0i1", "chirp", "g0"), 4: ("e0", "f1", "0i1", "chirp", "g0")}


def invariance_cases(tier, seed):
    for d in en.dims(tier):
        ukeys = [k for k in catalog.unitaries(d).keys() if k != "I"]
        for k in (2, 3):
            for keys in itertools.combinations(CORE[d], k):
                keys = list(keys)
                for prior in ("ramp", "g0"):
                    for pd in ("primal", "dual"):
                        for form in ("col", "dm"):
                            if form == "dm" and not (prior == "g0" and pd == "dual") and tier == "quick":
                                continue
                            for uk in ukeys:
                                yield {"d": d, "keys": keys, "kind": "ket", "prior": prior, "form": form, "pd": pd, "U": uk}
                        for perm in itertools.permutations(range(k)):
                            if list(perm) != list(range(k)):
                                yield {"d": d, "keys": keys, "kind": "ket", "prior": prior, "form": "col", "pd": pd, "perm": list(perm)}
                for uk in ukeys:
                    yield {"d": d, "keys": keys, "kind": "ket", "prior": "ones", "form": "col", "pd": "overlap", "U": uk}


def invariance_check(case):
    from toqito.state_props import common_quantum_overlap

    inputs, rhos, kets, probs, w = en.build(case)
    pd = case["pd"]
    b = sc.bracket_exclusion(rhos, w)
    if b is None or b["U"] - b["L"] > sc.WIDE:
        return indet("harness bracket unavailable or wide")
    if "U" in case:
        um = catalog.unitary(case["d"], case["U"])
        t_inputs = en.apply_unitary(inputs, um)
        t_rhos = [um @ r @ um.conj().T for r in rhos]
        t_probs, t_w = probs, w
        what, site = "unitary " + case["U"], "unitary"
    else:
        perm = case["perm"]
        t_inputs = [inputs[k] for k in perm]
        t_rhos = [rhos[k] for k in perm]
        t_probs = [probs[k] for k in perm]
        t_w = np.array([w[k] for k in perm])
        what, site = f"relabelling {perm}", "relabel"
    nontrivial = sc.max_pair_overlap(rhos) > 1e-6
    if pd == "overlap":
        v0, e0 = call(common_quantum_overlap, _fresh(inputs))
        v1, e1 = call(common_quantum_overlap, _fresh(t_inputs))
        for exc in (e0, e1):
            if exc is not None:
                if en.solver_failure(exc):
                    return indet("solver failure: " + exc_text(exc))
                return viol("common_quantum_overlap raised: " + exc_text(exc), site="common_quantum_overlap:exception", observed=exc_text(exc))
        v0, v1 = float(np.real(v0)), float(np.real(v1))
        if abs(v0 - v1) > 2 * EPS or not (b["L"] - EPS <= v1 <= b["U"] + EPS):
            return viol(f"overlap changed under {what}: {v0:.8f} -> {v1:.8f} (bracket [{b['L']:.8f}, {b['U']:.8f}])",
                        site="common_quantum_overlap:unitary_invariance", observed=v1, expected=v0, nontrivial=nontrivial)
        return ok(nontrivial, obs=[round(v0, 6), round(v1, 6)], calls=2)
    fn = "state_exclusion"
    res0, exc0, _ = run_exclusion(inputs, probs, "min_error", pd)
    res1, exc1, _ = run_exclusion(t_inputs, t_probs, "min_error", pd)
    for exc in (exc0, exc1):
        if exc is not None:
            if en.solver_failure(exc):
                return indet("solver failure: " + exc_text(exc))
            return viol(f"raised ({pd}, {what}): " + exc_text(exc), site=f"{fn}:exception:{pd}", observed=exc_text(exc), nontrivial=nontrivial)
    v0, v1 = float(np.real(res0[0])), float(np.real(res1[0]))
    problems = []
    if abs(v0 - v1) > 2 * EPS:
        problems.append((f"{fn}:{site}_invariance:{pd}", f"value changed under {what}: {v0:.8f} -> {v1:.8f}", v1, v0))
    if not (b["L"] - EPS <= v1 <= b["U"] + EPS):
        problems.append((f"{fn}:{site}_bracket:{pd}", f"value {v1:.8f} after {what} outside the bracket of the original ensemble "
                         f"[{b['L']:.8f}, {b['U']:.8f}]", v1, [b["L"], b["U"]]))
    check_operators(fn, f"{pd}_{site}", res1[1], t_rhos, t_w, v1, "min", problems)
    if problems:
        return _first(problems, nontrivial)
    return ok(nontrivial, obs=[round(v0, 6), round(v1, 6)], calls=2)


# ------------------------------------------------------------------------------------------------ C11.unambiguous
UNAMB_KW = {"abs_ipm_opt_tol": 1e-5}


def unambiguous_cases(tier, seed):
    for d in en.dims(tier):
        names = CORE[d] + (("e1", "+") if d == 2 else ("e1", "01"))
        for k in (2, 3):
            for keys in itertools.combinations(names, k):
                for prior in ("uniform", "g0"):
                    yield {"d": d, "keys": list(keys), "kind": "ket", "prior": prior, "form": "col"}
                if tier == "thorough":
                    yield {"d": d, "keys": list(keys), "kind": "ket", "prior": "ramp", "form": "dm"}
    yield {"kind": "named", "named": "trine", "d": 2, "prior": "uniform"}
    yield {"kind": "named", "named": "bb84", "d": 2, "prior": "uniform"}


def unambiguous_check(case):
    inputs, rhos, kets, probs, w = build(case)
    fn = "state_exclusion"
    vals, problems, failures = {}, [], []
    for pd in ("primal", "dual"):
        # the primal form verifies its solution state (SolutionFailure when the cap is hit); the dual form does not, so it runs uncapped
        kw = dict(UNAMB_KW, max_iterations=300) if pd == "primal" else UNAMB_KW
        res, exc, mutated = run_exclusion(inputs, probs, "unambiguous", pd, kwargs=kw)
        if exc is not None:
            if en.solver_failure(exc):
                failures.append(f"{pd}: {type(exc).__name__}")
                continue
            problems.append((f"{fn}:exception:unambiguous_{pd}", f"raised before/after solving (unambiguous, {pd}): " + exc_text(exc), exc_text(exc), None))
            continue
        if mutated:
            problems.append((f"{fn}:mutates_input:unambiguous_{pd}", "the caller's states / probabilities were modified", None, None))
        vals[pd] = float(np.real(res[0]))
    nontrivial = sc.max_pair_overlap(rhos) > 1e-6
    if problems:
        return _first(problems, nontrivial)
    if len(vals) < 2:
        return indet("solver returned no solution (" + "; ".join(failures) + ")")
    if abs(vals["primal"] - vals["dual"]) > 2 * EPS:
        return viol(f"unambiguous exclusion: primal {vals['primal']:.8f} and dual {vals['dual']:.8f} values differ", site=f"{fn}:primal_dual:unambiguous",
                    observed=vals["primal"], expected=vals["dual"], nontrivial=nontrivial)
    b = sc.bracket_unambiguous_exclusion(rhos, w)
    if b is not None:
        for pd, v in vals.items():
            if not (b["L"] - EPS <= v <= b["U"] + EPS):
                return viol(f"unambiguous exclusion value {v:.8f} ({pd}) outside the certified bracket of the documented SDP [{b['L']:.8f}, {b['U']:.8f}]",
                            site=f"{fn}:value:unambiguous_{pd}", observed=v, expected=[b["L"], b["U"]], nontrivial=nontrivial)
    return ok(nontrivial and vals["primal"] > 1e-3, obs=[round(vals["primal"], 5), round(vals["dual"], 5)], calls=2, bracket=b is not None)


# ------------------------------------------------------------------------------------------------ C11.history
# Added after seeded change C11-6 (solver options of one call leaked into a module-level default and changed later calls): a
# breadth-first exploration of call histories over the public functions, one event being a call with deliberately loose solver options.
# the loose-options event comes LAST: the explorer computes the from-initial-state value of every event in this order, so all reference
# values are taken before any call that might leave something behind in the process
HIST_EVENTS = ["exclusion_dual", "exclusion_primal_ldl", "antidistinguishable_trine", "overlap_trine", "antidistinguishable_pair", "loose_options"]


def history_cases(tier, seed):
    yield {"ens": ["e0", "+", "+i"], "prior": "ramp", "depth": 2}
    yield {"ens": ["e0", "g0", "g1"], "prior": "g0", "depth": 2 if tier == "quick" else 3}


def history_check(case):
    from mc.history import explore
    from toqito.state_opt import state_exclusion
    from toqito.state_props import common_quantum_overlap, is_antidistinguishable
    from toqito.states import trine

    kets = [catalog.ket(2, k).reshape(-1, 1) for k in case["ens"]]
    probs = [float(x) for x in en.weights(len(kets), case["prior"])]
    pair = [catalog.ket(2, "e0").reshape(-1, 1), catalog.ket(2, "pi8ph").reshape(-1, 1)]

    def apply(_, ev):
        if ev == "loose_options":
            v, exc = call(state_exclusion, [k.copy() for k in kets], list(probs), primal_dual="dual", abs_ipm_opt_tol=1e-2, rel_ipm_opt_tol=1e-2,
                          abs_prim_fsb_tol=1e-2, rel_prim_fsb_tol=1e-2, abs_dual_fsb_tol=1e-2, rel_dual_fsb_tol=1e-2)
            return "done" if exc is None else "EXC:" + type(exc).__name__
        if ev == "exclusion_dual":
            v, exc = call(state_exclusion, [k.copy() for k in kets], list(probs), primal_dual="dual")
        elif ev == "exclusion_primal_ldl":
            v, exc = call(state_exclusion, [k.copy() for k in kets], list(probs), primal_dual="primal", cvxopt_kktsolver="ldl")
        elif ev == "antidistinguishable_trine":
            v, exc = call(is_antidistinguishable, trine())
            return ("EXC:" + type(exc).__name__) if exc is not None else bool(v)
        elif ev == "antidistinguishable_pair":
            v, exc = call(is_antidistinguishable, [k.copy() for k in pair])
            return ("EXC:" + type(exc).__name__) if exc is not None else bool(v)
        else:
            v, exc = call(common_quantum_overlap, trine())
            return ("EXC:" + type(exc).__name__) if exc is not None else round(float(np.real(v)), 4)
        if exc is not None:
            return "EXC:" + type(exc).__name__
        return round(float(np.real(v[0] if isinstance(v, tuple) else v)), 4)

    def same(a, b, ev):
        if ev == "loose_options":
            return True
        if isinstance(a, (str, bool)) or isinstance(b, (str, bool)):
            return a == b
        return abs(a - b) <= 2e-4

    stats, bad = explore(lambda: None, HIST_EVENTS, apply, lambda o: "stateless", lambda o, h: None, same, case["depth"])
    for b in bad:
        return viol(f"exclusion call history: {b['kind']} after {b.get('history')}: {b.get('after_history', '')} vs {b.get('from_initial', '')}",
                    site="exclusion_history:" + b["kind"], observed=repr(b)[:300])
    return ok(True, obs=[stats["transitions"], stats["histories"]], states=stats["states"], transitions=stats["transitions"], histories=stats["histories"])


CLAUSES = [
    Clause("C11.min_error", min_error_cases, min_error_check, tol="ipm(1e-4); certificates 1e-3", chunk=6, weight=0.15, probe=4,
           doc="exclusion value in certified bracket, 0 <= value <= min prior, two-state closed form, primal = dual, returned operators are a "
               "POVM attaining the value with Y = sum p_i rho_i M_i <= p_i rho_i; kets in 3 forms, mixed ensembles, trine / BB84 / PBR"),
    Clause("C11.antidistinguishable", antidist_cases, antidist_check, tol="ipm(1e-4) values; booleans at U<=1e-9 / L>=1e-6", chunk=8, weight=0.1,
           probe=4, doc="is_antidistinguishable and common_quantum_overlap agree with the certified unnormalised exclusion value; "
                         "two-pure-state and identical-state closed forms"),
    Clause("C11.invariance", invariance_cases, invariance_check, tol="ipm(1e-4)", chunk=6, weight=0.1, probe=4,
           doc="exclusion value / overlap unchanged under every catalogue unitary and every relabelling; operators follow"),
    Clause("C11.unambiguous", unambiguous_cases, unambiguous_check, tol="ipm(1e-4)", chunk=1, weight=1.0, probe=2,
           doc="unambiguous exclusion: primal = dual (and inside the bracket of the documented SDP) where the solver returns a solution"),
    Clause("C11.named_states", named_states_cases, named_states_check, tol="alg(1e-9)", chunk=50, weight=0.0, probe=4,
           doc="trine / bb84 / pusey_barrett_rudolph return the documented kets"),
    Clause("C11.history", history_cases, history_check, tol="ipm(2e-4)", chunk=1, weight=10.0, probe=1,
           doc="BFS over call histories (incl. a call with loose solver options): every later value equals the value from the initial state"),
]
