"""C08 — XOR games (quantum / classical / non-signalling value, conversion to a general game) and bell_inequality_max.

Conventions read from the sources (toqito/nonlocal_games/xor_game.py, nonlocal_game.py, state_opt/bell_inequality_max.py):

* ``XORGame(prob_mat, pred_mat, reps=1, tol=None)``: ``prob_mat[x, y]`` = pi(x, y), ``pred_mat[x, y]`` = f(x, y) in {0,1};
  the players win iff a xor b = f(x, y).  Both arguments must be ndarrays (``.shape`` is used).
* ``quantum_value()`` = (1/2 + bias/2) ** reps with bias = max over unit vectors of sum D_xy <u_x, v_y>, D = pi o (-1)^f.
* ``to_nonlocal_game()`` -> ``NonlocalGame(prob_mat, V, reps)`` with V[a, b, x, y] = [f(x, y) == a xor b].
* ``bell_inequality_max(joint_coe, a_coe, b_coe, a_val, b_val, solver_name="SCS")``: ndarrays; expression
  sum joint[x, y] <A_x B_y> + sum a_coe[x] <A_x> + sum b_coe[y] <B_y>, outcome k of A_x valued a_val[k].
"""

from __future__ import annotations

import itertools
import math

import numpy as np

from mc import catalog
from mc.engine import Clause, call, exc_text, indet, ok, viol
from mc.ref import c08_xor as R
from mc.ref import games as rg

SCS = 1e-3  # tolerance class "scs" (cvxpy default solver); observed noise on the unchanged tree <= 1e-5
ALG = 1e-9
BELL_TOL = 2e-3

RULE = ("XOR clauses: case = (question-set sizes X,Y; predicate matrix as a bit code - ALL 0/1 matrices of the shape; question "
        "distribution key in {uniform, skew (product of non-uniform marginals), zrow (a zero row/column), zent (one zero "
        "entry), g<k> (seed-derived pairwise distinct integer weights)}); inside one case the constructor is run for every "
        "(tol, reps) in {None,1e-6} x {1,2,3} and for int and float predicate dtypes.  Every case of the listed finite "
        "alphabets is executed.  Non-trivial iff the exact classical value (brute force over all +-1 assignments, integer "
        "arithmetic) is < 1, i.e. the predicate is not of the form a(x) xor b(y) on the support.  formulations: the bounded "
        "sub-space listed in its alphabets (NPA level 1 and the non-signalling LP cost 0.2-1 s each).  constructor: every "
        "(shape, defect kind, tol, reps); non-trivial always.  bell_max: case = (2x2 joint coefficient matrix over {-1,0,1} - "
        "all 81; marginal coefficient vector from a 9-element lattice; outcome values per party in {(1,-1),(0,1)}; dtype; "
        "solver); non-trivial iff the joint matrix has >= 2 non-zero entries")
ASSUMPTIONS = [
    "numpy eigh / eigvalsh / dot products are correct (they carry the bracket certificate and the Jordan-lemma oracle)",
    "Tsirelson: the optimal quantum bias of an XOR game is max over real unit vectors of sum D_xy <u_x, v_y>; weak duality of "
    "that SDP (Tr(M G) >= 0 for M, G >= 0) - both used only through explicit points verified arithmetically",
    "Jordan's lemma: for two dichotomic settings per party the quantum maximum of a Bell expression is attained on two qubits "
    "with real rank-one projective measurements; the harness maximises lambda_max over the two remaining angles on a 96x96 "
    "lattice and refines every lattice local maximum among the best 8 (a maximum narrower than the lattice would be missed)",
    "level 1 of the NPA hierarchy is exact for XOR games (Tsirelson / Wehner); used only for the comparison the property states",
    "Krivine's bound K_G <= 1.7823",
    "SCS is deterministic single-threaded; SDP values are judged with slack 1e-3 (bell_inequality_max: 2e-3)",
    "shapes bounded: X,Y in {1,2,3} (quick) / X,Y <= 4 with X*Y <= 12 (thorough); repetitions 1..3 for the quantum value, "
    "classical value of the repeated game only where the product game has <= 1000 strategies for the enumerated player; "
    "bell_inequality_max only for two settings per party (m = 2)",
]


# ================================================================================================ alphabets
def shapes(tier):
    if tier == "thorough":
        sh = [(x, y) for x in range(1, 5) for y in range(1, 5) if x * y <= 12]
    else:
        sh = [(x, y) for x in range(1, 4) for y in range(1, 4)]
    sh.sort(key=lambda s: (s[0] * s[1], s))
    return sh


def dist_keys(tier):
    return ["uniform", "skew", "zrow", "zent", "g0"] + (["g1"] if tier == "thorough" else [])


def weights(X, Y, key):
    if key.startswith("g"):
        return R.dist_weights(X, Y, key, catalog.rng(f"c08dist{X}x{Y}", int(key[1:])))
    return R.dist_weights(X, Y, key)


def codes_of(X, Y, tier):
    """ALL 0/1 predicate matrices; for 12-cell shapes (4096 matrices, thorough only) also all of them."""
    return range(2 ** (X * Y))


def game_cases(tier, seed, dists=None):
    for X, Y in shapes(tier):
        for code in codes_of(X, Y, tier):
            for key in (dists or dist_keys(tier)):
                if X * Y > 9 and key not in ("uniform", "g0", "zrow"):
                    continue  # 12-cell shapes (3x4, 4x3; 4096 matrices each): three distributions, 24 576 games
                if weights(X, Y, key) is None:
                    continue
                yield {"X": X, "Y": Y, "code": code, "dist": key}


def build(case):
    X, Y = case["X"], case["Y"]
    W = weights(X, Y, case["dist"])
    f = R.pred_from_code(X, Y, case["code"])
    S = R.signed_weights(W, f)
    tot = sum(sum(r) for r in W)
    return X, Y, W, f, S, tot


def exact_classical(S, tot):
    """(numerator of the optimal +-1 bias, argmax a, argmax b); two independent enumerations must agree."""
    cm, a, b = R.classical_pm1(S)
    if R.classical_pm1_best_response(S) != cm:
        raise RuntimeError("harness: the two +-1 enumerations disagree")
    return cm, a, b


def is_solver_failure(exc) -> bool:
    try:
        import cvxpy

        if isinstance(exc, cvxpy.error.SolverError):
            return True
    except Exception:  # noqa: BLE001
        pass
    return False


def snap(*arrays):
    return [None if a is None else (np.asarray(a).copy(), np.asarray(a).dtype, np.asarray(a).shape) for a in arrays]


def unchanged(snaps, *arrays) -> bool:
    for s, a in zip(snaps, arrays):
        if s is None:
            continue
        a = np.asarray(a)
        if a.dtype != s[1] or a.shape != s[2] or not np.array_equal(a, s[0]):
            return False
    return True


# ================================================================================================ C08.quantum_bracket
PRED_DTYPES = (np.int64, np.uint8, float, bool)


def qb_cases(tier, seed):
    yield from game_cases(tier, seed)


def qb_check(case):
    from toqito.nonlocal_games.xor_game import XORGame

    X, Y, W, f, S, tot = build(case)
    cm, a, b = exact_classical(S, tot)
    c_exact = 0.5 + cm / (2.0 * tot)
    D = np.array(S, dtype=float) / tot
    br = R.bracket(D, (a, b))
    if br is None:
        return indet("harness could not produce a primal/dual certificate")
    if br["U"] - br["L"] > 1e-6:
        return indet(f"certificate too wide ({br['U'] - br['L']:.2e})")
    lo, hi = 0.5 + br["L"] / 2, 0.5 + br["U"] / 2
    if lo < c_exact - 1e-12:
        raise RuntimeError("harness: attained quantum value below the exact classical value")
    nontrivial = cm < tot

    P = R.prob_floats(W)
    # predicate dtype cycles with the predicate code: int64, uint8, float64, bool (unsigned / boolean 0-1 matrices are ordinary ways of
    # writing a predicate; (-1) ** uint8 used to overflow, repaired in toqito)
    F = np.array(f, dtype=PRED_DTYPES[case["code"] % 4])
    snaps = snap(P, F)
    q1 = {}
    obs = []
    for tol in (None, 1e-6):
        for reps in (1, 2, 3):
            g, exc = call(XORGame, P, F, reps=reps, tol=tol)
            if exc is not None:
                return viol(f"constructor rejected a valid game (tol={tol}, reps={reps}): " + exc_text(exc),
                            site="XORGame:constructor", nontrivial=nontrivial)
            q, exc = call(g.quantum_value)
            if exc is not None:
                if is_solver_failure(exc):
                    return indet("solver failure inside quantum_value: " + exc_text(exc))
                return viol(f"quantum_value raised (tol={tol}, reps={reps}): " + exc_text(exc), site="quantum_value:exception",
                            nontrivial=nontrivial)
            try:
                q = float(q)
            except (TypeError, ValueError):
                return viol(f"quantum_value returned {type(q).__name__}", site="quantum_value:type", nontrivial=nontrivial)
            if not math.isfinite(q):
                return indet(f"quantum_value returned {q} (solver did not converge)")
            obs.append(round(q, 6))
            if not (lo ** reps - SCS <= q <= hi ** reps + SCS):
                return viol(f"quantum value outside the certified bracket (tol={tol}, reps={reps}): an explicit family of unit "
                            f"vectors attains {lo ** reps:.9f}, an explicit dual-feasible point bounds it by {hi ** reps:.9f}",
                            site="quantum_value:bracket" if reps == 1 else "quantum_value:reps", observed=q,
                            expected=[lo ** reps, hi ** reps], nontrivial=nontrivial)
            if reps == 1:
                q1[tol] = q
                if q < c_exact - SCS:
                    return viol("quantum value below the exact classical value", site="quantum_value:classical_order",
                                observed=q, expected=c_exact, nontrivial=nontrivial)
                if (2 * q - 1) > R.KG_UPPER * (2 * c_exact - 1) + 2 * SCS:
                    return viol("quantum bias exceeds K_G times the classical bias (Grothendieck)", site="quantum_value:grothendieck",
                                observed=2 * q - 1, expected=R.KG_UPPER * (2 * c_exact - 1), nontrivial=nontrivial)
                # the same object again: the value must not depend on the call history, nor the stored game change
                q_again, exc = call(g.quantum_value)
                if exc is not None or abs(float(q_again) - q) > ALG:
                    return viol("second quantum_value() call on the same object differs from the first", site="quantum_value:aliasing",
                                observed=None if exc is not None else float(q_again), expected=q, nontrivial=nontrivial)
            else:
                if abs(q - q1[tol] ** reps) > SCS:
                    return viol(f"reps={reps} value is not the {reps}-th power of the single-game value", site="quantum_value:reps",
                                observed=q, expected=q1[tol] ** reps, nontrivial=nontrivial)
            if g.reps != reps or not unchanged(snaps, g.prob_mat, g.pred_mat):
                return viol("the game object's stored matrices / reps changed during quantum_value", site="quantum_value:aliasing",
                            nontrivial=nontrivial)
    if abs(q1[None] - q1[1e-6]) > SCS:
        return viol("value depends on the tol argument", site="quantum_value:tol", observed=q1[1e-6], expected=q1[None],
                    nontrivial=nontrivial)
    # a LARGE validity tolerance (bigger than some of the probabilities) must not change the value of a valid game either
    # (after seeded change C08-5: entries of the bias matrix up to tol were zeroed)
    g, exc = call(XORGame, P, F, reps=1, tol=0.2)
    qb = None
    if exc is None:
        qb, exc = call(g.quantum_value)
    if exc is not None:
        if is_solver_failure(exc):
            return indet("solver failure inside quantum_value: " + exc_text(exc))
        return viol("tol=0.2: " + exc_text(exc), site="quantum_value:tol", nontrivial=nontrivial)
    if not (lo - SCS <= float(qb) <= hi + SCS):
        return viol("quantum value outside the certified bracket when a large validity tolerance (0.2) is supplied", site="quantum_value:tol",
                    observed=float(qb), expected=[lo, hi], nontrivial=nontrivial)
    # float-typed predicate matrix: same game, same value
    Ff = np.array(f, dtype=float)
    g, exc = call(XORGame, P, Ff)
    qf = None
    if exc is None:
        qf, exc = call(g.quantum_value)
    if exc is not None:
        return viol("float-typed 0/1 predicate matrix: " + exc_text(exc), site="quantum_value:float_pred", nontrivial=nontrivial)
    if not (lo - SCS <= float(qf) <= hi + SCS):
        return viol("float-typed 0/1 predicate matrix gives a value outside the certified bracket", site="quantum_value:float_pred",
                    observed=float(qf), expected=[lo, hi], nontrivial=nontrivial)
    if not unchanged(snaps, P, F):
        return viol("prob_mat / pred_mat passed by the caller were modified", site="quantum_value:aliasing", nontrivial=nontrivial)
    return ok(nontrivial, obs=obs, calls=8, advantage=bool(br["L"] > cm / tot + 1e-6))


# ================================================================================================ C08.classical
def reps_allowed(X, Y, reps):
    return (2 ** reps) ** (min(X, Y) ** reps) <= 1000


def cl_cases(tier, seed):
    for X, Y, k in ((10, 10, 0), (10, 10, 1), (11, 10, 2), (10, 12, 3)) + (((12, 12, 4), (11, 11, 5), (10, 11, 6)) if tier == "thorough" else ()):
        yield {"kind": "large", "X": X, "Y": Y, "k": k}
    for c in game_cases(tier, seed):
        yield dict(c, reps=1)
    for c in game_cases(tier, seed, dists=["uniform", "g0", "zent"]):
        for reps in (2, 3):
            if reps_allowed(c["X"], c["Y"], reps) and (c["X"] * c["Y"]) ** reps <= 64:
                yield dict(c, reps=reps)


def _large_game(X, Y, k):
    """Integer weights 1..9 and predicate bits from a fixed arithmetic pattern (seed-independent); exact value by enumeration of Alice's +-1
    assignments (Bob best-responds column by column), in integer arithmetic."""
    W = np.array([[1 + (7 * x + 3 * y + 5 * k + x * y) % 9 for y in range(Y)] for x in range(X)], dtype=np.int64)
    F = np.array([[((x * x + 3 * y + k * (x + 2 * y) + (x * y) // 3) % 5) % 2 for y in range(Y)] for x in range(X)], dtype=np.int64)
    S = W * (1 - 2 * F)
    best = 0
    for lo in range(0, 2 ** X, 4096):
        codes = np.arange(lo, min(lo + 4096, 2 ** X))
        A = 1 - 2 * ((codes[:, None] >> np.arange(X)[None, :]) & 1)
        best = max(best, int(np.abs(A @ S).sum(axis=1).max()))
    tot = int(W.sum())
    return W / tot, F, 0.5 + best / (2.0 * tot)


def cl_check(case):
    from toqito.nonlocal_games.xor_game import XORGame

    if case.get("kind") == "large":
        # at least ten questions per player: more than 1000 deterministic strategies, so the value comes from the multiprocessing branch
        # of NonlocalGame.classical_value (added after seeded change C08-10, whose workers all enumerated the first block of strategies)
        P, F, expected = _large_game(case["X"], case["Y"], case["k"])
        g, exc = call(XORGame, P, F)
        if exc is not None:
            return viol("constructor rejected a valid game: " + exc_text(exc), site="XORGame:constructor")
        c1, exc = call(g.classical_value)
        if exc is not None:
            return viol("classical_value raised: " + exc_text(exc), site="classical_value:exception")
        if abs(float(c1) - expected) > ALG:
            return viol(f"classical_value of a {case['X']}x{case['Y']} XOR game is not the maximum over +-1 answer assignments",
                        site="classical_value:large", observed=float(c1), expected=expected)
        return ok(True, obs=float(c1))
    X, Y, W, f, S, tot = build(case)
    reps = case["reps"]
    cm, a, b = exact_classical(S, tot)
    pred = R.converted_pred(f)
    num, den = R.general_classical(W, pred)  # literal scoring of V(a,b|x,y) = [a xor b = f]
    if den != tot or 2 * num != tot + cm:
        raise RuntimeError("harness: +-1 brute force and general-game brute force disagree")
    nontrivial = cm < tot
    P = R.prob_floats(W)
    F = np.array(f, dtype=PRED_DTYPES[(case["code"] + 1) % 4])
    snaps = snap(P, F)
    g, exc = call(XORGame, P, F, reps=reps)
    if exc is not None:
        return viol("constructor rejected a valid game: " + exc_text(exc), site="XORGame:constructor", nontrivial=nontrivial)
    if reps == 1:
        expected = num / den
        exp_pred = np.array(pred, dtype=float)
        exp_prob = P
    else:
        pf = R.prob_fractions(W)
        pr, vr = rg.product_game(pf, pred, reps)
        side = "alice" if X <= Y else "bob"
        val = rg.classical_best_response(pr, vr, enumerate_player=side)
        expected = float(val)
        exp_pred = np.array([[[[float(v) for v in r3] for r3 in r2] for r2 in r1] for r1 in vr])
        exp_prob = np.array([[float(v) for v in r] for r in pr])
    c1, exc = call(g.classical_value)
    if exc is not None:
        return viol("classical_value raised: " + exc_text(exc), site="classical_value:exception", nontrivial=nontrivial)
    if abs(float(c1) - expected) > ALG:
        return viol("classical_value is not the maximum over +-1 answer assignments" if reps == 1 else
                    "classical_value of the repeated game is not the brute-force value of the product game",
                    site="classical_value:value" if reps == 1 else "classical_value:reps", observed=float(c1), expected=expected,
                    nontrivial=nontrivial)
    conv, exc = call(g.to_nonlocal_game)
    if exc is not None:
        return viol("to_nonlocal_game raised: " + exc_text(exc), site="to_nonlocal_game:exception", nontrivial=nontrivial)
    pm, qm = np.asarray(conv.pred_mat, dtype=float), np.asarray(conv.prob_mat, dtype=float)
    if pm.shape != exp_pred.shape or not np.array_equal(pm, exp_pred):
        return viol("converted predicate tensor is not V(a,b|x,y) = [a xor b = f(x,y)] (product game for reps > 1)",
                    site="to_nonlocal_game:pred", observed=pm if pm.size <= 64 else None, nontrivial=nontrivial)
    if qm.shape != exp_prob.shape or np.abs(qm - exp_prob).max() > 1e-12:
        return viol("converted game has a different question distribution", site="to_nonlocal_game:prob", nontrivial=nontrivial)
    if getattr(conv, "reps", None) != reps:
        return viol("converted game lost the repetition count", site="to_nonlocal_game:reps", observed=getattr(conv, "reps", None),
                    expected=reps, nontrivial=nontrivial)
    c2, exc = call(conv.classical_value)
    if exc is not None:
        return viol("classical_value of the converted game raised: " + exc_text(exc), site="classical_value:exception",
                    nontrivial=nontrivial)
    if abs(float(c2) - float(c1)) > ALG or abs(float(c2) - expected) > ALG:
        return viol("XOR game and converted game have different classical values", site="classical_value:converted",
                    observed=float(c2), expected=expected, nontrivial=nontrivial)
    c3, exc = call(g.classical_value)
    if exc is not None or abs(float(c3) - float(c1)) > 0:
        return viol("second classical_value() call on the same object differs", site="classical_value:aliasing", nontrivial=nontrivial)
    if not unchanged(snaps, P, F) or not unchanged(snaps, g.prob_mat, g.pred_mat) or g.reps != reps:
        return viol("classical_value / to_nonlocal_game modified the caller's matrices or the game object", site="classical_value:aliasing",
                    nontrivial=nontrivial)
    return ok(nontrivial, obs=float(c1), calls=4)


# ================================================================================================ C08.formulations
def canonical(X, Y, code):
    """first row and first column of f are zero (one representative per class under a(x), b(y) relabelling)"""
    f = R.pred_from_code(X, Y, code)
    return all(v == 0 for v in f[0]) and all(r[0] == 0 for r in f)


def fm_cases(tier, seed):
    for X, Y in shapes("quick"):
        cells = X * Y
        for code in range(2 ** cells):
            if min(X, Y) == 1:
                dists = ["uniform", "g0"] if tier == "quick" else ["uniform", "skew", "zent", "g0"]
            elif cells == 4:
                dists = ["uniform", "skew", "zrow", "zent", "g0"]
            elif cells == 6:
                dists = ["g0"] if tier == "quick" else ["uniform", "skew", "zrow", "zent", "g0"]
            else:  # 3 x 3
                if tier == "quick":
                    dists = ["uniform", "g0"] if canonical(X, Y, code) else (["skew"] if code % 37 == 5 else [])
                else:
                    dists = ["uniform", "zrow", "g0"] if canonical(X, Y, code) else ["g0"]
            for key in dists:
                if weights(X, Y, key) is None:
                    continue
                yield {"X": X, "Y": Y, "code": code, "dist": key}


def fm_check(case):
    from toqito.nonlocal_games.xor_game import XORGame

    X, Y, W, f, S, tot = build(case)
    cm, a, b = exact_classical(S, tot)
    c_exact = 0.5 + cm / (2.0 * tot)
    D = np.array(S, dtype=float) / tot
    br = R.bracket(D, (a, b))
    if br is None or br["U"] - br["L"] > 1e-6:
        return indet("no tight certificate")
    lo, hi = 0.5 + br["L"] / 2, 0.5 + br["U"] / 2
    nontrivial = cm < tot
    P = R.prob_floats(W)
    F = np.array(f, dtype=np.int64)
    snaps = snap(P, F)
    g, exc = call(XORGame, P, F)
    if exc is not None:
        return viol("constructor rejected a valid game: " + exc_text(exc), site="XORGame:constructor", nontrivial=nontrivial)
    vals = {}
    conv, exc = call(g.to_nonlocal_game)
    if exc is not None:
        return viol("to_nonlocal_game raised: " + exc_text(exc), site="to_nonlocal_game:exception", nontrivial=nontrivial)
    # ONE converted game object answers every query, the classical value first and once more at the end: a value method that
    # alters the object it is called on shows up in the later answers (added after seeded change C08-3)
    conv_snaps = snap(np.array(conv.prob_mat), np.array(conv.pred_mat))
    for name, fn, args in (("cl_conv", conv.classical_value, ()), ("quantum", g.quantum_value, ()),
                           ("npa1", conv.commuting_measurement_value_upper_bound, (1,)),
                           ("ns_xor", g.nonsignaling_value, ()), ("ns_conv", conv.nonsignaling_value, ()),
                           ("cl_xor", g.classical_value, ()), ("cl_conv2", conv.classical_value, ())):
        v, exc = call(fn, *args)
        if exc is not None:
            if is_solver_failure(exc):
                return indet(f"solver failure in {name}: " + exc_text(exc))
            return viol(f"{name} raised: " + exc_text(exc), site=name + ":exception", nontrivial=nontrivial)
        if v is None or not math.isfinite(float(v)):
            return indet(f"{name} returned {v}")
        vals[name] = float(v)
    if not unchanged(conv_snaps, np.array(conv.prob_mat), np.array(conv.pred_mat)) or abs(vals["cl_conv2"] - vals["cl_conv"]) > ALG:
        return viol("the converted game object changed while its values were computed (second classical value differs / arrays modified)",
                    site="converted_game:mutated", observed=[vals["cl_conv"], vals["cl_conv2"]], nontrivial=nontrivial)
    if not (lo - SCS <= vals["quantum"] <= hi + SCS):
        return viol("quantum value outside the certified bracket", site="quantum_value:bracket", observed=vals["quantum"],
                    expected=[lo, hi], nontrivial=nontrivial)
    if abs(vals["npa1"] - vals["quantum"]) > SCS or not (lo - SCS <= vals["npa1"] <= hi + SCS):
        return viol("NPA level 1 of the converted game differs from the XOR quantum value / the certified optimum",
                    site="npa1:value", observed=vals["npa1"], expected=[lo, hi], nontrivial=nontrivial)
    if abs(vals["ns_xor"] - 1.0) > SCS:
        return viol("non-signalling value of an XOR game with a 0/1 predicate is not 1", site="nonsignaling_value:xor",
                    observed=vals["ns_xor"], expected=1.0, nontrivial=nontrivial)
    if abs(vals["ns_conv"] - vals["ns_xor"]) > SCS:
        return viol("XOR game and converted game have different non-signalling values", site="nonsignaling_value:converted",
                    observed=vals["ns_conv"], expected=vals["ns_xor"], nontrivial=nontrivial)
    if abs(vals["cl_xor"] - c_exact) > ALG or abs(vals["cl_conv"] - c_exact) > ALG:
        return viol("classical values of the XOR game / converted game differ from the +-1 brute force", site="classical_value:converted",
                    observed=[vals["cl_xor"], vals["cl_conv"]], expected=c_exact, nontrivial=nontrivial)
    if vals["cl_xor"] > vals["npa1"] + SCS or vals["npa1"] > vals["ns_conv"] + SCS:
        return viol("ordering classical <= NPA1 <= non-signalling violated", site="order", observed=vals, nontrivial=nontrivial)
    if not unchanged(snaps, P, F) or not unchanged(snaps, g.prob_mat, g.pred_mat):
        return viol("caller's matrices or the game object changed", site="formulations:aliasing", nontrivial=nontrivial)
    return ok(nontrivial, obs=[round(vals[k], 6) for k in ("quantum", "npa1", "ns_xor", "ns_conv", "cl_xor")], calls=7)


# ================================================================================================ C08.closed_forms
def cf_cases(tier, seed):
    for code in range(16):
        for reps in (1, 2):
            yield {"kind": "chsh", "code": code, "reps": reps}
    for n in ((3, 5) if tier == "quick" else (3, 5, 7, 9)):
        for flip in (0, 1, 2):
            for reps in (1, 2):
                yield {"kind": "odd_cycle", "n": n, "flip": flip, "reps": reps}


def cf_check(case):
    from toqito.nonlocal_games.xor_game import XORGame

    reps = case["reps"]
    if case["kind"] == "chsh":
        f = R.pred_from_code(2, 2, case["code"])
        W = [[1, 1], [1, 1]]
        odd = (f[0][0] + f[0][1] + f[1][0] + f[1][1]) % 2 == 1
        q_exp = math.cos(math.pi / 8) ** 2 if odd else 1.0
        c_exp = 0.75 if odd else 1.0
        nontrivial = odd
    else:
        n = case["n"]
        W, f = R.odd_cycle(n)
        # relabellings that keep the value: flip Alice's answer on question 0 (row 0 complemented) / Bob's on question 1
        if case["flip"] == 1:
            f[0] = [1 - v for v in f[0]]
        elif case["flip"] == 2:
            for r in f:
                r[1] = 1 - r[1]
        q_exp = math.cos(math.pi / (4 * n)) ** 2
        c_exp = 1.0 - 1.0 / (2 * n)
        nontrivial = True
    P = R.prob_floats(W)
    F = np.array(f, dtype=np.int64)
    g, exc = call(XORGame, P, F, reps=reps)
    if exc is not None:
        return viol("constructor rejected a valid game: " + exc_text(exc), site="XORGame:constructor", nontrivial=nontrivial)
    q, exc = call(g.quantum_value)
    if exc is not None:
        return viol("quantum_value raised: " + exc_text(exc), site="quantum_value:exception", nontrivial=nontrivial)
    if abs(float(q) - q_exp ** reps) > SCS:
        return viol(f"closed form ({case['kind']}) not reproduced", site="quantum_value:closed_form", observed=float(q),
                    expected=q_exp ** reps, nontrivial=nontrivial)
    if reps == 1:
        c, exc = call(g.classical_value)
        if exc is not None:
            return viol("classical_value raised: " + exc_text(exc), site="classical_value:exception", nontrivial=nontrivial)
        if abs(float(c) - c_exp) > ALG:
            return viol(f"classical closed form ({case['kind']}) not reproduced", site="classical_value:closed_form", observed=float(c),
                        expected=c_exp, nontrivial=nontrivial)
    return ok(nontrivial, obs=round(float(q), 6), calls=2)


# ================================================================================================ C08.constructor
KINDS = ["shape_cols", "shape_rows", "shape_transposed", "shape_flat", "negative", "sum_low", "sum_high", "sum_1e-4",
         "sum_within_tol", "neg_within_tol", "valid"]


def ct_cases(tier, seed):
    for X, Y in shapes(tier):
        for kind in KINDS:
            for tol in (None, 1e-6):
                for reps in (1, 2):
                    if kind in ("sum_within_tol", "neg_within_tol") and tol is None:
                        continue
                    if kind in ("negative", "neg_within_tol") and X * Y < 2:
                        continue
                    if kind == "shape_transposed" and X == Y:
                        continue
                    if kind == "shape_flat" and (X == 1 or X * Y < 2):
                        continue
                    yield {"X": X, "Y": Y, "kind": kind, "tol": tol, "reps": reps}


def ct_check(case):
    from toqito.nonlocal_games.xor_game import XORGame

    X, Y, kind, tol, reps = case["X"], case["Y"], case["kind"], case["tol"], case["reps"]
    W = weights(X, Y, "skew")
    P = R.prob_floats(W)
    F = (np.arange(X * Y).reshape(X, Y) % 2).astype(np.int64)
    expect_reject = True
    if kind == "shape_cols":
        F = np.zeros((X, Y + 1), dtype=np.int64)
    elif kind == "shape_rows":
        F = np.zeros((X + 1, Y), dtype=np.int64)
    elif kind == "shape_transposed":
        F = np.zeros((Y, X), dtype=np.int64)
    elif kind == "shape_flat":
        F = np.zeros((1, X * Y), dtype=np.int64)
    elif kind == "negative":
        P = P.copy()
        delta = P[0, 0] + 0.1
        P[0, 0] -= delta
        P[X - 1, Y - 1] += delta
    elif kind == "sum_low":
        P = P * 0.9
    elif kind == "sum_high":
        P = P * 1.1
    elif kind == "sum_1e-4":
        P = P * (1 + 1e-4)
    elif kind == "sum_within_tol":
        P = P * (1 + 1e-8)
        expect_reject = False
    elif kind == "neg_within_tol":
        P = P.copy()
        P[0, 0] = -1e-9
        P[X - 1, Y - 1] += 1e-9 + R.prob_floats(W)[0, 0]
        expect_reject = False
    elif kind == "valid":
        expect_reject = False
    snaps = snap(P, F)
    g, exc = call(XORGame, P, F, reps=reps, tol=tol)
    if not unchanged(snaps, P, F):
        return viol("constructor modified its arguments", site="XORGame:aliasing")
    if expect_reject:
        if exc is None:
            return viol(f"constructor accepted an invalid game ({kind}, tol={tol})", site="XORGame:accepts_" + kind.split("_")[0])
        if not isinstance(exc, ValueError):
            return viol(f"constructor failed with {type(exc).__name__} instead of the documented ValueError ({kind}): " + exc_text(exc),
                        site="XORGame:wrong_exception")
        return ok(True, obs="ValueError")
    if exc is not None:
        return viol(f"constructor rejected a game that is valid within the tolerance ({kind}, tol={tol}): " + exc_text(exc),
                    site="XORGame:constructor")
    if g.prob_mat is not P and not np.array_equal(g.prob_mat, P):
        return viol("constructor stored a different prob_mat", site="XORGame:stored")
    if g.reps != reps:
        return viol("constructor stored a different reps", site="XORGame:stored")
    if reps_allowed(X, Y, reps):
        c, exc = call(g.classical_value)
        if exc is not None:
            return viol("classical_value raised on an accepted game: " + exc_text(exc), site="classical_value:exception")
    return ok(True, obs="accepted")


# ================================================================================================ C08.bell_max
MARG = [(0, 0, 0, 0), (1, 0, 0, 0), (0, 1, 0, 0), (0, 0, 1, 0), (0, 0, 0, -1), (-1, 0, -1, 0), (0, -1, 0, -1), (1, -1, 0, 0),
        (1, 0, 0, -1),
        # fractional marginal coefficients, used with dtype "mixed" (integer joint coefficients and outcome values, float marginals):
        # added after seeded change C08-6, which folded the marginals into an integer-typed table
        (0.5, 0, 0, 0), (0, 0, -0.75, 0), (0.5, -0.5, 0, 0.25), (1.5, 0, 0, 0.5)]
FRAC_MARG = (9, 10, 11, 12)
VALS = {"pm": (1, -1), "01": (0, 1)}
QUICK_COMBOS = [(0, "pm", "pm"), (0, "01", "01"), (2, "01", "01"), (2, "pm", "01"), (4, "01", "01"), (4, "01", "pm"),
                (5, "01", "01"), (5, "pm", "pm")]


def joint_from_code(code):
    digs = [(code // 3 ** k) % 3 for k in range(4)]
    val = {0: 0, 1: 1, 2: -1}
    return [[val[digs[0]], val[digs[1]]], [val[digs[2]], val[digs[3]]]]


def bm_cases(tier, seed):
    jcodes = sorted(range(81), key=lambda c: (sum(1 for r in joint_from_code(c) for v in r if v), c))
    for jc in jcodes:
        if tier == "quick":
            for m, va, vb in QUICK_COMBOS:
                yield {"j": jc, "m": m, "av": va, "bv": vb, "dtype": "int", "solver": None, "twice": jc % 27 == 13 and m == 0}
            if jc % 3 == 1:
                yield {"j": jc, "m": 0, "av": "pm", "bv": "pm", "dtype": "float", "solver": None, "twice": False}
            if jc % 3 == 0:
                for m in FRAC_MARG[:2]:
                    for va, vb in (("pm", "pm"), ("01", "pm")):
                        yield {"j": jc, "m": m, "av": va, "bv": vb, "dtype": "mixed", "solver": None, "twice": False}
        else:
            for m in FRAC_MARG:
                for va, vb in (("pm", "pm"), ("01", "pm"), ("01", "01")):
                    yield {"j": jc, "m": m, "av": va, "bv": vb, "dtype": "mixed", "solver": None, "twice": False}
            for m in range(len(MARG) - len(FRAC_MARG)):
                for va in VALS:
                    for vb in VALS:
                        yield {"j": jc, "m": m, "av": va, "bv": vb, "dtype": "int", "solver": None, "twice": jc % 27 == 13 and m == 0}
            for m, va, vb in QUICK_COMBOS[:4]:
                yield {"j": jc, "m": m, "av": va, "bv": vb, "dtype": "float", "solver": None, "twice": False}
            for solver in ("CLARABEL", "CVXOPT"):
                for m, va, vb in ((0, "pm", "pm"), (5, "01", "01"), (4, "01", "pm")):
                    yield {"j": jc, "m": m, "av": va, "bv": vb, "dtype": "int", "solver": solver, "twice": False}


def bm_check(case):
    from toqito.state_opt import bell_inequality_max

    J = joint_from_code(case["j"])
    mg = MARG[case["m"]]
    ac, bc = mg[:2], mg[2:]
    av, bv = VALS[case["av"]], VALS[case["bv"]]
    dt = np.int64 if case["dtype"] in ("int", "mixed") else float
    mdt = float if case["dtype"] == "mixed" else dt
    aJ, aav, abv = (np.array(t, dtype=dt) for t in (J, av, bv))
    aac, abc = (np.array(t, dtype=mdt) for t in (ac, bc))
    snaps = snap(aJ, aac, abc, aav, abv)
    nontrivial = sum(1 for r in J for v in r if v) >= 2
    kw = {} if case["solver"] is None else {"solver_name": case["solver"]}
    v, exc = call(bell_inequality_max, aJ, aac, abc, aav, abv, **kw)
    if exc is not None:
        if is_solver_failure(exc):
            return indet("solver failure: " + exc_text(exc))
        return viol("bell_inequality_max raised: " + exc_text(exc), site="bell_inequality_max:exception", nontrivial=nontrivial)
    if v is None or not math.isfinite(float(v)):
        return indet(f"bell_inequality_max returned {v}")
    v = float(v)
    if not unchanged(snaps, aJ, aac, abc, aav, abv):
        return viol("bell_inequality_max modified its arguments", site="bell_inequality_max:aliasing", nontrivial=nontrivial)
    orc = R.jordan_max(J, ac, bc, av, bv)
    if case["m"] == 0 and case["av"] == "pm" and case["bv"] == "pm":
        # pure correlator, +-1 outcomes: Tsirelson's vector problem for the coefficient matrix itself, certified bracket
        br = R.bracket(np.array(J, dtype=float))
        if br is not None and br["U"] - br["L"] <= 1e-6:
            if not (br["L"] - 1e-5 <= orc["value"] <= br["U"] + 1e-5):
                raise RuntimeError(f"harness: Jordan-lemma oracle {orc['value']} outside the certified bracket [{br['L']}, {br['U']}]")
            if not (br["L"] - BELL_TOL <= v <= br["U"] + BELL_TOL):
                return viol("not the Tsirelson optimum of the coefficient matrix (certified bracket from explicit unit vectors and "
                            "an explicit dual point)", site="bell_inequality_max:tsirelson", observed=v, expected=[br["L"], br["U"]],
                            nontrivial=nontrivial)
    if v < orc["deterministic"] - BELL_TOL:
        return viol("value below the best deterministic assignment", site="bell_inequality_max:below_deterministic", observed=v,
                    expected=orc["deterministic"], nontrivial=nontrivial)
    if v < orc["value"] - BELL_TOL:
        return viol(f"value below what an explicit two-qubit strategy attains (angles {orc['angles']})",
                    site="bell_inequality_max:below_attained", observed=v, expected=orc["value"], nontrivial=nontrivial)
    if v > orc["value"] + BELL_TOL:
        return viol("value above the quantum maximum (Jordan-lemma oracle)", site="bell_inequality_max:above_optimum", observed=v,
                    expected=orc["value"], nontrivial=nontrivial)
    if case.get("twice"):
        v2, exc = call(bell_inequality_max, aJ, aac, abc, aav, abv, **kw)
        if exc is not None or abs(float(v2) - v) > ALG or not unchanged(snaps, aJ, aac, abc, aav, abv):
            return viol("second call with the same argument objects differs", site="bell_inequality_max:aliasing", nontrivial=nontrivial)
    return ok(nontrivial, obs=round(v, 5), calls=2 if case.get("twice") else 1,
              advantage=bool(orc["value"] > orc["deterministic"] + 1e-6))


# ================================================================================================ alphabets (evidence)
def _alph_games(tier, seed):
    sh = shapes(tier)
    gen = {f"{x}x{y}:{k}": weights(x, y, k) for x, y in sh for k in dist_keys(tier) if k.startswith("g") and x * y <= 4}
    return {"shapes": [list(s) for s in sh], "predicates": "all 2^(X*Y) 0/1 matrices per shape",
            "distributions": dist_keys(tier), "tol": [None, 1e-6], "reps": [1, 2, 3], "pred_dtype": ["int64", "uint8", "float64", "bool"],
            "generic_weights(small shapes)": gen}


def _alph_bell(tier, seed):
    return {"joint": "all 81 matrices over {-1,0,1}^(2x2)", "marginals": MARG if tier == "thorough" else [MARG[c[0]] for c in QUICK_COMBOS],
            "outcome_values": VALS, "solvers": ["SCS"] + (["CLARABEL", "CVXOPT"] if tier == "thorough" else []),
            "dtype": ["int64", "float64"]}


def _alph_form(tier, seed):
    return {"shapes": [list(s) for s in shapes("quick")],
            "predicates": "all 0/1 matrices for X*Y <= 6; 3x3: the 16 matrices with zero first row and column (x2-3 distributions) + "
                          + ("every 37th other matrix (skew)" if tier == "quick" else "all other matrices (g0)"),
            "distributions": {"min(X,Y)=1": ["uniform", "g0"] if tier == "quick" else ["uniform", "skew", "zent", "g0"],
                              "2x2": ["uniform", "skew", "zrow", "zent", "g0"],
                              "2x3,3x2": ["g0"] if tier == "quick" else ["uniform", "skew", "zrow", "zent", "g0"]},
            "methods": ["quantum_value", "NPA level 1 (converted)", "nonsignaling_value (XOR)", "nonsignaling_value (converted)",
                        "classical_value (XOR)", "classical_value (converted)"]}


def _alph_closed(tier, seed):
    return {"chsh": "all 16 2x2 predicates, uniform distribution", "odd_cycle_n": [3, 5] if tier == "quick" else [3, 5, 7, 9],
            "relabelling": ["none", "row 0 complemented", "column 1 complemented"], "reps": [1, 2]}


def _alph_ctor(tier, seed):
    return {"shapes": [list(s) for s in shapes(tier)], "kinds": KINDS, "tol": [None, 1e-6], "reps": [1, 2]}


# ================================================================================================ C08.history
def hist_cases(tier, seed):
    games = [{"X": 2, "Y": 2, "code": 8, "dist": "uniform"}, {"X": 2, "Y": 3, "code": 0b100110, "dist": "g0"},
             {"X": 3, "Y": 3, "code": 0b101100011, "dist": "zero_entry" if "zero_entry" in dist_keys(tier) else "g0"},
             {"X": 3, "Y": 2, "code": 0b011010, "dist": "g0"}]
    for g in games:
        for reps in (1, 2):
            yield dict(g, reps=reps, depth=2 if tier == "quick" else 3)


def hist_check(case):
    """BFS over call histories of one XORGame object and of one converted NonlocalGame object: stored matrices unchanged in
    every state, every value equal to the value from the initial state."""
    from mc.history import explore
    from mc.own import digest
    from toqito.nonlocal_games.xor_game import XORGame

    X, Y, W, f, S, tot = build(case)
    P0 = R.prob_floats(W)
    F0 = np.array(f, dtype=np.int64)
    holder = {}

    def make():
        holder["P"], holder["F"] = P0.copy(), F0.copy()
        g = XORGame(holder["P"], holder["F"], case["reps"])
        return {"g": g, "conv": g.to_nonlocal_game() if case["reps"] == 1 else None}

    def apply(o, ev):
        if ev.startswith("conv_"):
            if o["conv"] is None:
                return None
            fn = getattr(o["conv"], ev[5:])
        else:
            fn = getattr(o["g"], ev)
        v, exc = call(fn)
        if exc is not None:
            return "EXC:" + exc_text(exc)
        return None if v is None else round(float(np.real(v)), 4)

    def dig(o):
        parts = [digest(np.asarray(o["g"].prob_mat), np.asarray(o["g"].pred_mat)), repr(getattr(o["g"], "reps", None))]
        if o["conv"] is not None:
            parts.append(digest(np.asarray(o["conv"].prob_mat), np.asarray(o["conv"].pred_mat)))
        return "|".join(parts)

    def invariant(o, hist):
        if not (np.array_equal(holder["P"], P0) and np.array_equal(holder["F"], F0)):
            return "the caller's matrices were modified"
        return None

    def same(a, b, ev):
        if isinstance(a, str) or isinstance(b, str) or a is None or b is None:
            return a == b
        return abs(a - b) <= 2 * SCS

    events = ["quantum_value", "classical_value"] + (["nonsignaling_value", "conv_classical_value", "conv_nonsignaling_value"] if case["reps"] == 1 else [])
    stats, bad = explore(make, events, apply, dig, invariant, same, case["depth"])
    for b in bad:
        return viol(f"XOR game call history: {b['kind']} after {b.get('history')}: {b.get('detail', '')} {b.get('after_history', '')} vs "
                    f"{b.get('from_initial', '')}", site="xor_history:" + b["kind"], observed=repr(b)[:300])
    if stats["states"] != 1:
        return viol("a value method changed the stored matrices of the game object", site="xor_history:state", observed=stats)
    return ok(True, obs=[stats["states"], stats["transitions"], stats["histories"]], states=stats["states"],
              transitions=stats["transitions"], histories=stats["histories"])


CLAUSES = [
    Clause("C08.bell_max", bm_cases, bm_check, tol="2e-3", chunk=2, weight=0.6, alphabets=_alph_bell, probe=3,
           doc="bell_inequality_max (m=2) = Jordan-lemma quantum maximum; >= best deterministic; pure correlators inside the "
               "certified Tsirelson bracket; arguments untouched"),
    Clause("C08.formulations", fm_cases, fm_check, tol="scs(1e-3)", chunk=1, weight=1.0, probe=3, alphabets=_alph_form,
           doc="quantum_value = NPA level 1 of to_nonlocal_game(); NS value = 1 for both encodings; classical values identical; "
               "ordering classical <= NPA1 <= NS"),
    Clause("C08.quantum_bracket", qb_cases, qb_check, tol="scs(1e-3)", weight=0.08, alphabets=_alph_games, probe=4,
           doc="quantum_value inside the certified primal/dual bracket for every (tol, reps, dtype); >= classical; Grothendieck; "
               "reps r = r-th power; object and arguments unchanged"),
    Clause("C08.classical", cl_cases, cl_check, tol="alg(1e-9)", alphabets=_alph_games, probe=4,
           doc="classical_value = +-1 brute force = general-game brute force of the converted tensor (incl. 10..12-question games that take the multiprocessing branch); to_nonlocal_game tensor exact; "
               "repeated game = product-game brute force"),
    Clause("C08.closed_forms", cf_cases, cf_check, tol="scs(1e-3)", chunk=2, probe=2, alphabets=_alph_closed,
           doc="CHSH family cos^2(pi/8); odd cycles cos^2(pi/4n), classical 1-1/2n; reps 1,2"),
    Clause("C08.constructor", ct_cases, ct_check, tol="exact", probe=4, alphabets=_alph_ctor,
           doc="shape mismatch / negative entries / sum != 1 beyond tol raise ValueError; valid-within-tol games are accepted"),
    Clause("C08.history", hist_cases, hist_check, tol="scs", chunk=1, weight=6.0, probe=1,
           doc="BFS over call histories of one XORGame object and its converted NonlocalGame: matrices unchanged, values reproducible"),
]
