"""C14 — entanglement / entropy quantities match their closed forms and are invariant under local unitaries.

Every clause enumerates a finite, explicitly stated space completely.  Pure states are *constructed* from Schmidt data
(partition of N -> unit Schmidt vector, local bases = columns of catalogue unitaries, so the state is not in the
computational Schmidt basis), handed to toqito in every accepted form (1-D / column / density matrix) with every form of
the ``dim`` argument, and the returned value is compared with the closed form in the s_i.  Mixed states are compared with
the definitions evaluated independently in ``mc/ref/entanglement.py`` (explicit index loops + eigvalsh / svd).
"""

from __future__ import annotations

import contextlib
import io
import itertools
import math
import warnings
from functools import lru_cache

import numpy as np

from mc import catalog as cat
from mc.engine import Clause, call, exc_text, indet, is_deliberate_rejection, ok, rejected, viol
from mc.ref import entanglement as E

ALG = 1e-9  # tolerance class "alg"
TOL = 1e-6  # tolerance class "spec"
SCS = 1e-3  # tolerance class "scs"
MARGIN = 0.02  # distance of every boolean margin case from its decision boundary (>= 100 x the predicates' 1e-5 / eps tolerances)

RULE = ("pure case = (function, (d_A,d_B), partition of N into <= min(d) parts -> Schmidt vector p/||p|| (N = 6 quick; 6 and 8 "
        "thorough), key of U_A, key of U_B (ALL catalogue unitaries of that dimension, generic complex ones included), input "
        "form 1-D / column / density); the state is sum_i s_i U_A e_i (x) U_B e_i; inside one case EVERY dim form (list / "
        "ndarray / omitted for square totals / int) and every k = 1..min(d) (k_param = 0..min(d)) is executed, and the case "
        "fails on the first deviation. mixed case = (function, dims, key of a mixed state: catalogue densities of the total "
        "dimension, generic densities of ranks n, n-1, 3, products of local densities, mixtures of constructed pure states, "
        "pure + white noise; dim form[, k_param]). invariance case = (function, dims, local unitary pair, N) and runs every "
        "state of the sub-alphabet. A pure case is non-trivial iff the local bases are not both monomial (the state is not a "
        "relabelled computational Schmidt form) and (Schmidt rank >= 2 or the function is a rank / product / decomposition "
        "test); a mixed case iff the function does not take a trivial value on it (product operator for entanglement "
        "measures, pure state for purity / entropy); an invariance case iff the unitary pair is not (monomial, monomial); an "
        "additivity case iff both factors are mixed; S(k)-norm / block-positivity cases iff k < min(d) and rank(X) > 1 (no "
        "shortcut branch). states = distinct cases, transitions = toqito calls")
ASSUMPTIONS = [
    "numpy.linalg.svd / eigvalsh / eigh of explicitly built matrices of size <= 16 are correct to 1e-12",
    "value domain is the finite alphabet above (structured + VERIF_SEED-derived generic elements); local dimensions 2..3 "
    "(quick) / 2..4 (thorough); no closure argument to the continuum of states",
    "schmidt_rank / schmidt_decomposition / is_product on a density matrix are judged against the OPERATOR Schmidt "
    "data, as documented (schmidt_rank(bell rho) = 4): for a pure state that is r^2 and the products s_i s_j",
    "l1-norm of coherence is basis dependent: its invariance is only demanded under local INCOHERENT unitaries "
    "(monomial = permutation x diagonal phase); demanding more would contradict the quantity's definition",
    "entanglement_of_formation of mixed states is only defined by the library for two qubits (Wootters); larger mixed "
    "inputs are counted as rejected",
    "S(k) operator norm: numpy's global RNG is owned with np.random.seed(s) (explicit axis); SDP-derived bounds are judged "
    "with 1e-3 * ||X|| (the routine rescales X to unit norm before solving), analytic / rank-1 / k >= min(d) branches with 1e-6; "
    "'every vector of Schmidt rank <= k' = every constructed Schmidt-alphabet vector of those dimensions with <= k "
    "terms, all products of catalogue kets, the rank-k truncations of all eigenvectors of X, and (k = 1) see-saw "
    "optimised product vectors started from them; effort 2 only for total dimension <= 9 (cost)",
    "is_block_positive is judged only on operators whose k-block-positivity is known in closed form with margin >= 0.02 "
    "(c I - |psi><psi| with c = sum of the k largest s_i^2 +- 0.05, positive definite operators, swap, I - 1.5 |ab><ab|)",
]


# ------------------------------------------------------------------------------------------------ alphabets
def local_dims(tier):
    ds = (2, 3) if tier == "quick" else (2, 3, 4)
    return sorted(((a, b) for a in ds for b in ds), key=lambda t: (t[0] * t[1], t))


def totals(tier) -> tuple:
    """Partition totals N: 6 (quick); 6 and 8 (thorough, so that thorough contains quick)."""
    return (6,) if tier == "quick" else (6, 8)


def partitions(n: int, maxparts: int) -> list:
    out = []
    for r in range(1, maxparts + 1):
        out += [list(p) for p in cat.compositions(n, r)]
    return out


def ukeys(d: int) -> list:
    return list(cat.unitaries(d))


@lru_cache(maxsize=None)
def _monomial(d: int, key: str, sd: int) -> bool:
    u = cat.unitaries(d)[key]
    return bool(np.all(np.sum(np.abs(u) > 1e-12, axis=0) == 1))


def monomial(d, key) -> bool:
    return _monomial(d, key, cat.seed())


@lru_cache(maxsize=4096)
def _pure(d_a, d_b, parts, ua, ub, sd):
    s = E.schmidt_coefficients(parts)
    v = E.schmidt_state(d_a, d_b, s, cat.unitaries(d_a)[ua], cat.unitaries(d_b)[ub])
    return v, tuple(s)


def pure(d_a, d_b, parts, ua, ub):
    v, s = _pure(d_a, d_b, tuple(parts), ua, ub, cat.seed())
    return v.copy(), list(s)


def as_form(v, form):
    if form == "vec1d":
        return v.copy()
    if form == "col":
        return v.reshape(-1, 1).copy()
    if form == "rho":
        return E.proj(v)
    raise KeyError(form)


def dim_arg(d_a, d_b, dimform):
    if dimform == "list":
        return [d_a, d_b]
    if dimform == "int":
        return int(d_a)
    if dimform == "ndarray":
        return np.array([d_a, d_b])
    if dimform == "omitted":
        return None
    raise KeyError(dimform)


def dimforms_for(d_a, d_b, with_ndarray=False):
    """list first (simplest), the scalar form last (so that a failure of one form does not hide the others inside a case)."""
    out = ["list"]
    if with_ndarray:
        out.append("ndarray")
    if d_a == d_b:
        out.append("omitted")
    out.append("int")
    return out


def _dedupe(gen):
    seen = set()
    for c in gen:
        key = repr(sorted(c.items(), key=lambda t: t[0]))
        if key not in seen:
            seen.add(key)
            yield c


def toq(name: str):
    if name == "schmidt_decomposition":
        from toqito.state_ops import schmidt_decomposition

        return schmidt_decomposition
    if name in ("sk_operator_norm", "is_block_positive"):
        import toqito.matrix_props as mp

        return getattr(mp, name)
    import toqito.state_props as sp

    return getattr(sp, name)


def quiet(f, *a, **k):
    with warnings.catch_warnings():
        warnings.simplefilter("ignore")
        with contextlib.redirect_stdout(io.StringIO()):
            return call(f, *a, **k)


def as_real(v, imag_tol=TOL):
    """float from a scalar-like return value (a complex with negligible imaginary part is accepted), else None."""
    try:
        a = np.asarray(v)
        if a.size != 1:
            return None
        z = complex(a.reshape(-1)[0])
    except Exception:  # noqa: BLE001
        return None
    if not (math.isfinite(z.real) and math.isfinite(z.imag)) or abs(z.imag) > imag_tol:
        return None
    return z.real


def as_int(v):
    try:
        a = np.asarray(v)
        if a.size != 1:
            return None
        x = float(a.reshape(-1)[0])
    except Exception:  # noqa: BLE001
        return None
    return int(x) if x == int(x) else None


def exc_site(fn, form, dimform=None):
    return f"{fn}:exception:{form}" + (f":dim_{dimform}" if dimform else "")


def raised(fn, exc, form, dimform=None, what="an in-domain input"):
    return viol(f"{fn} raised on {what} (form {form}, dim {dimform}): " + exc_text(exc), site=exc_site(fn, form, dimform),
                observed=exc_text(exc))


# ------------------------------------------------------------------------------------------------ C14.pure_closed_forms
VALUE_FNS = ["negativity", "log_negativity", "entanglement_of_formation"]
FORMS = ["vec1d", "col", "rho"]


def pure_states(tier):
    for (d_a, d_b) in local_dims(tier):
        for n in totals(tier):
            for parts in partitions(n, min(d_a, d_b)):
                for ua in ukeys(d_a):
                    for ub in ukeys(d_b):
                        yield d_a, d_b, parts, ua, ub


def big_pure_states(tier):
    """Local dimensions 4x4, 4x5 and 5x5 with Schmidt vectors of full length: the values leave the ranges familiar from qubits (negativity up
    to (d-1)/2 > 1, log-negativity and entropy up to log2 d > 2).  Added after seeded change C14-11, which clipped the negativity to [0, 1];
    in the quick tier only (the thorough tier enumerates 4x4 completely)."""
    if tier != "quick":
        return
    for d_a, d_b in ((4, 4), (4, 5), (5, 5)):
        m = min(d_a, d_b)
        for parts in ([1] * m, list(range(m, 0, -1)), [m] + [1] * (m - 1)):
            for ua, ub in (("I", "I"), ("F", "g0")):
                if ua in ukeys(d_a) and ub in ukeys(d_b):
                    yield d_a, d_b, parts, ua, ub


def pure_cases(tier, seed):
    """One case = (state, function, input form); the check runs EVERY dim form (and every k) for it."""
    for d_a, d_b, parts, ua, ub in itertools.chain(pure_states(tier), big_pure_states(tier)):
        base = {"dA": d_a, "dB": d_b, "p": parts, "ua": ua, "ub": ub}
        for fn in VALUE_FNS + ["schmidt_rank", "l1_norm_coherence"]:
            for form in FORMS:
                yield dict(base, fn=fn, form=form)
        for form in ("vec1d", "col"):
            yield dict(base, fn="sk_vector_norm", form=form)
        if (d_a, d_b) == (2, 2):
            yield dict(base, fn="concurrence", form="rho")


def pure_expected(fn, s, v, form, k=None):
    if fn == "negativity":
        return E.negativity_cf(s)
    if fn == "log_negativity":
        return E.log_negativity_cf(s)
    if fn == "entanglement_of_formation":
        return E.eof_cf(s)
    if fn == "concurrence":
        return E.concurrence_cf(s)
    if fn == "sk_vector_norm":
        return E.sk_vector_norm_cf(s, k)
    if fn == "l1_norm_coherence":
        return E.l1_coherence_of_vector(v)
    if fn == "schmidt_rank":
        return len(s) if form != "rho" else len(s) ** 2
    raise KeyError(fn)


def pure_check(case):
    fn, form = case["fn"], case["form"]
    d_a, d_b = case["dA"], case["dB"]
    v, s = pure(d_a, d_b, case["p"], case["ua"], case["ub"])
    f = toq(fn)
    mono = monomial(d_a, case["ua"]) and monomial(d_b, case["ub"])
    if fn in ("l1_norm_coherence", "concurrence"):
        variants = [(None, None)]
    elif fn == "sk_vector_norm":
        variants = [(df, k) for df in dimforms_for(d_a, d_b) for k in range(1, min(d_a, d_b) + 1)]
    else:
        variants = [(df, None) for df in dimforms_for(d_a, d_b, with_ndarray=(fn == "schmidt_rank"))]
    obs = []
    for df, k in variants:
        x = as_form(v, form)
        if fn == "sk_vector_norm":
            got, exc = quiet(f, x, k, dim_arg(d_a, d_b, df))
        elif df is None:
            got, exc = quiet(f, x)
        else:
            got, exc = quiet(f, x, dim_arg(d_a, d_b, df))
        if exc is not None:
            return raised(fn, exc, form, df, "a bipartite pure state")
        exp = pure_expected(fn, s, v, form, k)
        tag = f"(form {form}, dim {df}" + (f", k={k})" if k else ")")
        if fn == "schmidt_rank":
            r = as_int(got)
            kind = "operator" if form == "rho" else "vector"
            if r != exp:
                return viol(f"schmidt_rank of a {'pure density matrix (operator Schmidt rank r^2)' if form == 'rho' else 'vector'} with "
                            f"{len(s)} non-zero Schmidt coefficients on {d_a}x{d_b} {tag}: got {got!r}, expected {exp}",
                            site=f"schmidt_rank:value:{kind}", observed=r if r is not None else repr(got), expected=exp, dim=df)
            obs.append(r)
            continue
        z = as_real(got)
        if z is None or abs(z - exp) > TOL:
            return viol(f"{fn} differs from its closed form in the Schmidt coefficients {[round(t, 6) for t in s]} on {d_a}x{d_b} {tag}: "
                        f"got {got!r}, closed form {exp:.9g}", site=f"{fn}:value", observed=z if z is not None else repr(got), expected=exp, dim=df)
        obs.append(z)
    if fn == "schmidt_rank":
        return ok(not mono, obs=obs, calls=len(variants))
    if fn == "l1_norm_coherence":
        return ok(int(np.sum(np.abs(v) > 1e-12)) >= 2, obs=obs, calls=1)
    return ok(len(s) >= 2 and not mono, obs=obs, calls=len(variants))


# ------------------------------------------------------------------------------------------------ C14.decomposition
def decomp_cases(tier, seed):
    """One case = (state, input form, dim form); the check runs every k_param 0..min(d) (operator input: 0, 1, 2)."""
    for d_a, d_b, parts, ua, ub in pure_states(tier):
        base = {"dA": d_a, "dB": d_b, "p": parts, "ua": ua, "ub": ub}
        for form in FORMS:
            for df in dimforms_for(d_a, d_b, with_ndarray=True):
                yield dict(base, form=form, dim=df)


def _check_vector_decomposition(v, s, d_a, d_b, k, got):
    """None or (detail, site-suffix, observed, expected)."""
    try:
        sv, a_mat, b_mat = got
        sv = np.asarray(sv, dtype=float)
        a_mat, b_mat = np.asarray(a_mat), np.asarray(b_mat)
    except Exception:  # noqa: BLE001
        return ("did not return a triple (coefficients, factors of A, factors of B)", "shape", repr(got)[:120], None)
    srt = sorted(s, reverse=True)
    # k_param = k > 0: exactly k terms are documented; k_param = 0: all non-zero terms (extra zero terms are tolerated)
    r = k if k > 0 else (sv.shape[0] if sv.ndim == 2 else -1)
    if sv.ndim != 2 or sv.shape != (r, 1) or not (k > 0 or len(srt) <= r <= min(d_a, d_b)):
        return (f"returned Schmidt coefficients of shape {sv.shape}; expected ({k if k > 0 else len(srt)}, 1)", "count",
                list(sv.shape), [k if k > 0 else len(srt), 1])
    exp = np.array((srt + [0.0] * r)[:r])
    if np.max(np.abs(sv[:, 0] - exp)) > ALG:
        return ("Schmidt coefficients differ from the constructed ones", "coefficients", sv[:, 0].tolist(), exp.tolist())
    if a_mat.shape != (d_a, r) or b_mat.shape != (d_b, r):
        return (f"factor matrices have shapes {a_mat.shape}, {b_mat.shape}; expected ({d_a},{r}), ({d_b},{r})", "shape",
                [list(a_mat.shape), list(b_mat.shape)], [[d_a, r], [d_b, r]])
    for nm, mat in (("first", a_mat), ("second", b_mat)):
        g = mat.conj().T @ mat
        if np.max(np.abs(g - np.eye(r))) > ALG:
            return (f"the {nm} subsystem's factors are not orthonormal", "orthonormal", float(np.max(np.abs(g - np.eye(r)))), 0.0)
    terms = [np.kron(a_mat[:, i], b_mat[:, i]) for i in range(r)]
    for i in range(r):
        ov = complex(terms[i].conj() @ v)
        if abs(ov - exp[i]) > ALG:
            return (f"<a_{i} (x) b_{i}|v> = {ov:.9g} is not the Schmidt coefficient {exp[i]:.9g} (sum_i s_i a_i (x) b_i, no conjugation)",
                    "rebuild", [ov.real, ov.imag], float(exp[i]))
    rebuilt = sum((exp[i] * terms[i] for i in range(r)), np.zeros_like(v))
    res = float(np.linalg.norm(v - rebuilt))
    exp_res = math.sqrt(max(0.0, 1.0 - float(np.sum(exp ** 2))))
    if abs(res - exp_res) > 1e-7:
        return (f"sum_i s_i a_i (x) b_i does not rebuild the state: residual {res:.3g}, expected {exp_res:.3g}", "rebuild", res, exp_res)
    return None


def _check_operator_decomposition(rho, coeffs, d_a, d_b, k, got, tol=ALG):
    try:
        sv, a_ops, b_ops = got
        sv = np.asarray(sv, dtype=float)
        a_ops, b_ops = np.asarray(a_ops), np.asarray(b_ops)
    except Exception:  # noqa: BLE001
        return ("did not return a triple (coefficients, operators of A, operators of B)", "shape", repr(got)[:120], None)
    srt = sorted((float(c) for c in coeffs), reverse=True)
    r = k if k > 0 else (sv.shape[0] if sv.ndim == 2 else -1)
    if sv.ndim != 2 or sv.shape != (r, 1) or not (k > 0 or len(srt) <= r <= min(d_a * d_a, d_b * d_b)):
        return (f"returned operator-Schmidt coefficients of shape {sv.shape}; expected ({k if k > 0 else len(srt)}, 1)", "count",
                list(sv.shape), [k if k > 0 else len(srt), 1])
    exp = np.array((srt + [0.0] * r)[:r])
    if np.max(np.abs(sv[:, 0] - exp)) > tol:
        return ("operator-Schmidt coefficients differ from the reference (singular values of the realigned operator)", "coefficients",
                sv[:, 0].tolist(), exp.tolist())
    if a_ops.shape != (d_a, d_a, r) or b_ops.shape != (d_b, d_b, r):
        return (f"factor operators have shapes {a_ops.shape}, {b_ops.shape}; expected ({d_a},{d_a},{r}), ({d_b},{d_b},{r})", "shape",
                [list(a_ops.shape), list(b_ops.shape)], None)
    for nm, ops in (("first", a_ops), ("second", b_ops)):
        g = np.array([[np.trace(ops[:, :, i].conj().T @ ops[:, :, j]) for j in range(r)] for i in range(r)])
        if np.max(np.abs(g - np.eye(r))) > 10 * tol:
            return (f"the {nm} subsystem's factor operators are not Hilbert-Schmidt orthonormal", "orthonormal",
                    float(np.max(np.abs(g - np.eye(r)))), 0.0)
    rebuilt = sum((exp[i] * np.kron(a_ops[:, :, i], b_ops[:, :, i]) for i in range(r)), np.zeros_like(rho))
    res = float(np.linalg.norm(rho - rebuilt))
    exp_res = math.sqrt(max(0.0, float(np.sum(np.array(srt) ** 2) - np.sum(exp ** 2))))
    if abs(res - exp_res) > 100 * tol:
        return (f"sum_i s_i A_i (x) B_i does not rebuild the operator: residual {res:.3g}, expected {exp_res:.3g}", "rebuild", res, exp_res)
    return None


def decomp_check(case):
    d_a, d_b, form, df = case["dA"], case["dB"], case["form"], case["dim"]
    v, s = pure(d_a, d_b, case["p"], case["ua"], case["ub"])
    f = toq("schmidt_decomposition")
    ks = (0, 1, 2) if form == "rho" else tuple(range(0, min(d_a, d_b) + 1))
    obs = []
    for k in ks:
        x = as_form(v, form)
        got, exc = quiet(f, x, dim_arg(d_a, d_b, df), k)
        if exc is not None:
            return raised("schmidt_decomposition", exc, form, df, "a bipartite pure state")
        if form == "rho":
            coeffs = [a * b for a in s for b in s]
            bad = _check_operator_decomposition(x, coeffs, d_a, d_b, k, got)
            kind = "operator"
        else:
            bad = _check_vector_decomposition(v, s, d_a, d_b, k, got)
            kind = "vector"
        if bad:
            return viol(f"schmidt_decomposition ({kind}, form {form}, dim {df}, k_param={k}) on {d_a}x{d_b}: {bad[0]}",
                        site=f"schmidt_decomposition:{kind}:{bad[1]}", observed=bad[2], expected=bad[3])
        obs.append(len(np.asarray(got[0])))
    mono = monomial(d_a, case["ua"]) and monomial(d_b, case["ub"])
    return ok(not mono, obs=obs, calls=len(ks))


# ------------------------------------------------------------------------------------------------ mixed-state alphabet
def _pkey(parts, ua, ub):
    return "-".join(map(str, parts)) + ":" + ua + ":" + ub


def _pure_from_key(d_a, d_b, key):
    ps, ua, ub = key.split(":")
    return pure(d_a, d_b, [int(t) for t in ps.split("-")], ua, ub)


def _named_partitions(n, m):
    """balanced (most parts, flattest), unbalanced rank-2, product."""
    ps = partitions(n, m)
    balanced = ps[-1]
    unbalanced = [n - 1, 1]
    second = ps[-2] if len(ps) > 2 else [n - 2, 2]
    return balanced, unbalanced, second, [n]


MIX_WEIGHTS = {0: (1, 1), 1: (2, 1), 2: (3, 2, 1), 3: (1, 1)}


def _mix_components(d_a, d_b, idx, n):
    bal, unb, sec, prod = _named_partitions(n, min(d_a, d_b))
    if idx == 0:
        return [_pkey(bal, "g0", "g1"), _pkey(prod, "g1", "g0")]
    if idx == 1:
        return [_pkey(unb, "F", "XZ"), _pkey(bal, "g0", "g0")]
    if idx == 2:
        return [_pkey(bal, "g0", "g1"), _pkey(sec, "I", "I"), _pkey(prod, "XZ", "F")]
    return [_pkey(bal, "I", "I"), _pkey(unb, "I", "I")]


LOCAL_A = ["gfull0", "ramp2@F", "ket:g0", "flat2@I"]
LOCAL_B = ["gfull1", "ket:chirp", "ramp2@g"]
CAT_KEYS = ["gfull0", "gfull1", "gdef0", "gdef1", "ramp2@g", "ramp3@g", "ramp2hi@g", "ramp3@F", "flat2@F", "flat3hi@I"]


def mixed_keys(d_a, d_b, nts) -> list:
    n = d_a * d_b
    out = []
    if n <= 12:
        have = cat.densities(n)
        out += ["cat:" + k for k in CAT_KEYS + [f"ramp{n}@g", f"ramp{n}@F", f"flat{n}@I"] if k in have]
    out += [f"gd:{k}:{r}" for k in (0, 1) for r in (n, n - 1, 3)]
    out += [f"prod:{a}|{b}" for a in LOCAL_A for b in LOCAL_B]
    for n_total in nts:
        out += [f"mix:{i}:{n_total}" for i in MIX_WEIGHTS]
        bal, unb, sec, prod = _named_partitions(n_total, min(d_a, d_b))
        out += [f"noisy:{_pkey(bal, 'g0', 'g1')}:{q}" for q in ("0.2", "0.5", "0.9")]
        out += [f"noisy:{_pkey(unb, 'F', 'XZ')}:0.5"]
        out += ["pure:" + _pkey(bal, "g0", "g1"), "pure:" + _pkey(unb, "F", "XZ"), "pure:" + _pkey(prod, "g1", "g0")]
    return list(dict.fromkeys(out))


def sub_keys(d_a, d_b, nts) -> list:
    """Sub-alphabet used where the other axis is large (local unitary pairs)."""
    n = d_a * d_b
    out = [f"gd:0:{n}", f"gd:1:{n - 1}", "gd:0:3", "prod:gfull0|gfull1", "prod:ket:g0|ramp2@g"]
    for n_total in nts:
        bal, unb, sec, prod = _named_partitions(n_total, min(d_a, d_b))
        out += [f"mix:0:{n_total}", f"mix:1:{n_total}", f"mix:2:{n_total}", f"noisy:{_pkey(bal, 'g0', 'g1')}:0.5",
                f"noisy:{_pkey(unb, 'F', 'XZ')}:0.5", "pure:" + _pkey(bal, "g0", "g1"), "pure:" + _pkey(unb, "F", "XZ")]
    return list(dict.fromkeys(out))


@lru_cache(maxsize=2048)
def _mixed(d_a, d_b, key, sd):
    n = d_a * d_b
    kind, rest = key.split(":", 1)
    if kind == "cat":
        return cat.densities(n)[rest].copy()
    if kind == "gd":
        k, r = rest.split(":")
        return cat.generic_density(n, int(k), rank=int(r))
    if kind == "prod":
        a, b = rest.split("|")
        return E.herm(np.kron(cat.densities(d_a)[a], cat.densities(d_b)[b]))
    if kind == "mix":
        idx, nt = (int(t) for t in rest.split(":"))
        w = np.array(MIX_WEIGHTS[idx], dtype=float)
        w = w / w.sum()
        comps = _mix_components(d_a, d_b, idx, nt)
        return E.herm(sum(wi * E.proj(_pure_from_key(d_a, d_b, c)[0]) for wi, c in zip(w, comps)))
    if kind == "noisy":
        pk, q = rest.rsplit(":", 1)
        q = float(q)
        return E.herm(q * E.proj(_pure_from_key(d_a, d_b, pk)[0]) + (1 - q) * np.eye(n) / n)
    if kind == "pure":
        return E.proj(_pure_from_key(d_a, d_b, rest)[0])
    raise KeyError(key)


def mixed(d_a, d_b, key) -> np.ndarray:
    return _mixed(d_a, d_b, key, cat.seed()).astype(complex).copy()


def is_product_key(key) -> bool:
    return key.startswith("prod:") or (key.startswith("pure:") and len(key.split(":")[1].split("-")) == 1)



# ------------------------------------------------------------------------------------------------ C14.mixed_reference
MIXED_DIM_FNS = ["negativity", "log_negativity", "schmidt_rank", "schmidt_decomposition", "entanglement_of_formation"]
MIXED_FNS = ["purity", "von_neumann_entropy", "l1_norm_coherence"]


def mixed_cases(tier, seed):
    for (d_a, d_b) in local_dims(tier):
        for key in mixed_keys(d_a, d_b, totals(tier)):
            base = {"dA": d_a, "dB": d_b, "x": key}
            for fn in MIXED_DIM_FNS:
                for df in dimforms_for(d_a, d_b, with_ndarray=fn.startswith("schmidt")):
                    if fn == "schmidt_decomposition":
                        for k in (0, 1, 3):
                            yield dict(base, fn=fn, dim=df, k=k)
                    else:
                        yield dict(base, fn=fn, dim=df)
            for fn in MIXED_FNS:
                yield dict(base, fn=fn)
            if (d_a, d_b) == (2, 2):
                yield dict(base, fn="concurrence")


def _xcheck(name, a, b, tol=1e-9):
    if abs(a - b) > tol:
        raise RuntimeError(f"reference models disagree for {name}: {a} vs {b}")


def mixed_value_reference(fn, rho, d_a, d_b):
    if fn == "negativity":
        v = E.negativity_ref(rho, d_a, d_b)
        _xcheck(fn, v, E.negativity_alt(rho, d_a, d_b))
        return v
    if fn == "log_negativity":
        return E.log_negativity_ref(rho, d_a, d_b)
    if fn == "purity":
        v = E.purity_ref(rho)
        _xcheck(fn, v, float(np.sum(np.linalg.eigvalsh(rho) ** 2)))
        return v
    if fn == "von_neumann_entropy":
        return E.vn_entropy_ref(rho)
    if fn == "l1_norm_coherence":
        return E.l1_coherence_of_matrix(rho)
    if fn == "concurrence":
        return E.concurrence_ref(rho)
    if fn == "entanglement_of_formation":
        return E.eof_of_concurrence(E.concurrence_ref(rho))
    raise KeyError(fn)


def mixed_check(case):
    fn, d_a, d_b, key, df = case["fn"], case["dA"], case["dB"], case["x"], case.get("dim")
    rho = mixed(d_a, d_b, key)
    f = toq(fn)
    is_pure = E.purity_ref(rho) > 1 - 1e-9  # rank one (pure:* keys and products of two catalogue kets)
    prod = is_product_key(key)
    if fn == "schmidt_decomposition":
        got, exc = quiet(f, rho, dim_arg(d_a, d_b, df), case["k"])
    elif df is not None:
        got, exc = quiet(f, rho, dim_arg(d_a, d_b, df))
    else:
        got, exc = quiet(f, rho)
    if fn == "entanglement_of_formation" and not is_pure and (d_a, d_b) != (2, 2):
        if exc is not None and is_deliberate_rejection(exc):
            return rejected("entanglement_of_formation is documented for pure states and two-qubit states only")
        if exc is None:
            return indet("no reference value for the entanglement of formation of a mixed state beyond two qubits")
    if exc is not None:
        return raised(fn, exc, "rho", df, "a bipartite density matrix")
    if fn in ("schmidt_rank", "schmidt_decomposition"):
        sv = E.operator_schmidt_coefficients(rho, d_a, d_b)
        rank, decidable = E.rank_with_margin(sv)
        if not decidable:
            return indet("operator Schmidt coefficient inside (1e-9, 1e-4): rank not decidable with margin")
        if fn == "schmidt_rank":
            r = as_int(got)
            if r != rank:
                return viol(f"operator Schmidt rank of a {d_a}x{d_b} density matrix: got {got!r}, rank of the realigned matrix is {rank}",
                            site="schmidt_rank:value:operator", observed=r if r is not None else repr(got), expected=rank)
            return ok(not prod, obs=r)
        bad = _check_operator_decomposition(rho, sv[:rank], d_a, d_b, case["k"], got, tol=1e-8)
        if bad:
            return viol(f"schmidt_decomposition (operator, k_param={case['k']}) of a {d_a}x{d_b} density matrix: {bad[0]}",
                        site=f"schmidt_decomposition:operator:{bad[1]}", observed=bad[2], expected=bad[3])
        return ok(not prod, obs=len(np.asarray(got[0])))
    if fn == "entanglement_of_formation" and is_pure:
        top = np.linalg.eigh(rho)[1][:, -1]
        exp = E.eof_cf([float(t) for t in E.schmidt_of_vector(top, d_a, d_b) if t > 1e-12])
    else:
        exp = mixed_value_reference(fn, rho, d_a, d_b)
    z = as_real(got)
    if z is None or abs(z - exp) > TOL:
        return viol(f"{fn} of a {d_a}x{d_b} density matrix differs from its definition evaluated independently: got {got!r}, reference {exp:.9g}",
                    site=f"{fn}:value", observed=z if z is not None else repr(got), expected=exp)
    trivial = (prod and fn in ("negativity", "log_negativity", "concurrence", "entanglement_of_formation")) or \
              (is_pure and fn in ("purity", "von_neumann_entropy"))
    return ok(not trivial, obs=z)


# ------------------------------------------------------------------------------------------------ C14.lu_invariance
INV_OP_FNS = ["negativity", "log_negativity", "purity", "von_neumann_entropy", "schmidt_rank", "op_schmidt_coefficients"]
INV_VEC_FNS = ["schmidt_rank", "sk_vector_norm", "schmidt_coefficients", "entanglement_of_formation", "negativity"]
GENERIC_VECS = ["g0", "g1", "ramp", "chirp", "f1"]


def unitary_pairs(d_a, d_b):
    for ua in ukeys(d_a):
        for ub in ukeys(d_b):
            if (ua, ub) != ("I", "I"):
                yield ua, ub


def lu_cases(tier, seed):
    """One case = (dims, local unitary pair, function, operator|vector); the check runs EVERY state of the sub-alphabet (and every k)."""
    for (d_a, d_b) in local_dims(tier):
        for ua, ub in unitary_pairs(d_a, d_b):
            inco = monomial(d_a, ua) and monomial(d_b, ub)
            base = {"dA": d_a, "dB": d_b, "ua": ua, "ub": ub}
            for nt in totals(tier):
                for fn in INV_OP_FNS + (["concurrence", "entanglement_of_formation"] if (d_a, d_b) == (2, 2) else []) + (["l1_norm_coherence"] if inco else []):
                    yield dict(base, fn=fn, kind="op", nt=nt)
            for fn in INV_VEC_FNS + (["l1_norm_coherence"] if inco else []):
                yield dict(base, fn=fn, kind="vec")


def _inv_value(fn, x, d_a, d_b, kind, k=None):
    """(value as list of floats | int, exc)"""
    dim = [d_a, d_b]
    if fn in ("op_schmidt_coefficients", "schmidt_coefficients"):
        got, exc = quiet(toq("schmidt_decomposition"), x, dim)
        if exc is not None:
            return None, exc
        return [float(t) for t in np.asarray(got[0], dtype=float).reshape(-1)], None
    f = toq(fn)
    if fn == "sk_vector_norm":
        got, exc = quiet(f, x, k, dim)
    elif fn in ("purity", "von_neumann_entropy", "l1_norm_coherence", "concurrence"):
        got, exc = quiet(f, x)
    else:
        got, exc = quiet(f, x, dim)
    if exc is not None:
        return None, exc
    if fn == "schmidt_rank":
        return as_int(got), None
    return as_real(got), None


def lu_check(case):
    fn, d_a, d_b, kind = case["fn"], case["dA"], case["dB"], case["kind"]
    n = d_a * d_b
    u = np.kron(cat.unitary(d_a, case["ua"]), cat.unitary(d_b, case["ub"]))
    if kind == "op":
        items = [(key, None) for key in sub_keys(d_a, d_b, (case["nt"],))]
    else:
        ks = list(range(1, min(d_a, d_b))) if fn == "sk_vector_norm" else [None]
        items = [(vk, k) for vk in GENERIC_VECS if vk in cat.kets(n) for k in ks]
    nontriv = not (monomial(d_a, case["ua"]) and monomial(d_b, case["ub"])) or fn == "l1_norm_coherence"
    site = f"{fn}:lu_invariance:{kind}"
    obs = []
    for key, k in items:
        if kind == "op":
            x = mixed(d_a, d_b, key)
            y = E.herm(u @ x @ u.conj().T)
        else:
            x = cat.ket(n, key).reshape(-1, 1)
            y = u @ x
        v1, e1 = _inv_value(fn, x, d_a, d_b, kind, k)
        v2, e2 = _inv_value(fn, y, d_a, d_b, kind, k)
        where = f"state {key}" + (f", k={k}" if k else "") + f", {d_a}x{d_b}, L = {case['ua']} (x) {case['ub']}"
        if e1 is not None or e2 is not None:
            return raised(fn, e1 or e2, "rho" if kind == "op" else "col", "list", "a state and its local-unitary image (" + where + ")")
        if v1 is None or v2 is None:
            return viol(f"{fn} did not return a real scalar on a state / its local-unitary image ({where})", site=site, observed=repr((v1, v2)))
        if fn == "schmidt_rank":
            if v1 != v2:
                return viol(f"{'operator ' if kind == 'op' else ''}Schmidt rank changes under a local unitary: {v1} -> {v2} ({where})",
                            site=site, observed=v2, expected=v1)
        elif isinstance(v1, list):
            if len(v1) != len(v2) or max(abs(a - b) for a, b in zip(v1, v2)) > TOL:
                return viol(f"Schmidt coefficients change under a local unitary ({where})", site=site, observed=v2, expected=v1)
        elif abs(v1 - v2) > TOL:
            return viol(f"{fn} is not invariant under a local unitary: {v1:.9g} -> {v2:.9g} ({where})", site=site, observed=v2, expected=v1)
        obs.append(v2)
    return ok(nontriv, obs=obs, calls=2 * len(items))


# ------------------------------------------------------------------------------------------------ C14.entropy_additivity
def additivity_cases(tier, seed):
    for (d_a, d_b) in local_dims(tier):
        for a in cat.densities(d_a):
            for b in cat.densities(d_b):
                yield {"dA": d_a, "dB": d_b, "a": a, "b": b}


def additivity_check(case):
    d_a, d_b = case["dA"], case["dB"]
    ra, rb = cat.density(d_a, case["a"]), cat.density(d_b, case["b"])
    f = toq("von_neumann_entropy")
    vals = []
    for m in (ra, rb, E.herm(np.kron(ra, rb))):
        got, exc = quiet(f, m)
        if exc is not None:
            return raised("von_neumann_entropy", exc, "rho", None, "a density matrix")
        z = as_real(got)
        if z is None:
            return viol(f"von_neumann_entropy returned {got!r}", site="von_neumann_entropy:value", observed=repr(got))
        vals.append(z)
    ref = [E.vn_entropy_ref(ra), E.vn_entropy_ref(rb)]
    for z, r, nm in ((vals[0], ref[0], "first factor"), (vals[1], ref[1], "second factor"), (vals[2], ref[0] + ref[1], "product")):
        if abs(z - r) > TOL:
            return viol(f"von_neumann_entropy of the {nm} differs from -sum lambda log2 lambda: got {z:.9g}, reference {r:.9g}",
                        site="von_neumann_entropy:value", observed=z, expected=r)
    if abs(vals[2] - vals[0] - vals[1]) > TOL:
        return viol(f"entropy is not additive on a product: S(rho (x) sigma) = {vals[2]:.9g}, S(rho) + S(sigma) = {vals[0] + vals[1]:.9g}",
                    site="von_neumann_entropy:additivity", observed=vals[2], expected=vals[0] + vals[1])
    return ok(ref[0] > 1e-6 and ref[1] > 1e-6, obs=vals, calls=3)


# ------------------------------------------------------------------------------------------------ C14.is_product
TRI_KETS = ["e0", "g0", "chirp"]


def tri_dims(tier):
    out = [[2, 2, 2], [2, 3, 2], [3, 2, 2], [2, 2, 3], [3, 3, 2], [2, 3, 3]]
    if tier == "thorough":
        out += [[3, 2, 3], [3, 3, 3], [2, 4, 3], [4, 2, 2], [2, 2, 4]]
    return out


def product_cases(tier, seed):
    yield from _dedupe(_product_cases(tier))


def _product_cases(tier):
    """Bipartite: one case = (state, input form), every dim form inside; tripartite: one case per (dims, structure, kets, form, dim form)."""
    nt = totals(tier)
    for d_a, d_b, parts, ua, ub in pure_states(tier):
        for form in FORMS:
            yield {"kind": "bi", "dA": d_a, "dB": d_b, "p": parts, "ua": ua, "ub": ub, "form": form}
    for (d_a, d_b) in local_dims(tier):
        for key in mixed_keys(d_a, d_b, nt):
            yield {"kind": "biop", "dA": d_a, "dB": d_b, "x": key}
    for dims in tri_dims(tier):
        for form in FORMS:
            for df in ("list", "ndarray"):
                for ks in itertools.product(TRI_KETS, repeat=3):
                    yield {"kind": "tri", "dims": dims, "struct": "abc", "k": list(ks), "form": form, "dim": df}
                for struct in ("a|bc", "ab|c", "ac|b"):
                    for ka in ("g0", "e1"):
                        for pp in ("5-1", "3-3"):
                            for (u1, u2) in (("g0", "g1"), ("F", "I")):
                                yield {"kind": "tri", "dims": dims, "struct": struct, "k": [ka], "ent": f"{pp}:{u1}:{u2}", "form": form, "dim": df}
                for us in (["g0", "g1", "g0"], ["I", "I", "I"], ["F", "XZ", "g1"]):
                    yield {"kind": "tri", "dims": dims, "struct": "ghz", "k": us, "form": form, "dim": df}
        for df in ("list", "ndarray"):
            for la in ("gfull0", "ket:g0"):
                for lb in ("gfull1", "ramp2@F"):
                    for lc in ("gfull0", "flat2@I"):
                        yield {"kind": "triop", "dims": dims, "struct": "abc", "k": [la, lb, lc], "dim": df}
                    for pp in ("5-1", "3-3"):
                        yield {"kind": "triop", "dims": dims, "struct": "a|bc", "k": [la], "ent": f"{pp}:g0:g1", "dim": df}
                        yield {"kind": "triop", "dims": dims, "struct": "ab|c", "k": [la], "ent": f"{pp}:g0:g1", "dim": df}


def tri_vector(case):
    """(vector, is product)"""
    d1, d2, d3 = case["dims"]
    st = case["struct"]
    if st == "abc":
        a, b, c = (cat.ket(d, k) for d, k in zip((d1, d2, d3), case["k"]))
        return np.kron(np.kron(a, b), c), True
    if st == "ghz":
        us = [cat.unitary(d, k) for d, k in zip((d1, d2, d3), case["k"])]
        v = sum(np.kron(np.kron(us[0][:, i], us[1][:, i]), us[2][:, i]) for i in range(2)) / math.sqrt(2)
        return v, False
    if st == "a|bc":
        ent, _ = _pure_from_key(d2, d3, case["ent"])
        return np.kron(cat.ket(d1, case["k"][0]), ent), False
    if st == "ab|c":
        ent, _ = _pure_from_key(d1, d2, case["ent"])
        return np.kron(ent, cat.ket(d3, case["k"][0])), False
    if st == "ac|b":
        ent, _ = _pure_from_key(d1, d3, case["ent"])
        b = cat.ket(d2, case["k"][0])
        v = np.zeros(d1 * d2 * d3, dtype=complex)
        for i in range(d1):
            for j in range(d2):
                for l in range(d3):
                    v[(i * d2 + j) * d3 + l] = ent[i * d3 + l] * b[j]
        return v, False
    raise KeyError(st)


def tri_operator(case):
    d1, d2, d3 = case["dims"]
    st = case["struct"]
    if st == "abc":
        a, b, c = (cat.density(d, k) for d, k in zip((d1, d2, d3), case["k"]))
        return np.kron(np.kron(a, b), c), True
    if st == "a|bc":
        return np.kron(cat.density(d1, case["k"][0]), E.proj(_pure_from_key(d2, d3, case["ent"])[0])), False
    if st == "ab|c":
        return np.kron(E.proj(_pure_from_key(d1, d2, case["ent"])[0]), cat.density(d3, case["k"][0])), False
    raise KeyError(st)


def _verdict(got):
    """(bool | None, decomposition) from is_product's return value."""
    try:
        ipv, dec = got
        return bool(np.all(np.asarray(ipv))), dec
    except Exception:  # noqa: BLE001
        return None, None


def product_check(case):
    f = toq("is_product")
    kind = case["kind"]
    v = None
    if kind == "bi":
        d_a, d_b = case["dA"], case["dB"]
        v, s = pure(d_a, d_b, case["p"], case["ua"], case["ub"])
        x = as_form(v, case["form"])
        expected = len(s) == 1
        dims_ = [(df, dim_arg(d_a, d_b, df)) for df in dimforms_for(d_a, d_b, with_ndarray=True)]
        form, label = case["form"], f"{d_a}x{d_b} pure state of Schmidt rank {len(s)}"
        nontriv = not (monomial(d_a, case["ua"]) and monomial(d_b, case["ub"]))
    elif kind == "biop":
        d_a, d_b = case["dA"], case["dB"]
        x = mixed(d_a, d_b, case["x"])
        sv = E.operator_schmidt_coefficients(x, d_a, d_b)
        rank, decidable = E.rank_with_margin(sv)
        if not decidable:
            return indet("operator Schmidt coefficient inside (1e-9, 1e-4): product test not judged")
        expected = rank == 1
        dims_ = [(df, dim_arg(d_a, d_b, df)) for df in dimforms_for(d_a, d_b, with_ndarray=True)]
        form, label = "rho", f"{d_a}x{d_b} density matrix {case['x']} of operator Schmidt rank {rank}"
        nontriv = True
    else:
        dims = case["dims"]
        if kind == "tri":
            v, expected = tri_vector(case)
            x = as_form(v, case["form"])
            form = case["form"]
        else:
            x, expected = tri_operator(case)
            x = x.astype(complex)
            form = "rho"
        dims_ = [(case["dim"], list(dims) if case["dim"] == "list" else np.array(dims))]
        label = f"tripartite {dims} {'operator' if form == 'rho' else 'vector'} of structure {case['struct']}"
        nontriv = True
    site_kind = {"bi": "bipartite", "biop": "bipartite", "tri": "tripartite", "triop": "tripartite"}[kind] + (":operator" if form == "rho" else ":vector")
    for df, dim in dims_:
        got, exc = quiet(f, x.copy(), dim)
        if exc is not None:
            return viol(f"is_product raised on a {label} (form {form}, dim {df}): " + exc_text(exc),
                        site=f"is_product:exception:{site_kind}:dim_{df}", observed=exc_text(exc))
        verdict, dec = _verdict(got)
        if verdict is None:
            return viol(f"is_product did not return (verdict, decomposition): {got!r}", site=f"is_product:return:{site_kind}", observed=repr(got)[:120])
        if verdict != expected:
            return viol(f"is_product says {verdict} for a {label} (form {form}, dim {df}); expected {expected}", site=f"is_product:verdict:{site_kind}",
                        observed=verdict, expected=expected)
        if verdict and form != "rho":
            try:
                parts = [np.asarray(t).reshape(-1) for t in dec]
                rebuilt = parts[0]
                for t in parts[1:]:
                    rebuilt = np.kron(rebuilt, t)
                err = float(np.max(np.abs(rebuilt - v)))
            except Exception as e:  # noqa: BLE001
                return viol(f"is_product accepted a {label} but its decomposition is unusable: {type(e).__name__}: {e}",
                            site=f"is_product:decomposition:{site_kind}", observed=repr(dec)[:120])
            if err > ALG:
                return viol(f"is_product accepted a {label} but the returned factors do not multiply back to the vector (max error {err:.3g})",
                            site=f"is_product:decomposition:{site_kind}", observed=err, expected=0.0)
    return ok(nontriv, obs=expected, calls=len(dims_))


# ------------------------------------------------------------------------------------------------ C14.sk_operator_norm
def sk_x_keys(d_a, d_b, n_total):
    bal, unb, sec, prod = _named_partitions(n_total, min(d_a, d_b))
    n = d_a * d_b
    keys = [f"gd:0:{n}", f"gd:1:{n - 1}", "gd:0:3", "gd:1:2", f"mix:0:{n_total}", f"mix:2:{n_total}",
            f"noisy:{_pkey(bal, 'g0', 'g1')}:0.5", f"noisy:{_pkey(unb, 'F', 'XZ')}:0.9", "prod:gfull0|gfull1", "prod:ket:g0|ramp2@g",
            "pure:" + _pkey(bal, "g0", "g1"), "pure:" + _pkey(unb, "F", "XZ"), "pure:" + _pkey(sec, "I", "ph"),
            "herm:diff", f"herm:witness:{n_total}", "nonherm:0"]
    if d_a == d_b:
        keys.append("herm:swap")
    return keys


def sk_matrix(d_a, d_b, key):
    n = d_a * d_b
    if key == "herm:diff":
        return E.herm(cat.generic_density(n, 0) - cat.generic_density(n, 1, rank=n - 1))
    if key.startswith("herm:witness:"):
        bal = _named_partitions(int(key.split(":")[2]), min(d_a, d_b))[0]
        v, s = pure(d_a, d_b, bal, "g0", "g1")
        return E.herm((s[0] ** 2 + 0.05) * np.eye(n) - E.proj(v))
    if key.startswith("proj:me2"):
        # projector onto span{(|00>+|11>)/sqrt2, (|02>+|13>)/sqrt2} (qubit on the smaller side): every vector of the range is
        # maximally entangled, so the S(1)-norm is exactly 1/2; optionally dressed by a generic local unitary
        small, big = min(d_a, d_b), max(d_a, d_b)
        assert small == 2 and big >= 4
        vs = []
        for off in (0, 2):
            v = np.zeros((2, big), dtype=complex)
            v[0, off] = v[1, off + 1] = 1 / np.sqrt(2)
            vs.append(v if d_a == 2 else v.T)
        pr = sum(E.proj(v.reshape(-1)) for v in vs)
        if key.endswith(":lu"):
            u = np.kron(cat.unitary(d_a, "g0"), cat.unitary(d_b, "g1"))
            pr = u @ pr @ u.conj().T
        return E.herm(pr)
    if key == "herm:swap":
        m = np.zeros((n, n), dtype=complex)
        for a in range(d_a):
            for b in range(d_b):
                m[a * d_b + b, b * d_b + a] = 1.0
        return m
    if key.startswith("nonherm:"):
        return cat.generic_matrix(n, n, int(key.split(":")[1])).astype(complex)
    return mixed(d_a, d_b, key)


VEC_TOTALS = (6, 8)  # the enumerated vectors of Schmidt rank <= k always come from both partition totals


def sk_cases(tier, seed):
    yield from _dedupe(_sk_cases(tier))


def _sk_cases(tier):
    seeds = (0, 1) if tier == "quick" else (0, 1, 42)
    for (d_a, d_b) in local_dims(tier):
        n = d_a * d_b
        efforts = (0, 1, 2) if n <= 9 else (0, 1)
        keys = list(dict.fromkeys(kk for t in totals(tier) for kk in sk_x_keys(d_a, d_b, t)))
        for key in keys:
            for k in range(1, min(d_a, d_b) + 1):
                for eff in efforts:
                    for sd in (seeds if (eff < 2 or tier == "thorough") else seeds[:1]):
                        yield {"dA": d_a, "dB": d_b, "x": key, "k": k, "effort": eff, "seed": sd, "dim": "list"}
                for df in dimforms_for(d_a, d_b)[1:]:  # the other dim forms (omitted, int)
                    yield {"dA": d_a, "dB": d_b, "x": key, "k": k, "effort": 0, "seed": 0, "dim": df}
    # unequal local dimensions outside the 2x3 shortcut (added after seeded change C14-2): k = 1 on 2x4 and 4x2
    for (d_a, d_b) in ((2, 4), (4, 2)):
        for key in ("proj:me2", "proj:me2:lu", f"gd:0:{d_a * d_b}", "gd:0:3", "herm:diff", f"noisy:{_pkey((3, 3), 'g0', 'g1')}:0.5"):
            for eff in (0, 1):
                yield {"dA": d_a, "dB": d_b, "x": key, "k": 1, "effort": eff, "seed": 0, "dim": "list"}
            yield {"dA": d_a, "dB": d_b, "x": key, "k": 1, "effort": 0, "seed": 0, "dim": "int"}
    if tier == "thorough":
        for (d_a, d_b) in ((2, 4), (4, 2)):
            for key in (f"gd:0:{d_a * d_b}", "mix:0:8"):
                yield {"dA": d_a, "dB": d_b, "x": key, "k": 1, "effort": 2, "seed": 0, "dim": "list"}


@lru_cache(maxsize=64)
def _rank_le_k_vectors(d_a, d_b, k, nts, sd):
    """Matrix whose columns are all enumerated vectors of Schmidt rank <= k (Schmidt alphabet + products of catalogue kets)."""
    cols = []
    for n_total in nts:
        for parts in partitions(n_total, min(k, d_a, d_b)):
            for ua in ukeys(d_a):
                for ub in ukeys(d_b):
                    cols.append(pure(d_a, d_b, parts, ua, ub)[0])
    for ka in cat.kets(d_a).values():
        for kb in cat.kets(d_b).values():
            cols.append(np.kron(ka, kb))
    return np.array(cols).T


def rank_le_k_vectors(d_a, d_b, k, nts):
    return _rank_le_k_vectors(d_a, d_b, k, tuple(nts), cat.seed())


def adaptive_vectors(x, d_a, d_b, k):
    """Vectors of Schmidt rank <= k tailored to X: rank-k truncations of its eigenvectors, and (k = 1) see-saw optima."""
    out = []
    hermitian = np.allclose(x, x.conj().T, atol=1e-12)
    if hermitian:
        _, vecs = np.linalg.eigh(E.herm(x))
    else:
        vecs, _, _ = np.linalg.svd(x)
    for i in range(vecs.shape[1]):
        w = E.truncate_to_schmidt_rank(vecs[:, i], d_a, d_b, k)
        if w is not None:
            out.append(w)
    if hermitian and k == 1:
        starts = []
        for w in out[-3:]:
            u, s, vh = np.linalg.svd(E.amplitude_matrix(w, d_a, d_b))
            starts.append((u[:, 0], vh[0, :]))
        starts.append((cat.ket(d_a, "g0"), cat.ket(d_b, "g1")))
        starts.append((cat.ket(d_a, "ramp"), cat.ket(d_b, "chirp")))
        for a0, b0 in starts:
            _, w = E.see_saw_product(x, d_a, d_b, a0, b0)
            out.append(w)
    return out


def sk_check(case):
    d_a, d_b, k, key, eff = case["dA"], case["dB"], case["k"], case["x"], case["effort"]
    x = sk_matrix(d_a, d_b, key)
    f = toq("sk_operator_norm")
    np.random.seed(case["seed"])
    got, exc = quiet(f, x.copy(), k, dim_arg(d_a, d_b, case["dim"]), None, eff)
    if exc is not None:
        if "Numerical problems" in str(exc):
            return indet("solver did not reach an optimal status: " + exc_text(exc))
        return raised("sk_operator_norm", exc, "matrix", case["dim"], "a bipartite operator")
    try:
        lo, up = (as_real(t) for t in got)
    except Exception:  # noqa: BLE001
        lo = up = None
    if lo is None or up is None:
        return viol(f"sk_operator_norm did not return (lower, upper): {got!r}", site="sk_operator_norm:return", observed=repr(got))
    opn = float(np.linalg.norm(x, 2))
    hermitian = bool(np.allclose(x, x.conj().T, atol=1e-12))
    psd = hermitian and float(np.linalg.eigvalsh(E.herm(x))[0]) >= -1e-10
    rank1 = int(np.linalg.matrix_rank(x)) == 1
    sdp = psd and eff >= 1 and k < min(d_a, d_b) and not rank1
    eps = (SCS if sdp else TOL) * max(opn, 1e-3)
    obs = [round(lo, 6), round(up, 6)]
    if lo > up + eps:
        return viol(f"lower bound {lo:.9g} exceeds upper bound {up:.9g} (k={k}, effort={eff}, {d_a}x{d_b}, X={key})", site="sk_operator_norm:order",
                    observed=[lo, up])
    if lo > opn + eps:
        return viol(f"lower bound {lo:.9g} exceeds the operator norm {opn:.9g}", site="sk_operator_norm:lower_vs_opnorm", observed=lo, expected=opn)
    # every enumerated vector of Schmidt rank <= k
    vs = rank_le_k_vectors(d_a, d_b, k, VEC_TOTALS)
    vals = np.abs(np.sum(vs.conj() * (x @ vs), axis=0))
    best = float(vals.max())
    for w in adaptive_vectors(x, d_a, d_b, k):
        best = max(best, abs(complex(w.conj() @ x @ w)))
    if best > up + eps:
        return viol(f"a vector of Schmidt rank <= {k} attains |<v|X|v>| = {best:.9g} above the returned upper bound {up:.9g} "
                    f"(effort={eff}, {d_a}x{d_b}, X={key})", site="sk_operator_norm:upper", observed=up, expected=f">= {best:.9g}")
    # cases with a known S(k)-norm
    exact = None
    if k >= min(d_a, d_b):
        exact = opn  # every vector has Schmidt rank <= min(d)
    elif key.startswith("pure:"):
        s = _pure_from_key(d_a, d_b, key.split(":", 1)[1])[1]
        exact = E.sk_vector_norm_cf(s, k) ** 2  # |psi><psi|: sum of the k largest s_i^2
    elif key.startswith("proj:me2") and k == 1:
        exact = 0.5
    elif key.startswith("prod:") or key == "herm:swap":
        exact = opn  # attained by a product vector (product of top eigenvectors / a (x) a)
    if exact is not None and (lo > exact + eps or up < exact - eps):
        return viol(f"bounds [{lo:.9g}, {up:.9g}] do not bracket the known S({k})-norm {exact:.9g} (X={key}, {d_a}x{d_b})",
                    site="sk_operator_norm:bracket", observed=[lo, up], expected=exact)
    return ok(k < min(d_a, d_b) and not rank1, obs=obs)


# ------------------------------------------------------------------------------------------------ C14.block_positive
def bp_cases(tier, seed):
    dims = [(2, 2), (2, 3), (3, 2), (3, 3)] + ([(2, 4), (4, 2)] if tier == "thorough" else [])
    for (d_a, d_b) in dims:
        m = min(d_a, d_b)
        specs = [f"psd:gd:0:{d_a * d_b}", "psd:prod:gfull0|gfull1", "negprod:g0:g1", "negprod:e0:chirp", "nonherm:0"]
        if d_a == d_b:
            specs.append("swap")
        for nt in totals(tier):
            bal, unb, sec, prod = _named_partitions(nt, m)
            for pk in (_pkey(bal, "g0", "g1"), _pkey(unb, "F", "XZ"), _pkey(bal, "I", "I")):
                for k0 in range(1, m + 1):
                    for sign in ("+", "-"):
                        specs.append(f"wit:{pk}:{k0}:{sign}")
        for spec in list(dict.fromkeys(specs)):
            for k in range(1, m + 1):
                for df in dimforms_for(d_a, d_b):
                    if bp_truth(d_a, d_b, spec, k) is None:
                        continue
                    yield {"dA": d_a, "dB": d_b, "x": spec, "k": k, "dim": df}


def bp_matrix(d_a, d_b, spec):
    n = d_a * d_b
    if spec.startswith("psd:"):
        return mixed(d_a, d_b, spec[4:]) + 0.0
    if spec.startswith("negprod:"):
        _, ka, kb = spec.split(":")
        return E.herm(np.eye(n) - 1.5 * E.proj(np.kron(cat.ket(d_a, ka), cat.ket(d_b, kb))))
    if spec.startswith("nonherm:"):
        return cat.generic_matrix(n, n, 0).astype(complex)
    if spec == "swap":
        return sk_matrix(d_a, d_b, "herm:swap")
    if spec.startswith("wit:"):
        _, ps, ua, ub, k0, sign = spec.split(":")
        v, s = pure(d_a, d_b, [int(t) for t in ps.split("-")], ua, ub)
        c = E.sk_vector_norm_cf(s, int(k0)) ** 2 + (0.05 if sign == "+" else -0.05)
        return E.herm(c * np.eye(n) - E.proj(v))
    raise KeyError(spec)


def bp_truth(d_a, d_b, spec, k):
    """True / False when k-block positivity is known with margin, None otherwise."""
    if spec.startswith("psd:"):
        lam = float(np.linalg.eigvalsh(bp_matrix(d_a, d_b, spec))[0])
        return True if lam >= 0.0 and (lam >= 1e-3 or spec.startswith("psd:prod")) else None
    if spec.startswith("negprod:") or spec.startswith("nonherm:"):
        return False
    if spec == "swap":
        return k == 1
    _, ps, ua, ub, k0, sign = spec.split(":")
    s = E.schmidt_coefficients([int(t) for t in ps.split("-")])
    c = E.sk_vector_norm_cf(s, int(k0)) ** 2 + (0.05 if sign == "+" else -0.05)
    thr = E.sk_vector_norm_cf(s, k) ** 2
    if abs(c - thr) < MARGIN:
        return None
    return c > thr


def bp_check(case):
    d_a, d_b, k, spec = case["dA"], case["dB"], case["k"], case["x"]
    x = bp_matrix(d_a, d_b, spec)
    truth = bp_truth(d_a, d_b, spec, k)
    f = toq("is_block_positive")
    np.random.seed(0)
    got, exc = quiet(f, x.copy(), k, dim_arg(d_a, d_b, case["dim"]))
    if exc is not None:
        if "Numerical problems" in str(exc):
            return indet("solver did not reach an optimal status: " + exc_text(exc))
        return raised("is_block_positive", exc, "matrix", case["dim"], "a bipartite Hermitian operator with known block positivity")
    if isinstance(got, BaseException):
        return indet("is_block_positive could not decide (returned its RuntimeError)")
    if not isinstance(got, (bool, np.bool_)):
        return viol(f"is_block_positive returned {got!r} instead of a boolean", site="is_block_positive:return", observed=repr(got))
    if bool(got) != truth:
        return viol(f"is_block_positive(k={k}) says {bool(got)} for {spec} on {d_a}x{d_b}; the closed form says {truth} (margin >= {MARGIN})",
                    site="is_block_positive:verdict", observed=bool(got), expected=truth)
    return ok(k < min(d_a, d_b) and not spec.startswith("nonherm"), obs=bool(got))


# ------------------------------------------------------------------------------------------------ evidence
def alphabets(tier, seed):
    nt = totals(tier)
    out = {"local_dims": [list(t) for t in local_dims(tier)], "partition_totals": list(nt)}
    for d in sorted({t[0] for t in local_dims(tier)}):
        out[f"unitaries(d={d})"] = ukeys(d)
        out[f"densities(d={d})"] = len(cat.densities(d))
    for (d_a, d_b) in local_dims(tier):
        out[f"schmidt_vectors({d_a}x{d_b})"] = [p for t in nt for p in partitions(t, min(d_a, d_b))]
        out[f"mixed({d_a}x{d_b})"] = len(mixed_keys(d_a, d_b, nt))
    out["pure_states"] = sum(1 for _ in pure_states(tier))
    out["generic"] = "unitaries g0,g1; kets g0,g1; densities gfull*, gdef*, gd:*, *@g (VERIF_SEED-derived)"
    return out


CLAUSES = [
    Clause("C14.pure_closed_forms", pure_cases, pure_check, tol="spec(1e-6)", alphabets=alphabets,
           doc="negativity, log_negativity, entanglement_of_formation, concurrence, schmidt_rank, sk_vector_norm, l1_norm_coherence "
               "= closed forms in s_i on every constructed pure state x form x dim form x k"),
    Clause("C14.decomposition", decomp_cases, decomp_check, tol="alg(1e-9)",
           doc="schmidt_decomposition: coefficients = s_i, orthonormal factor sets, sum s_i a_i (x) b_i rebuilds the state; "
               "k_param 0..min(d); vector and operator (density) input"),
    Clause("C14.mixed_reference", mixed_cases, mixed_check, tol="spec(1e-6)",
           doc="mixed states: negativity, log-negativity, purity, entropy, l1-coherence, concurrence / EoF (two qubits), operator "
               "Schmidt rank and decomposition vs definitions via index loops + eigvalsh / svd"),
    Clause("C14.lu_invariance", lu_cases, lu_check, tol="spec(1e-6)",
           doc="f(L X L*) = f(X) for every local unitary pair L = U_A (x) U_B of the catalogue, mixed states and generic vectors"),
    Clause("C14.entropy_additivity", additivity_cases, additivity_check, tol="spec(1e-6)",
           doc="S(rho (x) sigma) = S(rho) + S(sigma) on all pairs of catalogue densities; each = -sum lambda log2 lambda"),
    Clause("C14.is_product", product_cases, product_check, tol="exact",
           doc="is_product true exactly on Schmidt-rank-1 vectors / product operators (bipartite and tripartite); factors rebuild the vector"),
    Clause("C14.sk_operator_norm", sk_cases, sk_check, tol="scs(1e-3)", chunk=2, weight=0.3, probe=4,
           doc="lower <= upper, lower <= ||X||, |<v|X|v>| <= upper for every enumerated vector of Schmidt rank <= k; closed forms for "
               "rank-1 X, product X and k = min(d); np.random.seed axis"),
    Clause("C14.block_positive", bp_cases, bp_check, tol="exact", chunk=2, weight=0.3, probe=4,
           doc="is_block_positive on operators with closed-form k-block positivity (margin 0.02)"),
]

# layout twin (engine.call) for the deterministic clauses; sk_operator_norm / is_block_positive consume numpy's global random state
for _c in CLAUSES:
    if _c.name.split(".")[1] not in ("sk_operator_norm", "block_positive"):
        _c.layout_twin = True
    if _c.name.split(".")[1] in ("decomposition", "mixed_reference", "is_product"):
        _c.repeat_twin = True  # repeated calls agree; scribbling over a returned array must not affect later calls (engine.call)
