"""C17 — named states and standard matrices satisfy their defining identities.

Everything exported by ``toqito.states`` and ``toqito.matrices`` is called through its public import path on a finite,
fully enumerated space (dimensions, qubit counts, ALL index pairs, parameter grids with end points / threshold
straddles / first values outside, calling forms, catalogue unitaries) and judged against independent arithmetic in
``mc/ref/c17_refs.py`` (integer-index permutation / partial-trace / partial-transpose operators, literal matrices
from the docstrings, the cited definitions).
"""

from __future__ import annotations

import itertools
import math

import numpy as np

from mc import catalog as cat
from mc.engine import Clause, call, exc_text, ok, rejected, viol
from mc.ref import c17_refs as R
from mc.ref import tensor_index as ti

TOL = 1e-9  # tolerance class "alg"
MARGIN = 1e-6  # strict-negativity margin for "not PPT" verdicts (expected values are <= -5e-3)

RULE = ("case = (function, dimension / qubit count, index tuple or index pair-of-pairs, parameter grid point, calling form, "
        "catalogue key of a unitary); every clause runs the full product of its listed alphabets (nothing sampled); "
        "dims 2..5 quick (to 7 thorough), qubit counts 1..5, MUB primes 2,3,5,7 (11,13 thorough); parameter grids contain "
        "both end points, the PPT threshold and threshold +-0.05, and the first values 0.1 outside; unitaries come from "
        "mc/catalog.py unitaries(d) (structured + 2 VERIF_SEED-derived generic); a case is non-trivial iff it is not the "
        "degenerate point of its axis (index pair with a != b, parameter != 0, unitary != identity, coefficient vector not "
        "uniform, dimension > 1 ...; each check states its own rule in the clause doc); states = distinct cases, "
        "transitions = toqito calls")
ASSUMPTIONS = [
    "numpy kron / @ / eigvalsh / svd / matrix_rank are correct to 1e-12 on matrices of dimension <= 125",
    "tolerance 1e-9 (alg) for every equality; NPT verdicts need min eigenvalue < -1e-6 (expected <= -5e-3 on the grid)",
    "real parameters are decided on the stated grids only (end points, thresholds +-0.05, +-0.1 outside); no closure to the continuum",
    "rejection is demanded only where the docstring has a :raises: entry or states a closed interval / finite index set for "
    "the argument and the property record names the function's range (basis, bell, tile, domino, gell_mann, gisin, horodecki, "
    "dicke, ghz, w_state, breuer, mutually_unbiased_basis, werner list length); index descriptors without :raises: "
    "(gen_pauli, gen_gell_mann, gen_bell, pauli) are not tested outside their range",
    "ghz / w_state coefficient vectors are real (the documented type is list[int]); complex coefficients are outside the quantifier",
    "mutually_unbiased_basis is judged on primes only (the property's quantifier); prime powers are counted as rejected",
]


def dims_for(tier):
    return (2, 3, 4, 5) if tier == "quick" else (2, 3, 4, 5, 6, 7)


def _exc(site, exc, what="raised on an in-domain input"):
    return viol(f"{site.split(':')[0]} {what}: " + exc_text(exc), site=site.split(":")[0] + ":exception", observed=exc_text(exc))


def _r(x):
    return round(float(x), 10)


def grid(vals):
    out = []
    for v in vals:
        v = _r(v)
        if v not in out:
            out.append(v)
    return out


def ukeys(d):
    return list(cat.unitaries(d).keys())


# ================================================================================================ C17.bell
def bell_cases(tier, seed):
    for i in range(4):
        for j in range(4):
            yield {"fn": "bell", "i": i, "j": j}
    for i in range(4):
        yield {"fn": "bell_vs_gen_bell", "i": i}
    for d in dims_for(tier):
        for k1 in range(d):
            for k2 in range(d):
                yield {"fn": "gen_bell", "d": d, "k": [k1, k2]}
        yield {"fn": "gen_bell_complete", "d": d}


def bell_check(case):
    from toqito.states import bell, gen_bell

    fn = case["fn"]
    if fn == "bell":
        i, j = case["i"], case["j"]
        u, exc = call(bell, i)
        if exc is not None:
            return _exc("bell", exc)
        v, exc = call(bell, j)
        if exc is not None:
            return _exc("bell", exc)
        u, v = np.asarray(u), np.asarray(v)
        if u.shape != (4, 1):
            return viol("bell state is not a 4x1 column", site="bell:shape", observed=list(u.shape))
        s = 1 / math.sqrt(2)
        lit = {0: [s, 0, 0, s], 1: [s, 0, 0, -s], 2: [0, s, s, 0], 3: [0, s, -s, 0]}
        if not R.close(u.ravel(), lit[i]):
            return viol("bell(idx) is not the documented vector u_idx", site="bell:value", observed=u.ravel(), expected=lit[i])
        ip = complex(np.vdot(u, v))
        if abs(ip - (1.0 if i == j else 0.0)) > TOL:
            return viol("Bell states are not orthonormal", site="bell:orthonormal", observed=abs(ip), expected=float(i == j))
        for tr in (0, 1):
            m = R.ptrace(R.proj(u), [2, 2], {tr})
            if not R.close(m, np.eye(2) / 2):
                return viol("Bell state marginal is not maximally mixed", site="bell:marginal", observed=m)
        return ok(i != j, obs=_r(abs(ip)), calls=2)
    if fn == "bell_vs_gen_bell":
        i = case["i"]
        k1, k2 = divmod(i, 2)  # documented: bell(0)=gb(0,0,2), bell(1)=gb(0,1,2), bell(2)=gb(1,0,2), bell(3)=gb(1,1,2)
        u, exc = call(bell, i)
        if exc is not None:
            return _exc("bell", exc)
        g, exc = call(gen_bell, k1, k2, 2)
        if exc is not None:
            return _exc("gen_bell", exc)
        if not R.close(np.asarray(g), R.proj(u)):
            return viol("gen_bell(k1,k2,2) is not the projector on the documented bell(idx)", site="gen_bell:bell_mapping",
                        observed=np.asarray(g), expected=R.proj(u))
        return ok(True, calls=2)
    d = case["d"]
    if fn == "gen_bell":
        k1, k2 = case["k"]
        g, exc = call(gen_bell, k1, k2, d)
        if exc is not None:
            return _exc("gen_bell", exc)
        g = np.asarray(g)
        if g.shape != (d * d, d * d):
            return viol("gen_bell is not a d^2 x d^2 matrix", site="gen_bell:shape", observed=list(g.shape))
        if not R.is_hermitian(g):
            return viol("gen_bell is not Hermitian", site="gen_bell:hermitian")
        tr = complex(np.trace(g))
        if abs(tr - 1) > TOL:
            return viol("gen_bell does not have trace 1", site="gen_bell:trace", observed=abs(tr), expected=1.0)
        pur = float(np.real(np.trace(g @ g)))
        if abs(pur - 1) > TOL:
            return viol("gen_bell is not a pure state (Tr rho^2 != 1)", site="gen_bell:purity", observed=pur, expected=1.0)
        for t in (0, 1):
            m = R.ptrace(g, [d, d], {t})
            if not R.close(m, np.eye(d) / d):
                return viol("generalised Bell state marginal is not maximally mixed", site="gen_bell:marginal",
                            observed=float(R.err(m, np.eye(d) / d)))
        return ok(d > 2 or (k1, k2) != (0, 0), obs=_r(pur))
    # completeness + pairwise orthogonality over ALL index pairs of dimension d
    states = []
    for k1 in range(d):
        for k2 in range(d):
            g, exc = call(gen_bell, k1, k2, d)
            if exc is not None:
                return _exc("gen_bell", exc)
            states.append(np.asarray(g, dtype=complex))
    G = np.real(R.gram(states))
    if not R.close(G, np.eye(d * d)):
        bad = np.unravel_index(int(np.argmax(np.abs(G - np.eye(d * d)))), G.shape)
        return viol("generalised Bell states are not pairwise orthonormal (Tr rho_a rho_b != delta_ab)", site="gen_bell:orthonormal",
                    observed=float(G[bad]), expected=float(bad[0] == bad[1]), pair=[int(bad[0]), int(bad[1])])
    if not R.close(sum(states), np.eye(d * d)):
        return viol("generalised Bell projectors do not sum to the identity (not a basis)", site="gen_bell:complete")
    return ok(True, calls=d * d, states=d * d * d * d)


# ================================================================================================ C17.max_entangled
def maxent_cases(tier, seed):
    ds = (1,) + dims_for(tier) + ((8,) if tier == "thorough" else ())
    for d in ds:
        for sp in (False, True):
            for nm in (True, False):
                yield {"fn": "max_entangled", "d": d, "sparse": sp, "normalized": nm, "form": "positional"}
        yield {"fn": "max_entangled", "d": d, "sparse": False, "normalized": True, "form": "default"}
        for sp in (False, True):
            yield {"fn": "max_mixed", "d": d, "sparse": sp}


def maxent_check(case):
    from toqito.states import max_entangled, max_mixed

    d = case["d"]
    if case["fn"] == "max_mixed":
        m, exc = call(max_mixed, d, case["sparse"])
        if exc is not None:
            return _exc("max_mixed", exc)
        if case["sparse"] != hasattr(m, "toarray"):
            return viol("max_mixed storage does not follow is_sparse", site="max_mixed:storage")
        if not R.close(R.dense(m), np.eye(d) / d):
            return viol("max_mixed is not I/d", site="max_mixed:value", observed=R.dense(m))
        return ok(d > 1)
    if case["form"] == "default":
        v, exc = call(max_entangled, d)
    else:
        v, exc = call(max_entangled, d, case["sparse"], case["normalized"])
    if exc is not None:
        return _exc("max_entangled", exc)
    if case["sparse"] != hasattr(v, "toarray"):
        return viol("max_entangled storage does not follow is_sparse", site="max_entangled:storage")
    v = R.dense(v)
    if v.shape != (d * d, 1):
        return viol("max_entangled is not a d^2 x 1 column", site="max_entangled:shape", observed=list(v.shape))
    amp = 1 / math.sqrt(d) if case["normalized"] else 1.0
    exp = np.zeros((d * d, 1))
    for k in range(d):
        exp[k * d + k, 0] = amp
    if not R.close(v, exp):
        return viol("max_entangled is not sum_k |kk> with the documented normalisation", site="max_entangled:value",
                    observed=v.ravel(), expected=exp.ravel())
    nrm = float(np.linalg.norm(v))
    if abs(nrm - (1.0 if case["normalized"] else math.sqrt(d))) > TOL:
        return viol("max_entangled norm is not the documented one", site="max_entangled:norm", observed=nrm)
    rho = R.proj(v) / nrm**2
    for t in (0, 1):
        if not R.close(R.ptrace(rho, [d, d], {t}), np.eye(d) / d):
            return viol("max_entangled marginal is not maximally mixed", site="max_entangled:marginal")
    return ok(d > 1, obs=_r(nrm))


# ================================================================================================ C17.ghz_w_dicke
def coeff_vector(n: int, key: str):
    """Real coefficient vectors of length n (None = default)."""
    if key == "none":
        return None
    if key == "ones":
        return [1] * n
    if key == "ramp":
        return list(range(1, n + 1))
    if key == "ramp_unit":
        v = np.arange(1, n + 1, dtype=float)
        return v / np.linalg.norm(v)
    if key == "signs":
        return [(-1) ** k * (k + 1) for k in range(n)]
    if key == "zero_first":
        return [0] + list(range(2, n + 1))
    if key == "float":
        return [0.5 + 0.75 * k for k in range(n)]
    if key.startswith("g"):
        return cat.generic_real_ket(n, int(key[1:])) * 3.0 if n > 1 else np.array([1.7])
    raise KeyError(key)


COEFFS = ["none", "ones", "ramp", "ramp_unit", "signs", "zero_first", "float", "g0", "g1"]


def _perm_generators(n, tier):
    if n <= 4 or tier == "thorough":
        return [list(p) for p in itertools.permutations(range(n))]
    return [list(p) for p in itertools.permutations(range(n)) if sum(1 for k in range(n) if p[k] != k) <= 3]


def gwd_cases(tier, seed):
    for d in (1,) + dims_for(tier):
        for n in range(1, 6):
            if d**n > 4096:
                continue
            for ck in COEFFS:
                if ck == "zero_first" and d == 1:
                    continue
                yield {"fn": "ghz", "d": d, "n": n, "coeff": ck, "array": False}
            yield {"fn": "ghz", "d": d, "n": n, "coeff": "ramp", "array": True}
    for n in range(1, 6 if tier == "quick" else 8):
        for ck in COEFFS:
            yield {"fn": "w_state", "n": n, "coeff": ck, "array": False}
        yield {"fn": "w_state", "n": n, "coeff": "ramp_unit", "array": True}
        if n >= 2:
            perms = _perm_generators(n, tier) if n <= 5 else [list(range(1, n)) + [0], [1, 0] + list(range(2, n))]
            for p in perms:
                if p != list(range(n)):
                    yield {"fn": "w_covariance", "n": n, "coeff": "ramp", "perm": p}
    for n in range(1, 6 if tier == "quick" else 9):
        for k in range(0, n + 1):
            for dm in (False, True):
                if dm and n > 6:
                    continue
                yield {"fn": "dicke", "n": n, "k": k, "dm": dm}


def _scaled_match(out, c):
    """out == s*c with s = 1/||c|| (unit norm) or s = 1 (coefficients taken as given)."""
    c = np.asarray(c, dtype=float)
    nc = float(np.linalg.norm(c))
    return R.close(out, c / nc) or (abs(nc - 1.0) < 1e-5 and R.close(out, c))


def gwd_check(case):
    from toqito.states import dicke, ghz, w_state

    fn = case["fn"]
    if fn == "ghz":
        d, n = case["d"], case["n"]
        c = coeff_vector(d, case["coeff"])
        arg = None if c is None else (np.array(c) if case["array"] else list(np.asarray(c).tolist()))
        v, exc = call(ghz, d, n) if arg is None else call(ghz, d, n, arg)
        if exc is not None:
            return _exc("ghz", exc)
        v = np.asarray(v)
        if v.shape != (d**n, 1):
            return viol("ghz is not a d^n x 1 column", site="ghz:shape", observed=list(v.shape))
        idx = [ti.ravel([i] * n, [d] * n) for i in range(d)]
        cc = np.ones(d) if c is None else np.asarray(c, dtype=float)
        off = np.delete(v.ravel(), sorted(set(idx)))
        if off.size and np.max(np.abs(off)) > 0:
            return viol("ghz has support outside {|i i ... i>}", site="ghz:support", observed=float(np.max(np.abs(off))))
        if n == 1 or d == 1:
            got = v.ravel()[idx]
        else:
            got = v.ravel()[idx]
        if not _scaled_match(got, cc):
            return viol("ghz amplitudes are not the (normalised) coefficients", site="ghz:amplitudes", observed=got,
                        expected=cc / np.linalg.norm(cc))
        nrm = float(np.linalg.norm(v))
        if abs(nrm - 1) > TOL:
            return viol("ghz is not a unit vector", site="ghz:norm", observed=nrm, expected=1.0)
        # permutation symmetry under every permutation of the parties (reference gather)
        for p in (_perm_generators(n, "quick") if d**n <= 1024 else [list(range(1, n)) + [0]]):
            if not np.array_equal(v.ravel()[ti.gather_for_perm([d] * n, p)], v.ravel()):
                return viol("ghz is not invariant under a permutation of the parties", site="ghz:symmetry", perm=p)
        return ok(d > 1 and n > 1 and case["coeff"] not in ("none", "ones"), obs=_r(nrm))
    if fn == "w_state":
        n = case["n"]
        c = coeff_vector(n, case["coeff"])
        arg = None if c is None else (np.array(c) if case["array"] else list(np.asarray(c).tolist()))
        v, exc = call(w_state, n) if arg is None else call(w_state, n, arg)
        if exc is not None:
            if n == 1 and isinstance(exc, ValueError):
                return rejected("w_state(1) refused: " + exc_text(exc))
            return _exc("w_state", exc)
        v = np.asarray(v)
        if v.shape != (2**n, 1):
            return viol("w_state is not a 2^n x 1 column", site="w_state:shape", observed=list(v.shape))
        idx = [2 ** (n - 1 - k) for k in range(n)]  # |0..1_k..0>, first factor most significant
        cc = np.ones(n) if c is None else np.asarray(c, dtype=float)
        off = np.delete(v.ravel(), sorted(idx))
        if off.size and np.max(np.abs(off)) > 0:
            return viol("w_state has support outside the weight-1 strings", site="w_state:support", observed=float(np.max(np.abs(off))))
        got = v.ravel()[idx]
        nrm = float(np.linalg.norm(v))
        if not _scaled_match(got, cc):
            return viol("w_state amplitudes are not the (normalised) coefficients coeff[k] on |0..1_k..0>", site="w_state:amplitudes",
                        observed=float(R.err(got, cc / np.linalg.norm(cc))), expected=0.0, norm=nrm)
        if abs(nrm - 1) > TOL:
            return viol("w_state is not a unit vector", site="w_state:norm", observed=nrm, expected=1.0)
        return ok(case["coeff"] not in ("none", "ones"), obs=_r(nrm))
    if fn == "w_covariance":
        n, p = case["n"], case["perm"]
        c = np.asarray(coeff_vector(n, case["coeff"]), dtype=float)
        v, exc = call(w_state, n, list(c.tolist()))
        if exc is not None:
            return _exc("w_state", exc)
        w, exc = call(w_state, n, [float(c[p[k]]) for k in range(n)])
        if exc is not None:
            return _exc("w_state", exc)
        # P_p (x)_k v_k = (x)_k v_{p[k]}: the excitation of party p[k] moves to position k
        pv = np.asarray(v).ravel()[ti.gather_for_perm([2] * n, p)]
        if not R.close(pv, np.asarray(w).ravel()):
            return viol("permuting the parties of w_state(coeff) is not w_state(permuted coeff)", site="w_state:covariance")
        return ok(True, calls=2)
    n, k, dm = case["n"], case["k"], case["dm"]
    v, exc = call(dicke, n, k, dm) if dm else call(dicke, n, k)
    if exc is not None:
        return _exc("dicke", exc)
    v = np.asarray(v)
    amp = 1 / math.sqrt(math.comb(n, k))
    exp = np.array([amp if R.hamming_weight(x) == k else 0.0 for x in range(2**n)])
    if dm:
        if v.shape != (2**n, 2**n) or not R.close(v, np.outer(exp, exp)):
            return viol("dicke(return_dm=True) is not |D><D|", site="dicke:dm")
        if abs(float(np.trace(v)) - 1) > TOL:
            return viol("dicke density matrix does not have trace 1", site="dicke:trace", observed=float(np.trace(v)))
        return ok(0 < k < n)
    if v.ravel().shape != (2**n,):
        return viol("dicke is not a vector of length 2^n", site="dicke:shape", observed=list(v.shape))
    v = v.ravel()
    supp = {x for x in range(2**n) if v[x] != 0}
    if supp != {x for x in range(2**n) if R.hamming_weight(x) == k}:
        return viol("dicke support is not the set of weight-k strings", site="dicke:support", observed=sorted(supp)[:16])
    if not R.close(v, exp):
        return viol("dicke amplitudes are not 1/sqrt(C(n,k))", site="dicke:amplitudes")
    if abs(float(np.linalg.norm(v)) - 1) > TOL:
        return viol("dicke is not a unit vector", site="dicke:norm", observed=float(np.linalg.norm(v)))
    for p in (_perm_generators(n, "quick") if n <= 5 else [list(range(1, n)) + [0], [1, 0] + list(range(2, n))]):
        if not np.array_equal(v[ti.gather_for_perm([2] * n, p)], v):
            return viol("dicke is not permutation symmetric", site="dicke:symmetry", perm=p)
    return ok(0 < k < n, obs=_r(amp))


# ================================================================================================ C17.werner / isotropic
def werner_alphas(d, tier):
    base = [-1.1, -1.0, -0.5, 0.0, 1 / d - 0.05, 1 / d, 1 / d + 0.05, 0.75, 1.0, 1.1]
    if tier == "thorough":
        base += [-0.75, -0.25, 0.1, 0.25, 0.9, 1 / d - 0.01, 1 / d + 0.01]
    return grid(base)


def iso_alphas(d, tier):
    lo = -1 / (d * d - 1)
    base = [lo - 0.1, lo, lo / 2, 0.0, 1 / (d + 1) - 0.05, 1 / (d + 1), 1 / (d + 1) + 0.05, 0.75, 1.0, 1.1]
    if tier == "thorough":
        base += [0.05, 0.5, 0.9, 1 / (d + 1) - 0.01, 1 / (d + 1) + 0.01]
    return grid(base)


def werner_cases(tier, seed):
    for d in dims_for(tier):
        for a in werner_alphas(d, tier):
            yield {"fn": "werner", "d": d, "alpha": a, "mode": "structure"}
            yield {"fn": "werner", "d": d, "alpha": a, "mode": "list1"}
            for u in ukeys(d):
                if u != "I":
                    yield {"fn": "werner", "d": d, "alpha": a, "mode": "invariance", "u": u}
        for a in (0, 1):
            yield {"fn": "werner", "d": d, "alpha": a, "mode": "int_alpha"}


def _state_basics(rho, n, site):
    rho = np.asarray(rho)
    if rho.shape != (n, n):
        return viol(f"{site} is not a {n}x{n} matrix", site=site + ":shape", observed=list(rho.shape))
    if not R.is_hermitian(rho):
        return viol(f"{site} is not Hermitian", site=site + ":hermitian")
    tr = complex(np.trace(rho))
    if abs(tr - 1) > TOL:
        return viol(f"{site} does not have trace 1", site=site + ":trace", observed=abs(tr), expected=1.0)
    return None


def werner_check(case):
    from toqito.states import werner

    d, a, mode = case["d"], case["alpha"], case["mode"]
    if mode == "int_alpha":
        rho, exc = call(werner, d, int(a))
        if exc is not None:
            if isinstance(exc, ValueError):
                return rejected("integer alpha refused (documented type is float): " + exc_text(exc))
            return _exc("werner", exc)
        if not R.close(rho, R.werner(d, float(a))):
            return viol("werner with an integer alpha is not the Werner state", site="werner:int_alpha")
        return ok(True)
    rho, exc = call(werner, d, float(a))
    if exc is not None:
        return _exc("werner", exc)
    rho = np.asarray(rho)
    if mode == "structure":
        bad = _state_basics(rho, d * d, "werner")
        if bad:
            return bad
        if not R.close(rho, R.werner(d, a)):
            return viol("werner is not (I - alpha S)/(d^2 - d alpha)", site="werner:value", observed=float(R.err(rho, R.werner(d, a))), expected=0.0)
        me = R.min_eig(rho)
        mpt = R.min_eig(R.ptranspose(rho, [d, d], {1}))
        if -1 <= a <= 1 and me < -TOL:
            return viol("werner state is not positive semidefinite for alpha in [-1,1]", site="werner:psd", observed=me)
        if -1 <= a <= 1:
            if a <= 1 / d + 1e-9 and mpt < -TOL:
                return viol("werner state with alpha <= 1/d is not PPT", site="werner:ppt", observed=mpt, expected=0.0)
            if a > 1 / d + 1e-9 and mpt > -MARGIN:
                return viol("werner state with alpha > 1/d is PPT", site="werner:npt", observed=mpt,
                            expected=(1 - a * d) / (d * d - d * a))
        return ok(a != 0, obs=[_r(me), _r(mpt)])
    if mode == "list1":
        lst, exc = call(werner, d, [float(a)])
        if exc is not None:
            return _exc("werner", exc, "raised on the one-parameter list form")
        lst = np.asarray(lst)
        if lst.shape != rho.shape or not R.close(lst, rho):
            return viol("werner(d, [alpha]) differs from werner(d, alpha)", site="werner:list1",
                        observed=float(R.err(lst, rho)) if lst.shape == rho.shape else list(lst.shape), expected=0.0)
        return ok(a != 0, calls=2)
    u = cat.unitary(d, case["u"])
    uu = np.kron(u, u)
    if not R.close(uu @ rho @ uu.conj().T, rho):
        return viol("werner state is not invariant under U (x) U", site="werner:invariance",
                    observed=float(R.err(uu @ rho @ uu.conj().T, rho)), expected=0.0)
    return ok(a != 0)


# ---------------------------------------------------------------------------------------------- multipartite Werner
def alpha_vector(m: int, key: str):
    if key == "doc":
        return [0.01 * (k + 1) for k in range(m)]
    if key == "first":
        return [0.3] + [0.0] * (m - 1)
    if key == "last":
        return [0.0] * (m - 1) + [0.3]
    if key == "alt":
        return [((-1) ** k) * 0.02 * (k + 1) for k in range(m)]
    if key == "zero":
        return [0.0] * m
    if key == "sym":  # alpha(pi) = alpha(pi^-1): the operator is Hermitian; small weights keep it positive
        perms = R.lex_perms(next(k for k in range(2, 8) if math.factorial(k) == m + 1))
        inv = [tuple(ti.argsort_perm(q)) for q in perms]
        return [0.4 / m * (1 + min(k + 1, perms.index(inv[k + 1]))) / (m + 1) for k in range(m)]  # sum |alpha| < 0.4
    if key.startswith("g"):
        r = cat.rng("c17_alpha%d" % m, int(key[1:]))
        return [float(x) for x in np.round(r.uniform(-0.9, 0.9, size=m) / m, 6)]
    raise KeyError(key)


def wmulti_cases(tier, seed):
    shapes = [(2, 3), (3, 3)] + ([(2, 4), (4, 3)] if tier == "thorough" else [(2, 4)])
    for d, p in shapes:
        m = math.factorial(p) - 1
        keys = ["doc", "first", "last", "alt", "zero", "sym", "g0", "g1"]
        for key in keys:
            yield {"d": d, "p": p, "alpha": key, "mode": "value"}
            us = ukeys(d) if d**p <= 32 else ["F", "XZ", "g0"]
            for u in us:
                if u != "I" and key in ("doc", "alt", "g0"):
                    yield {"d": d, "p": p, "alpha": key, "mode": "invariance", "u": u}
        # every single-parameter vector a*e_k: exposes which permutation each entry multiplies
        for k in range(m):
            yield {"d": d, "p": p, "alpha": "unit", "k": k, "mode": "value"}


def wmulti_check(case):
    from toqito.states import werner

    d, p = case["d"], case["p"]
    m = math.factorial(p) - 1
    if case["alpha"] == "unit":
        al = [0.0] * m
        al[case["k"]] = 0.25
    else:
        al = alpha_vector(m, case["alpha"])
    rho, exc = call(werner, d, list(al))
    if exc is not None:
        return _exc("werner", exc, "raised on a list of p!-1 parameters")
    rho = np.asarray(rho)
    if case["mode"] == "value":
        # the documented operator is Hermitian only when alpha(pi) = alpha(pi^-1) (the docstring's own example is not),
        # so Hermiticity / positivity are demanded on the "sym" vectors only
        if rho.shape != (d**p, d**p):
            return viol("multipartite werner is not d^p x d^p", site="werner:multi_shape", observed=list(rho.shape))
        if abs(complex(np.trace(rho)) - 1) > TOL:
            return viol("multipartite werner does not have trace 1", site="werner:multi_trace", observed=abs(complex(np.trace(rho))))
        if case["alpha"] in ("sym", "zero", "first"):
            if not R.is_hermitian(rho):
                return viol("multipartite werner with alpha(pi) = alpha(pi^-1) is not Hermitian", site="werner:multi_hermitian")
            if case["alpha"] != "first" and R.min_eig(rho) < -TOL:
                return viol("multipartite werner with small symmetric weights is not positive", site="werner:multi_psd", observed=R.min_eig(rho))
        exp = R.werner_multi(d, al)
        if not R.close(rho, exp):
            return viol("multipartite werner is not the normalisation of I - sum_k alpha(k) P(k+1) (lexicographic permutations)",
                        site="werner:multipartite", observed=float(R.err(rho, exp)), expected=0.0)
        return ok(any(x != 0 for x in al), obs=_r(np.real(rho[0, 0])))
    u = cat.unitary(d, case["u"])
    up = R.kron_all([u] * p)
    if not R.close(up @ rho @ up.conj().T, rho):
        return viol("multipartite werner state is not invariant under U^(x)p", site="werner:multi_invariance")
    return ok(True)


# ---------------------------------------------------------------------------------------------- isotropic
def iso_cases(tier, seed):
    for d in dims_for(tier):
        for a in iso_alphas(d, tier):
            yield {"d": d, "alpha": a, "mode": "structure"}
            for u in ukeys(d):
                if u != "I":
                    yield {"d": d, "alpha": a, "mode": "invariance", "u": u}


def iso_check(case):
    from toqito.states import isotropic

    d, a = case["d"], case["alpha"]
    rho, exc = call(isotropic, d, float(a))
    if exc is not None:
        return _exc("isotropic", exc)
    rho = np.asarray(rho)
    if case["mode"] == "structure":
        bad = _state_basics(rho, d * d, "isotropic")
        if bad:
            return bad
        if not R.close(rho, R.isotropic(d, a)):
            return viol("isotropic is not (1-alpha) I/d^2 + alpha |psi+><psi+|", site="isotropic:value",
                        observed=float(R.err(rho, R.isotropic(d, a))), expected=0.0)
        lo = -1 / (d * d - 1)
        me = R.min_eig(rho)
        mpt = R.min_eig(R.ptranspose(rho, [d, d], {1}))
        if lo - 1e-9 <= a <= 1:
            if me < -TOL:
                return viol("isotropic state is not positive semidefinite on its parameter range", site="isotropic:psd", observed=me)
            thr = 1 / (d + 1)
            if a <= thr + 1e-9 and mpt < -TOL:
                return viol("isotropic state with alpha <= 1/(d+1) is not PPT", site="isotropic:ppt", observed=mpt, expected=0.0)
            if a > thr + 1e-9 and mpt > -MARGIN:
                return viol("isotropic state with alpha > 1/(d+1) is PPT", site="isotropic:npt", observed=mpt,
                            expected=(1 - a * (d + 1)) / d**2)
        return ok(a != 0, obs=[_r(me), _r(mpt)])
    u = cat.unitary(d, case["u"])
    uu = np.kron(u, u.conj())
    if not R.close(uu @ rho @ uu.conj().T, rho):
        return viol("isotropic state is not invariant under U (x) conj(U)", site="isotropic:invariance",
                    observed=float(R.err(uu @ rho @ uu.conj().T, rho)), expected=0.0)
    return ok(a != 0)


# ================================================================================================ C17.mixed_families
def unit_grid(tier):
    step = 20 if tier == "quick" else 50
    return grid([k / step for k in range(step + 1)])


THETAS = {"0": 0.0, "pi/8": math.pi / 8, "pi/4": math.pi / 4, "1": 1.0, "pi/2": math.pi / 2, "2": 2.0, "pi": math.pi,
          "-0.7": -0.7, "5": 5.0}


def chess_params(key: str):
    if key == "doc":
        return [1, 2, 3, 4, 5, 6]
    if key == "float":
        return [0.5, -1.25, 2.0, 0.75, 1.5, -0.6]
    if key == "neg":
        return [-1, 2, -3, 4, -5, 6]
    if key == "complex":
        return [1 + 1j, 2 - 0.5j, 0.5j, 1.5, 1 - 2j, 2 + 1j]
    if key.startswith("g"):
        r = cat.rng("c17_chess", int(key[1:]))
        return [complex(x) for x in np.round(r.normal(size=6) + 1j * r.normal(size=6), 3) + 0.2]
    raise KeyError(key)


def mixed_cases(tier, seed):
    for a in unit_grid(tier):
        for dim in ("none", "33", "24", "33arr", "24arr"):
            yield {"fn": "horodecki", "a": a, "dim": dim}
    for lam in unit_grid(tier)[::2] + [1.0]:
        for th in THETAS:
            yield {"fn": "gisin", "lam": lam, "theta": th}
    for d in (2, 4) + ((6,) if tier == "thorough" else ()):
        for lam in grid([-0.1] + unit_grid(tier)[::2] + [1.0, 1.1]):
            yield {"fn": "breuer", "d": d, "lam": lam}
    for key in ("doc", "float", "neg", "complex", "g0", "g1"):
        for st in ("default", "explicit_default", "s_only", "t_only", "free"):
            yield {"fn": "chessboard", "params": key, "st": st}
    for d in dims_for(tier):
        yield {"fn": "singlet", "d": d, "mode": "structure"}
        for u in ukeys(d):
            if u != "I":
                yield {"fn": "singlet", "d": d, "mode": "invariance", "u": u}


def _horo_dim(key):
    return {"none": None, "33": [3, 3], "24": [2, 4], "33arr": np.array([3, 3]), "24arr": np.array([2, 4])}[key]


def mixed_check(case):
    from toqito.states import breuer, chessboard, gisin, horodecki, singlet

    fn = case["fn"]
    if fn == "horodecki":
        a, dk = case["a"], case["dim"]
        dim = _horo_dim(dk)
        rho, exc = call(horodecki, a) if dim is None else call(horodecki, a, dim)
        if exc is not None:
            return _exc("horodecki", exc)
        dims = [2, 4] if dk.startswith("24") else [3, 3]
        n = dims[0] * dims[1]
        bad = _state_basics(rho, n, "horodecki")
        if bad:
            return bad
        rho = np.asarray(rho)
        ref = R.horodecki24(a) if dims == [2, 4] else R.horodecki33(a)
        if not R.close(rho, ref):
            return viol("horodecki is not the state of Horodecki 1997 (sections 4.1 / 4.2)", site="horodecki:value",
                        observed=float(R.err(rho, ref)), expected=0.0)
        me = R.min_eig(rho)
        if me < -TOL:
            return viol("horodecki state is not positive semidefinite", site="horodecki:psd", observed=me)
        mpt = min(R.min_eig(R.ptranspose(rho, dims, {1})), R.min_eig(R.ptranspose(rho, dims, {0})))
        if mpt < -TOL:
            return viol("horodecki state is not PPT", site="horodecki:ppt", observed=mpt, expected=0.0)
        return ok(0 < a < 1, obs=[_r(me), _r(mpt)])
    if fn == "gisin":
        lam, th = case["lam"], THETAS[case["theta"]]
        rho, exc = call(gisin, lam, th)
        if exc is not None:
            return _exc("gisin", exc)
        bad = _state_basics(rho, 4, "gisin")
        if bad:
            return bad
        if not R.close(rho, R.gisin(lam, th)):
            return viol("gisin is not the documented matrix", site="gisin:value", observed=np.asarray(rho), expected=R.gisin(lam, th))
        me = R.min_eig(rho)
        if me < -TOL:
            return viol("gisin state is not positive semidefinite", site="gisin:psd", observed=me)
        return ok(0 < lam and math.sin(2 * th) != 0, obs=_r(me))
    if fn == "breuer":
        d, lam = case["d"], case["lam"]
        rho, exc = call(breuer, d, lam)
        if exc is not None:
            return _exc("breuer", exc)
        bad = _state_basics(rho, d * d, "breuer")
        if bad:
            return bad
        rho = np.asarray(rho)
        rest = rho - (1 - lam) * 2 * R.sym_projector(d) / (d * (d + 1))  # must be lam |psi><psi|
        w, vecs = np.linalg.eigh((rest + rest.conj().T) / 2)
        k = int(np.argmax(np.abs(w)))
        others = np.delete(w, k)
        if np.max(np.abs(others)) > TOL or (lam != 0 and abs(w[k] - lam) > TOL) or (lam == 0 and abs(w[k]) > TOL):
            return viol("breuer is not lam |psi><psi| + (1-lam) 2 P_sym / (d(d+1))", site="breuer:decomposition",
                        observed=[float(w[k]), float(np.max(np.abs(others)))], expected=[lam, 0.0])
        if lam != 0:
            psi = vecs[:, k]
            if not R.close(R.swap_op(d) @ psi, -psi):
                return viol("the singlet component of the breuer state is not antisymmetric", site="breuer:antisymmetric")
            if not R.close(R.ptrace(R.proj(psi), [d, d], {1}), np.eye(d) / d):
                return viol("the singlet component of the breuer state is not maximally entangled", site="breuer:maxent")
        me = R.min_eig(rho)
        if 0 <= lam <= 1 and me < -TOL:
            return viol("breuer state is not positive semidefinite for lam in [0,1]", site="breuer:psd", observed=me)
        return ok(0 < lam < 1, obs=_r(me))
    if fn == "chessboard":
        p = chess_params(case["params"])
        s_def = np.conj(p[2]) / np.conj(p[5])
        t_def = p[0] * p[3] / p[4]
        st = case["st"]
        if st == "default":
            rho, exc = call(chessboard, list(p))
            s, t = s_def, t_def
        else:
            s = s_def if st in ("explicit_default", "t_only") else 0.7
            t = t_def if st in ("explicit_default", "s_only") else -1.3
            if st == "s_only":
                rho, exc = call(chessboard, list(p), 0.7)
                s = 0.7
            elif st == "t_only":
                rho, exc = call(chessboard, list(p), None, -1.3)
                t = -1.3
            else:
                rho, exc = call(chessboard, list(p), s, t)
        if exc is not None:
            return _exc("chessboard", exc)
        bad = _state_basics(rho, 9, "chessboard")
        if bad:
            return bad
        rho = np.asarray(rho)
        me = R.min_eig(rho)
        if me < -TOL:
            return viol("chessboard state is not positive semidefinite", site="chessboard:psd", observed=me)
        rk = int(np.sum(R.eigs(rho) > 1e-10))
        if rk > 4:
            return viol("chessboard state has rank > 4 (it is a mixture of four vectors)", site="chessboard:rank", observed=rk)
        # documented defaults: the same state must come out when the documented default values are passed explicitly
        ref, exc = call(chessboard, list(p), s, t)
        if exc is not None:
            return _exc("chessboard", exc)
        if not R.close(rho, np.asarray(ref)):
            return viol("chessboard defaults are not s = conj(c)/conj(n), t = a d / m as documented", site="chessboard:defaults",
                        observed=float(R.err(rho, np.asarray(ref))), expected=0.0)
        return ok(st != "free", obs=_r(me), calls=2)
    d = case["d"]
    rho, exc = call(singlet, d)
    if exc is not None:
        return _exc("singlet", exc)
    rho = np.asarray(rho)
    if case["mode"] == "structure":
        bad = _state_basics(rho, d * d, "singlet")
        if bad:
            return bad
        asym = (np.eye(d * d) - R.swap_op(d)) / 2
        if not R.close(rho, asym / (d * (d - 1) / 2)):
            return viol("singlet is not the normalised projector on the antisymmetric subspace", site="singlet:value")
        if d == 2 and not R.close(rho, R.proj([0, 1 / math.sqrt(2), -1 / math.sqrt(2), 0])):
            return viol("singlet(2) is not the documented |phi_s><phi_s|", site="singlet:value")
        return ok(True, obs=_r(R.min_eig(rho)))
    u = cat.unitary(d, case["u"])
    uu = np.kron(u, u)
    if not R.close(uu @ rho @ uu.conj().T, rho):
        return viol("singlet state is not invariant under U (x) U", site="singlet:invariance")
    return ok(True)


# ================================================================================================ C17.product_bases
def pbasis_cases(tier, seed):
    for fn, n in (("tile", 5), ("domino", 9)):
        for i in range(n):
            for j in range(i, n):
                yield {"fn": fn, "i": i, "j": j}
        yield {"fn": fn, "mode": "family"}


def _tile_doc(i):
    s = 1 / math.sqrt(2)
    e0, e1, e2 = R.e(3, 0), R.e(3, 1), R.e(3, 2)
    return [np.kron(e0, s * (e0 - e1)), np.kron(s * (e0 - e1), e2), np.kron(e2, s * (e1 - e2)), np.kron(s * (e1 - e2), e0),
            np.kron(e0 + e1 + e2, e0 + e1 + e2) / 3][i]


def pbasis_check(case):
    from toqito.states import domino, tile

    fn = case["fn"]
    f = tile if fn == "tile" else domino
    n = 5 if fn == "tile" else 9
    if case.get("mode") == "family":
        vs = []
        for i in range(n):
            v, exc = call(f, i)
            if exc is not None:
                return _exc(fn, exc)
            vs.append(np.asarray(v, dtype=complex).ravel())
        G = np.array([[np.vdot(a, b) for b in vs] for a in vs])
        if not R.close(G, np.eye(n)):
            return viol(f"{fn} states are not orthonormal", site=fn + ":orthonormal")
        rk = int(np.linalg.matrix_rank(np.array(vs), tol=1e-9))
        if rk != n:
            return viol(f"{fn} states are linearly dependent", site=fn + ":rank", observed=rk, expected=n)
        if fn == "tile":
            # unextendible (docstring: "form a UPB"): a product vector a (x) b orthogonal to all five needs a split of the
            # states into those with a _|_ a_k and those with b _|_ b_k; rank is monotone, so it is enough that for every
            # 2+3 split the three-element side spans C^3 for that party
            a_parts, b_parts = [], []
            for v in vs:
                u, s, vh = np.linalg.svd(v.reshape(3, 3))
                a_parts.append(u[:, 0])
                b_parts.append(vh[0, :].conj())
            for sub in itertools.combinations(range(5), 2):
                rest = [k for k in range(5) if k not in sub]
                ra = np.linalg.matrix_rank(np.array([a_parts[k] for k in sub]), tol=1e-9)
                rb = np.linalg.matrix_rank(np.array([b_parts[k] for k in rest]), tol=1e-9)
                ra2 = np.linalg.matrix_rank(np.array([a_parts[k] for k in rest]), tol=1e-9)
                rb2 = np.linalg.matrix_rank(np.array([b_parts[k] for k in sub]), tol=1e-9)
                if (ra < 3 and rb < 3) or (ra2 < 3 and rb2 < 3):
                    return viol("tile states are extendible (a product vector is orthogonal to all five)", site="tile:upb", split=list(sub))
        return ok(True, calls=n)
    i, j = case["i"], case["j"]
    u, exc = call(f, i)
    if exc is not None:
        return _exc(fn, exc)
    v, exc = call(f, j)
    if exc is not None:
        return _exc(fn, exc)
    u, v = np.asarray(u), np.asarray(v)
    if u.shape != (9, 1):
        return viol(f"{fn} state is not a 9x1 column", site=fn + ":shape", observed=list(u.shape))
    ip = complex(np.vdot(u, v))
    if abs(ip - (1.0 if i == j else 0.0)) > TOL:
        return viol(f"{fn} states are not orthonormal", site=fn + ":orthonormal", observed=abs(ip), expected=float(i == j), pair=[i, j])
    if R.schmidt_rank_bip(u, 3, 3) != 1:
        return viol(f"{fn}({i}) is not a product vector on C^3 (x) C^3", site=fn + ":product", observed=R.schmidt_rank_bip(u, 3, 3))
    if fn == "tile" and not R.close(u.ravel(), _tile_doc(i)):
        return viol("tile(idx) is not the documented vector", site="tile:value", observed=u.ravel(), expected=_tile_doc(i))
    return ok(i != j, obs=_r(abs(ip)), calls=2)


# ================================================================================================ C17.mub
def mub_cases(tier, seed):
    for d in (2, 3, 5, 7) + ((11, 13) if tier == "thorough" else ()):
        yield {"d": d, "mode": "family"}
        for b1 in range(d + 1):
            for b2 in range(b1, d + 1):
                yield {"d": d, "mode": "pair", "b": [b1, b2]}
    for d in (4, 8, 9):
        yield {"d": d, "mode": "prime_power"}


def mub_check(case):
    from toqito.states import mutually_unbiased_basis

    d = case["d"]
    vs, exc = call(mutually_unbiased_basis, d)
    if case["mode"] == "prime_power":
        if exc is not None:
            if isinstance(exc, ValueError):
                return rejected("prime power refused: " + exc_text(exc))
            return _exc("mutually_unbiased_basis", exc)
    elif exc is not None:
        return _exc("mutually_unbiased_basis", exc)
    if len(vs) != d * (d + 1):
        return viol("number of MUB vectors is not d(d+1)", site="mutually_unbiased_basis:count", observed=len(vs), expected=d * (d + 1))
    vs = [np.asarray(v, dtype=complex).ravel() for v in vs]
    if any(v.shape != (d,) for v in vs):
        return viol("MUB vectors do not have length d", site="mutually_unbiased_basis:shape")
    ov = np.abs(np.array([[np.vdot(a, b) for b in vs] for a in vs])) ** 2
    if case["mode"] == "pair":
        b1, b2 = case["b"]
        blk = ov[b1 * d:(b1 + 1) * d, b2 * d:(b2 + 1) * d]
        exp = np.eye(d) if b1 == b2 else np.full((d, d), 1 / d)
        if not R.close(blk, exp):
            what = "basis is not orthonormal" if b1 == b2 else "two bases are not mutually unbiased (|<u|v>|^2 != 1/d)"
            return viol(what, site="mutually_unbiased_basis:" + ("orthonormal" if b1 == b2 else "unbiased"),
                        observed=float(R.err(blk, exp)), expected=0.0)
        return ok(b1 != b2, obs=_r(blk[0, 0]))
    # order-free statement: overlaps are 0 / 1/d / 1 and "orthogonal or equal" splits the vectors into d+1 bases of size d
    vals = np.minimum(np.minimum(np.abs(ov), np.abs(ov - 1 / d)), np.abs(ov - 1))
    if np.max(vals) > TOL:
        return viol("an overlap |<u|v>|^2 is none of 0, 1/d, 1", site="mutually_unbiased_basis:overlaps", observed=float(np.max(vals)))
    same = (ov < 1 / (2 * d)) | (ov > 1 - 1 / (2 * d))
    classes = {tuple(np.nonzero(row)[0].tolist()) for row in same}
    if len(classes) != d + 1 or any(len(c) != d for c in classes):
        return viol("the vectors do not split into d+1 orthonormal bases", site="mutually_unbiased_basis:partition",
                    observed=sorted(len(c) for c in classes))
    return ok(True, states=d * (d + 1))


# ================================================================================================ C17.small_sets
def small_cases(tier, seed):
    yield {"fn": "bb84"}
    yield {"fn": "trine"}
    for n in range(1, 6):
        for th in ("0", "pi/8", "pi/4", "1", "pi/2", "0.5"):
            yield {"fn": "pbr", "n": n, "theta": th}
    shapes = [(2, 1), (3, 1), (2, 2), (3, 2), (4, 2), (2, 3)] + ([(5, 2), (3, 3), (2, 4)] if tier == "thorough" else [])
    for d, p in shapes:
        yield {"fn": "brauer", "d": d, "p": p}


def small_check(case):
    from toqito.states import bb84, brauer, pusey_barrett_rudolph, trine

    fn = case["fn"]
    s = 1 / math.sqrt(2)
    if fn == "bb84":
        out, exc = call(bb84)
        if exc is not None:
            return _exc("bb84", exc)
        exp = [[[1, 0], [0, 1]], [[s, s], [s, -s]]]
        try:
            got = [[np.asarray(v).ravel() for v in pair] for pair in out]
            good = len(got) == 2 and all(len(p) == 2 for p in got) and all(
                R.close(got[a][b], exp[a][b]) for a in range(2) for b in range(2))
        except Exception:  # noqa: BLE001
            good = False
        if not good:
            return viol("bb84 is not [[|0>,|1>],[|+>,|->]]", site="bb84:value")
        return ok(True)
    if fn == "trine":
        out, exc = call(trine)
        if exc is not None:
            return _exc("trine", exc)
        exp = [[1, 0], [-0.5, -math.sqrt(3) / 2], [-0.5, math.sqrt(3) / 2]]
        got = [np.asarray(v, dtype=float) for v in out]
        if len(got) != 3 or any(v.shape != (2, 1) for v in got) or not all(R.close(got[k].ravel(), exp[k]) for k in range(3)):
            return viol("trine states are not the documented vectors", site="trine:value")
        if not R.close(sum(R.proj(v) for v in got), 1.5 * np.eye(2)):
            return viol("trine projectors do not sum to 3/2 I", site="trine:frame")
        return ok(True)
    if fn == "pbr":
        n, th = case["n"], (THETAS[case["theta"]] if case["theta"] in THETAS else float(case["theta"]))
        out, exc = call(pusey_barrett_rudolph, n, th)
        if exc is not None:
            return _exc("pusey_barrett_rudolph", exc)
        psi = [np.array([math.cos(th / 2), math.sin(th / 2)]), np.array([math.cos(th / 2), -math.sin(th / 2)])]
        if len(out) != 2**n:
            return viol("PBR set does not have 2^n states", site="pusey_barrett_rudolph:count", observed=len(out))
        refs = [R.kron_all([psi[b].reshape(-1, 1) for b in bits]).ravel() for bits in itertools.product((0, 1), repeat=n)]
        got = [np.asarray(v, dtype=float) for v in out]
        if any(v.shape != (2**n, 1) for v in got):
            return viol("PBR states are not 2^n x 1 columns", site="pusey_barrett_rudolph:shape")
        if n == 1 and not (R.close(got[0].ravel(), refs[0]) and R.close(got[1].ravel(), refs[1])):
            return viol("PBR(n=1) is not [psi_0, psi_1]", site="pusey_barrett_rudolph:value")
        # order-free: the returned list is the multiset {psi_x1 (x) ... (x) psi_xn}
        unused = list(range(len(refs)))
        for v in got:
            hit = next((k for k in unused if R.close(v.ravel(), refs[k])), None)
            if hit is None:
                return viol("a PBR state is not a tensor product psi_x1 (x) ... (x) psi_xn (or one is repeated)",
                            site="pusey_barrett_rudolph:value")
            if math.sin(th / 2) != 0:
                unused.remove(hit)
        return ok(n > 1 and math.sin(th / 2) != 0)
    d, p = case["d"], case["p"]
    out, exc = call(brauer, d, p)
    if exc is not None:
        return _exc("brauer", exc)
    out = np.asarray(out)
    ms = R.perfect_matchings(2 * p)
    if out.shape != (d ** (2 * p), len(ms)):
        return viol("brauer does not have d^(2p) rows and (2p)!/(p! 2^p) columns", site="brauer:shape", observed=list(out.shape),
                    expected=[d ** (2 * p), len(ms)])
    if not np.all((out == 0) | (out == 1)):
        return viol("brauer entries are not 0/1 (unnormalised states)", site="brauer:entries")
    got = {frozenset(np.nonzero(out[:, k])[0].tolist()) for k in range(out.shape[1])}
    exp = {R.brauer_support(d, m) for m in ms}
    if got != exp:
        return viol("brauer columns are not exactly the products of maximally entangled states over all perfect matchings",
                    site="brauer:columns", observed=len(got & exp), expected=len(exp))
    return ok(p > 1, states=len(ms))


# ================================================================================================ C17.pauli_forms
def pauli_cases(tier, seed):
    for i in range(4):
        for form in ("int", "upper", "lower"):
            for sp in (False, True):
                yield {"n": 0, "ind": [i], "form": form, "sparse": sp}
    nmax = 3 if tier == "quick" else 5
    for n in range(1, nmax + 1):
        for ind in itertools.product(range(4), repeat=n):
            for form in ("int", "upper", "lower"):
                for sp in (False, True):
                    if n >= 4 and (form == "lower" or (sp and form != "int")):
                        continue
                    yield {"n": n, "ind": list(ind), "form": form, "sparse": sp}


def _pauli_arg(i, form):
    if form == "int":
        return int(i)
    name = R.PAULI_NAMES[i]
    return name if form == "upper" else name.lower()


def pauli_check(case):
    from toqito.matrices import pauli

    n, ind, form, sp = case["n"], case["ind"], case["form"], case["sparse"]
    arg = _pauli_arg(ind[0], form) if n == 0 else [_pauli_arg(i, form) for i in ind]  # n == 0: scalar calling form
    out, exc = call(pauli, arg, sp) if sp else call(pauli, arg)
    site = "pauli:" + ("scalar" if n == 0 else "list") + (":sparse" if sp else "")
    if exc is not None:
        return viol("pauli raised on a documented calling form: " + exc_text(exc), site=site + ":exception", observed=exc_text(exc))
    if sp and not hasattr(out, "toarray"):
        return viol("pauli(is_sparse=True) did not return a sparse array", site=site + ":storage", observed=type(out).__name__)
    if not sp and hasattr(out, "toarray"):
        return viol("pauli(is_sparse=False) returned a sparse array", site=site + ":storage")
    exp = R.kron_all([R.PAULI[i] for i in ind])
    got = R.dense(out)
    if got.shape != exp.shape:
        return viol("pauli(list) does not have shape 2^n x 2^n", site=site + ":shape", observed=list(got.shape), expected=list(exp.shape))
    if not R.close(got, exp):
        return viol("pauli is not P_i1 (x) ... (x) P_in", site=site + ":value")
    return ok(len(ind) > 1 or ind[0] != 0)


# ================================================================================================ C17.operator_bases
def opbasis_cases(tier, seed):
    for d in dims_for(tier):
        for fam in ("gen_pauli", "gen_gell_mann"):
            idx = list(itertools.product(range(d), repeat=2))
            for a in range(len(idx)):
                for b in range(a, len(idx)):
                    yield {"fam": fam, "d": d, "a": list(idx[a]), "b": list(idx[b])}
            yield {"fam": fam, "d": d, "mode": "family"}
    for a in range(9):
        for b in range(a, 9):
            for sp in (False, True):
                yield {"fam": "gell_mann", "a": [a], "b": [b], "sparse": sp}
    yield {"fam": "gell_mann", "mode": "family"}
    for n in range(1, 4 if tier == "quick" else 6):
        yield {"fam": "pauli", "n": n, "mode": "family"}
    for a in range(4):
        for b in range(a, 4):
            yield {"fam": "pauli", "a": [a], "b": [b]}


def _get_op(fam, idx, d=None, sparse=False):
    from toqito.matrices import gell_mann, gen_gell_mann, gen_pauli, pauli

    if fam == "gen_pauli":
        return call(gen_pauli, idx[0], idx[1], d)
    if fam == "gen_gell_mann":
        return call(gen_gell_mann, idx[0], idx[1], d)
    if fam == "gell_mann":
        return call(gell_mann, idx[0], True) if sparse else call(gell_mann, idx[0])
    return call(pauli, idx[0]) if len(idx) == 1 else call(pauli, list(idx))


def _ref_op(fam, idx, d=None):
    if fam == "gen_pauli":
        return R.weyl(idx[0], idx[1], d)
    if fam == "gen_gell_mann":
        return R.gen_gell_mann(idx[0], idx[1], d)
    if fam == "gell_mann":
        return R.GELL_MANN[idx[0]]
    return R.kron_all([R.PAULI[i] for i in idx])


def _norm_sq(fam, idx, d):
    """c in Tr(A_i^dagger A_i) = c."""
    if fam == "gen_pauli":
        return d
    if fam == "pauli":
        return 2 ** len(idx)
    if fam == "gell_mann":
        return 3 if idx[0] == 0 else 2
    return d if tuple(idx) == (0, 0) else 2


def opbasis_check(case):
    fam, d = case["fam"], case.get("d")
    if case.get("mode") == "family":
        if fam in ("gen_pauli", "gen_gell_mann"):
            idxs = list(itertools.product(range(d), repeat=2))
            dim = d
        elif fam == "gell_mann":
            idxs = [(k,) for k in range(9)]
            dim = 3
        else:
            idxs = list(itertools.product(range(4), repeat=case["n"]))
            dim = 2 ** case["n"]
        ops = []
        for ix in idxs:
            o, exc = _get_op(fam, ix, d)
            if exc is not None:
                return _exc(fam, exc)
            ops.append(R.dense(o))
        G = R.gram(ops)
        exp = np.diag([float(_norm_sq(fam, ix, d)) for ix in idxs])
        if not R.close(G, exp):
            bad = np.unravel_index(int(np.argmax(np.abs(G - exp))), G.shape)
            return viol(f"{fam} family is not trace-orthogonal: Tr(A_i^dag A_j) != c delta_ij", site=fam + ":gram",
                        observed=abs(complex(G[bad])), expected=float(exp[bad]), pair=[list(idxs[bad[0]]), list(idxs[bad[1]])])
        rk = R.span_rank(ops)
        if rk != dim * dim:
            return viol(f"{fam} family does not span the {dim}x{dim} matrices", site=fam + ":span", observed=rk, expected=dim * dim)
        if fam == "gen_gell_mann" and d in (2, 3):
            # documented: generalises the Pauli (dim 2) and Gell-Mann (dim 3) operators -> equal as sets
            target = [R.PAULI[k] for k in range(4)] if d == 2 else [R.GELL_MANN[k] for k in range(9)]
            for t in target:
                if not any(R.close(o, t) for o in ops):
                    return viol("gen_gell_mann does not reproduce the Pauli / Gell-Mann operators at dim 2 / 3", site="gen_gell_mann:generalises")
        return ok(True, calls=len(idxs), states=len(idxs) ** 2)
    a, b = case["a"], case["b"]
    sp = case.get("sparse", False)
    A, exc = _get_op(fam, a, d, sp)
    if exc is not None:
        return _exc(fam, exc)
    B, exc = _get_op(fam, b, d, sp)
    if exc is not None:
        return _exc(fam, exc)
    if sp and not (hasattr(A, "toarray") and hasattr(B, "toarray")):
        return viol("gell_mann(is_sparse=True) did not return a sparse array", site="gell_mann:storage")
    A, B = R.dense(A).astype(complex), R.dense(B).astype(complex)
    dim = d if d else (3 if fam == "gell_mann" else 2)
    if A.shape != (dim, dim):
        return viol(f"{fam} is not a {dim}x{dim} matrix", site=fam + ":shape", observed=list(A.shape))
    ref = _ref_op(fam, a, d)
    if not R.close(A, ref):
        return viol(f"{fam}{tuple(a)} is not the documented operator", site=fam + ":value", observed=A if A.size <= 16 else None,
                    expected=ref if ref.size <= 16 else None)
    if fam == "gen_pauli":
        if not R.close(A.conj().T @ A, np.eye(dim)):
            return viol("gen_pauli is not unitary", site="gen_pauli:unitary")
    elif not R.is_hermitian(A):
        return viol(f"{fam} is not Hermitian", site=fam + ":hermitian")
    t = complex(np.trace(A.conj().T @ B))
    exp = float(_norm_sq(fam, a, d)) if a == b else 0.0
    if abs(t - exp) > TOL * max(1, dim):
        return viol(f"Tr(A_i^dag A_j) != c delta_ij for {fam}", site=fam + ":gram", observed=abs(t), expected=exp, pair=[a, b])
    return ok(a != b, obs=_r(abs(t)), calls=2)


# ================================================================================================ C17.weyl
def weyl_cases(tier, seed):
    ds = (1, 2, 3, 4, 5, 6) if tier == "quick" else tuple(range(1, 10))
    for d in ds:
        yield {"d": d, "mode": "clock_shift_fourier"}
        for a in range(d):
            for b in range(d):
                yield {"d": d, "mode": "commutation", "k": [a, b]}


def weyl_check(case):
    from toqito.matrices import fourier, gen_pauli, gen_pauli_x, gen_pauli_z

    d = case["d"]
    X, exc = call(gen_pauli_x, d)
    if exc is not None:
        return _exc("gen_pauli_x", exc)
    Z, exc = call(gen_pauli_z, d)
    if exc is not None:
        return _exc("gen_pauli_z", exc)
    X, Z = np.asarray(X, dtype=complex), np.asarray(Z, dtype=complex)
    w = R.omega(d)
    if case["mode"] == "clock_shift_fourier":
        F, exc = call(fourier, d)
        if exc is not None:
            return _exc("fourier", exc)
        F = np.asarray(F, dtype=complex)
        if not np.array_equal(X, R.shift(d)):
            return viol("gen_pauli_x is not the documented cyclic shift |j> -> |j+1>", site="gen_pauli_x:value", observed=X.real if d <= 4 else None)
        if not R.close(Z, R.clock(d)):
            return viol("gen_pauli_z is not diag(1, w, ..., w^(d-1)), w = exp(2 pi i/d)", site="gen_pauli_z:value")
        if not R.close(F, R.fourier(d)):
            return viol("fourier is not w^(jk)/sqrt(d), w = exp(2 pi i/d)", site="fourier:value")
        if not R.close(F.conj().T @ F, np.eye(d)):
            return viol("fourier is not unitary", site="fourier:unitary")
        if not R.close(Z @ X, w * (X @ Z)):
            return viol("clock and shift do not satisfy Z X = w X Z", site="weyl:relation")
        if not (R.close(R.mpow(X, d), np.eye(d)) and R.close(R.mpow(Z, d), np.eye(d))):
            return viol("X^d or Z^d is not the identity", site="weyl:order")
        if not R.close(F @ X @ F.conj().T, Z):
            return viol("fourier does not intertwine shift and clock (F X F^dag != Z)", site="fourier:intertwine")
        if not R.close(F @ Z @ F.conj().T, X.conj().T):
            return viol("fourier does not intertwine clock and inverse shift (F Z F^dag != X^dag)", site="fourier:intertwine")
        return ok(d > 2)
    a, b = case["k"]
    W, exc = call(gen_pauli, a, b, d)
    if exc is not None:
        return _exc("gen_pauli", exc)
    W = np.asarray(W, dtype=complex)
    if not R.close(W, R.mpow(X, a) @ R.mpow(Z, b)):
        return viol("gen_pauli(k1,k2,d) is not X^k1 Z^k2 of the library's own clock and shift", site="gen_pauli:definition")
    if not R.close(R.mpow(Z, b) @ R.mpow(X, a), w ** (a * b) * W):
        return viol("Z^b X^a != w^(ab) X^a Z^b", site="weyl:relation")
    # action on basis kets: X^a Z^b |j> = w^(bj) |j+a>
    for j in range(d):
        exp = np.zeros(d, dtype=complex)
        exp[(j + a) % d] = w ** ((b * j) % d)
        if not R.close(W[:, j], exp):
            return viol("gen_pauli does not act as |j> -> w^(k2 j) |j+k1>", site="gen_pauli:action")
    return ok(a * b % d != 0)


# ================================================================================================ C17.gates
def gates_cases(tier, seed):
    for n in range(0, 6 if tier == "quick" else 9):
        yield {"fn": "hadamard", "n": n}
    yield {"fn": "hadamard", "n": None}
    yield {"fn": "cnot"}
    for n in range(1, 7 if tier == "quick" else 10):
        yield {"fn": "cyclic", "n": n, "k": None}
        for k in range(-n if tier == "thorough" else 0, 2 * n + 2):
            yield {"fn": "cyclic", "n": n, "k": k}
    for d in (1,) + dims_for(tier):
        for fl in (False, True, None):
            yield {"fn": "standard_basis", "d": d, "flatten": fl}
        for pos in range(d):
            yield {"fn": "basis", "d": d, "pos": pos}


def gates_check(case):
    from toqito.matrices import cnot, cyclic_permutation_matrix, hadamard, standard_basis
    from toqito.states import basis

    fn = case["fn"]
    if fn == "hadamard":
        n = case["n"]
        H, exc = call(hadamard) if n is None else call(hadamard, n)
        if exc is not None:
            return _exc("hadamard", exc)
        n = 1 if n is None else n
        H = np.asarray(H)
        if H.shape != (2**n, 2**n):
            return viol("hadamard is not 2^n x 2^n", site="hadamard:shape", observed=list(H.shape))
        exp = np.array([[(-1) ** R.hamming_weight(i & j) for j in range(2**n)] for i in range(2**n)]) / math.sqrt(2**n)
        if not R.close(H, exp):
            return viol("hadamard entries are not 2^(-n/2) (-1)^(i.j)", site="hadamard:value")
        h1 = np.array([[1, 1], [1, -1]]) / math.sqrt(2)
        if not R.close(H, R.kron_all([h1] * n)):
            return viol("hadamard(n) is not the n-fold tensor power of H_1", site="hadamard:tensor_power")
        if not R.close(H @ H.T, np.eye(2**n)):
            return viol("hadamard is not unitary", site="hadamard:unitary")
        return ok(n > 1)
    if fn == "cnot":
        C, exc = call(cnot)
        if exc is not None:
            return _exc("cnot", exc)
        C = np.asarray(C)
        for a in (0, 1):
            for b in (0, 1):
                exp = np.zeros(4)
                exp[2 * a + (a ^ b)] = 1
                if C.shape != (4, 4) or not np.array_equal(C[:, 2 * a + b], exp):
                    return viol("cnot does not map |a,b> to |a,a xor b>", site="cnot:action")
        if not np.array_equal(C.T @ C, np.eye(4)):
            return viol("cnot is not unitary", site="cnot:unitary")
        return ok(True)
    if fn == "cyclic":
        n, k = case["n"], case["k"]
        P, exc = call(cyclic_permutation_matrix, n) if k is None else call(cyclic_permutation_matrix, n, k)
        if exc is not None:
            return _exc("cyclic_permutation_matrix", exc)
        k = 1 if k is None else k
        P = np.asarray(P)
        exp = np.zeros((n, n))
        for j in range(n):
            exp[(j + k) % n, j] = 1  # k successive applications of e_j -> e_{j+1}
        if P.shape != (n, n) or not (np.array_equal(P, exp) if k >= 0 else R.close(P, exp)):
            return viol("cyclic_permutation_matrix(n,k) is not the k-th power of the cyclic shift e_j -> e_(j+1)",
                        site="cyclic_permutation_matrix:value", observed=P if n <= 4 else None, expected=exp if n <= 4 else None)
        if not R.close(P.T @ P, np.eye(n)):
            return viol("cyclic_permutation_matrix is not unitary", site="cyclic_permutation_matrix:unitary")
        return ok(k % n != 0)
    d = case["d"]
    if fn == "standard_basis":
        fl = case["flatten"]
        out, exc = call(standard_basis, d) if fl is None else call(standard_basis, d, fl)
        if exc is not None:
            return _exc("standard_basis", exc)
        shape = (d,) if fl else (d, 1)
        if len(out) != d:
            return viol("standard_basis does not have d elements", site="standard_basis:count", observed=len(out))
        for j, v in enumerate(out):
            v = np.asarray(v)
            if v.shape != shape or not np.array_equal(v.ravel(), R.e(d, j)):
                return viol("standard_basis element j is not e_j with the documented shape", site="standard_basis:value",
                            observed=list(v.shape), expected=list(shape))
        return ok(d > 1)
    pos = case["pos"]
    v, exc = call(basis, d, pos)
    if exc is not None:
        return _exc("basis", exc)
    v = np.asarray(v)
    if v.shape != (d, 1) or not np.array_equal(v.ravel(), R.e(d, pos)):
        return viol("basis(dim,pos) is not the column e_pos", site="basis:value", observed=v.ravel())
    return ok(d > 1)


# ================================================================================================ C17.rejections
def reject_cases(tier, seed):
    for d in (1, 2, 3, 5):
        for pos in (d, d + 1, -1, -d, -d - 1):
            yield {"fn": "basis", "args": [d, pos]}
    for i in (-1, 4, 5):
        yield {"fn": "bell", "args": [i]}
    for i in (-1, 5, 6):
        yield {"fn": "tile", "args": [i]}
    for i in (-1, 9, 10):
        yield {"fn": "domino", "args": [i]}
    for i in (-1, 9, 10):
        for sp in (False, True):
            yield {"fn": "gell_mann", "args": [i, sp]}
    for lam in (-0.1, 1.1, -1e-3, 1.001):
        for th in (0.0, 1.0):
            yield {"fn": "gisin", "args": [lam, th]}
    for a in (-0.1, 1.1, -1e-3, 1.001):
        for dim in (None, [3, 3], [2, 4]):
            yield {"fn": "horodecki", "args": [a, dim]}
    for dim in ([2, 2], [4, 2], [3, 2], [3, 3, 3], [9]):
        yield {"fn": "horodecki", "args": [0.5, dim]}
    for n in range(0, 6):
        for k in (n + 1, n + 2):
            yield {"fn": "dicke", "args": [n, k]}
    for d, n in ((0, 2), (-1, 2), (2, 0), (2, -1), (0, 0)):
        yield {"fn": "ghz", "args": [d, n]}
    for d in (2, 3, 4):
        for m in (d - 1, d + 1):
            yield {"fn": "ghz", "args": [d, 2, [1.0] * m]}
    for n in (0, -1):
        yield {"fn": "w_state", "args": [n]}
    for n in (2, 3, 4):
        for m in (n - 1, n + 1):
            yield {"fn": "w_state", "args": [n, [1.0] * m]}
    for d in (1, 3, 5, 0, -2):
        for lam in (0.0, 0.3):
            yield {"fn": "breuer", "args": [d, lam]}
    for d in (1, 6, 10, 12, 15):
        yield {"fn": "mutually_unbiased_basis", "args": [d]}
    facts = {1, 5, 23, 119}
    for m in [0] + list(range(2, 31 if tier == "quick" else 60)):
        if m not in facts:
            yield {"fn": "werner", "args": [2, [0.01] * m]}


def reject_check(case):
    import toqito.matrices as M
    import toqito.states as S

    fn, args = case["fn"], case["args"]
    f = getattr(S, fn, None) or getattr(M, fn)
    if fn == "horodecki" and args[1] is None:
        args = args[:1]
    out, exc = call(f, *args)
    if exc is None:
        got = R.dense(out)
        return viol(f"{fn}{tuple(args)} returned a value for an argument outside the documented domain", site=fn + ":not_rejected",
                    observed=list(got.shape) if hasattr(got, "shape") else None, expected="ValueError")
    if isinstance(exc, ValueError):
        return ok(True)
    return viol(f"{fn}{tuple(args)} failed with an internal error instead of the documented ValueError: " + exc_text(exc),
                site=fn + ":internal_error", observed=exc_text(exc), expected="ValueError")


# ================================================================================================ registry
CLAUSES = [
    Clause("C17.bell", bell_cases, bell_check, tol="alg(1e-9)",
           doc="bell / gen_bell: documented vectors, orthonormal basis over ALL index pairs, maximally mixed marginals, completeness; non-trivial iff i != j"),
    Clause("C17.max_entangled", maxent_cases, maxent_check, tol="alg(1e-9)",
           doc="max_entangled (sparse/dense, normalised flag, marginals) and max_mixed; non-trivial iff d > 1"),
    Clause("C17.ghz_w_dicke", gwd_cases, gwd_check, tol="alg(1e-9)",
           doc="GHZ / W / Dicke support, amplitudes, unit norm, permutation symmetry / covariance; non-trivial iff non-uniform coefficients (ghz, w), 0<k<n (dicke)"),
    Clause("C17.werner", werner_cases, werner_check, tol="alg(1e-9)",
           doc="werner(d, alpha): formula, PSD, PPT iff alpha <= 1/d, U(x)U invariance over the unitary catalogue, [alpha] list form = scalar form; non-trivial iff alpha != 0"),
    Clause("C17.werner_multi", wmulti_cases, wmulti_check, tol="alg(1e-9)",
           doc="werner(d, [p!-1 values]): normalised I - sum alpha(k) P(k+1) with reference permutation operators, U^(x)p invariance"),
    Clause("C17.isotropic", iso_cases, iso_check, tol="alg(1e-9)",
           doc="isotropic(d, alpha): formula, PSD, PPT iff alpha <= 1/(d+1), U (x) conj(U) invariance; non-trivial iff alpha != 0"),
    Clause("C17.mixed_families", mixed_cases, mixed_check, tol="alg(1e-9)",
           doc="horodecki (both dims: cited definition, PSD, PPT on the whole grid), gisin (documented matrix), breuer (decomposition), chessboard (PSD, rank, documented defaults), singlet"),
    Clause("C17.product_bases", pbasis_cases, pbasis_check, tol="alg(1e-9)",
           doc="tile / domino: orthonormal over all pairs, product vectors by rank-1 reshape, tile unextendible; non-trivial iff i != j"),
    Clause("C17.mub", mub_cases, mub_check, tol="alg(1e-9)",
           doc="mutually_unbiased_basis on primes: d+1 orthonormal bases, |<u|v>|^2 = 1/d across bases (all basis pairs)"),
    Clause("C17.small_sets", small_cases, small_check, tol="alg(1e-9)",
           doc="bb84, trine, pusey_barrett_rudolph (n = 1..5), brauer (all perfect matchings)"),
    Clause("C17.pauli_forms", pauli_cases, pauli_check, tol="alg(1e-9)",
           doc="pauli: int / str / lower-case / list forms, dense and sparse, all index tuples up to n qubits = kron of the documented matrices"),
    Clause("C17.operator_bases", opbasis_cases, opbasis_check, tol="alg(1e-9)",
           doc="gen_pauli / gen_gell_mann / gell_mann / pauli: documented operators, Tr(A_i^dag A_j) = c delta_ij over ALL index pairs, rank d^2; non-trivial iff i != j"),
    Clause("C17.weyl", weyl_cases, weyl_check, tol="alg(1e-9)",
           doc="clock / shift / fourier: documented matrices, Z X = w X Z, Z^b X^a = w^(ab) X^a Z^b, F X F^dag = Z, F Z F^dag = X^dag, gen_pauli = X^k1 Z^k2"),
    Clause("C17.gates", gates_cases, gates_check, tol="exact / alg(1e-9)",
           doc="hadamard(n), cnot, cyclic_permutation_matrix(n,k), standard_basis, basis: unitarity and defining action"),
    Clause("C17.rejections", reject_cases, reject_check, tol="exact",
           doc="arguments outside a documented range (:raises: / stated interval / index set) must raise ValueError"),
]

# every toqito call of this property is repeated with column-major copies of its array arguments (engine.call, layout twin)
for _c in CLAUSES:
    _c.layout_twin = True
    _c.strided_twin = True  # and with strided read-only views (engine.call)
    _c.repeat_twin = True  # constructors are pure: repeated calls agree, and scribbling over a returned array must not affect later calls
