"""C07 — NonlocalGame: classical value exact, values ordered, product game, BCS game, call histories.

Index conventions read from toqito/nonlocal_games/nonlocal_game.py: ``pred_mat[a, b, x, y]`` = V(a,b|x,y),
``prob_mat[x, y]`` = pi(x,y); ``reps = r`` stores the r-fold product game (Kronecker / most-significant-first
encoding of tuples) in ``prob_mat`` / ``pred_mat`` and keeps ``reps``.
"""

from __future__ import annotations

import itertools
import os
from fractions import Fraction

import numpy as np

from mc import catalog
from mc.engine import Clause, call, exc_text, indet, ok, viol
from mc.ref import games as rg

RULE = ("case = (shape (A,B,X,Y), predicate tensor given as bit/ternary code or per-question cell patterns, question "
        "distribution key[, dtype, reps, constraint system, call-history menu]); every case of the listed finite alphabets is "
        "executed (SDP ordering clause: full (2,2,2,2) pattern core + all games differing from the CHSH default in at most "
        "k axes, k=1 quick / 2 thorough); classical clauses are non-trivial iff 0 < exact classical value < 1 and both "
        "players have more than one deterministic strategy; product/BCS cases iff the tensor is not constant; order cases "
        "iff classical value < 1; history cases always (BFS states/transitions are reported separately)")
ASSUMPTIONS = [
    "the reference classical value is computed in exact integer/Fraction arithmetic by brute force over all pairs of answer "
    "functions and re-derived by two best-response recursions (one per enumerated player); the three must agree on every case "
    "or the run is a harness error",
    "toqito's float result is compared with the exact value up to 1e-9 (rounding of at most ~100 float additions)",
    "SCS (cvxpy default) is deterministic single-threaded; SDP orderings are judged with slack 1e-3",
    "OS entropy consumed by quantum_value_lower_bound is replaced by a fixed entropy tape (mc.own.entropy_tape)",
    "NPA has no independent reference: it is constrained from below (exact classical value, achieved see-saw value) and from "
    "above (non-signaling value, level monotonicity) only",
    "shapes bounded: answers/questions in {1,2,3} for the full products, a few shapes up to 5 answers / 11 questions for the "
    "large and multiprocessing branches; histories to depth 2 (quick) / 3 (thorough) over the listed event menu",
    "BCS: the integer encoding of Alice's assignment is accepted in either bit order (the docstring does not fix it)",
]

FLOAT_TOL = 1e-9
SCS_TOL = 1e-3


# ================================================================================================ alphabets
def all_shapes():
    sh = [list(s) for s in itertools.product((1, 2, 3), repeat=4)]
    sh.sort(key=lambda s: (s[0] * s[1] * s[2] * s[3], s))
    return sh


def cells(shape):
    A, B, X, Y = shape
    return A * B * X * Y


def pattern(name: str, A: int, B: int):
    """A x B matrix (nested list of Fractions) of one question pair's predicate."""
    def f(a, b):
        if name == "eq":
            return a == b
        if name == "neq":
            return a != b
        if name == "win":
            return 1
        if name == "lose":
            return 0
        if name == "and0":
            return a == 0 and b == 0
        if name == "or1":
            return a >= 1 or b >= 1
        if name == "sh1":
            return b == (a + 1) % B
        if name == "sh2":
            return b == (a + 2) % B
        if name == "heq":
            return Fraction(1) if a == b else Fraction(1, 2)
        if name == "half":
            return Fraction(1, 2)
        if name == "andhi":  # planted strategy on the HIGHEST answer labels (the last strategies in enumeration order)
            return a == A - 1 and b == B - 1
        if name == "hilo":
            return a == 0 and b == B - 1
        if name == "lohi":
            return a == A - 1 and b == 0
        raise KeyError(name)
    return [[Fraction(int(v) if isinstance(v, bool) else v) for v in (f(a, b) for b in range(B))] for a in range(A)]


PATTERN_ORDER = ["eq", "sh1", "and0", "neq", "lose", "win", "sh2", "heq"]
CANON_ORDER = ["win", "lose", "eq", "neq", "and0", "or1", "sh1", "sh2", "heq", "half", "andhi", "hilo", "lohi"]


def pattern_alphabet(A, B, size, order=PATTERN_ORDER):
    """First `size` patterns of `order` that are pairwise different as A x B matrices."""
    out, seen = [], []
    for n in order:
        m = pattern(n, A, B)
        if m not in seen:
            seen.append(m)
            out.append(n)
        if len(out) == size:
            break
    return out


def dist_keys(X, Y):
    if X * Y == 1:
        return ["uniform"]
    return ["uniform", "skew", "zero", "g0", "g1"]


def build_prob(X, Y, key):
    """Question distribution as an X x Y nested list of Fractions."""
    if key == "uniform":
        return [[Fraction(1, X * Y)] * Y for _ in range(X)]
    if key == "skew":  # product of ramp marginals (1/3,2/3), (1/6,2/6,3/6), ...
        px = [Fraction(i + 1, X * (X + 1) // 2) for i in range(X)]
        py = [Fraction(Y - j, Y * (Y + 1) // 2) for j in range(Y)]
        return [[px[x] * py[y] for y in range(Y)] for x in range(X)]
    if key == "zero":  # uniform with one (off-diagonal where possible) zero entry
        zx, zy = (0, Y - 1) if Y > 1 else (X - 1, 0)
        return [[Fraction(0) if (x, y) == (zx, zy) else Fraction(1, X * Y - 1) for y in range(Y)] for x in range(X)]
    if key in ("g0", "g1"):  # seed-derived rational weights in {1..5}, not all equal
        k = int(key[1])
        for attempt in range(100):
            w = catalog.rng(f"c07prob{X}x{Y}", k, attempt).integers(1, 6, size=(X, Y))
            if len(set(w.ravel().tolist())) > 1:
                break
        tot = int(w.sum())
        return [[Fraction(int(w[x, y]), tot) for y in range(Y)] for x in range(X)]
    if key == "cycle":  # odd-cycle distribution on a square question set: x = y or y = x + 1
        assert X == Y
        return [[Fraction(1, 2 * X) if (y == x or y == (x + 1) % X) else Fraction(0) for y in range(Y)] for x in range(X)]
    raise KeyError(key)


def build_pred(shape, code):
    """Predicate tensor [a][b][x][y] of Fractions from its code."""
    A, B, X, Y = shape
    kind, _, body = code.partition(":")
    if kind == "bits":
        n = int(body)
        return rg.frac_tensor(shape, lambda a, b, x, y: (n >> (((a * B + b) * X + x) * Y + y)) & 1)
    if kind == "tern":
        n = int(body)
        return rg.frac_tensor(shape, lambda a, b, x, y: Fraction((n // 3 ** (((a * B + b) * X + x) * Y + y)) % 3, 2))
    if kind == "pat":
        names = body.split(",")
        mats = [pattern(nm, A, B) for nm in names]
        return rg.frac_tensor(shape, lambda a, b, x, y: mats[x * Y + y][a][b])
    if kind == "fpat":  # fractional variant: losing cells get 1/2 when a + x is even
        names = body.split(",")
        mats = [pattern(nm, A, B) for nm in names]
        return rg.frac_tensor(shape, lambda a, b, x, y: mats[x * Y + y][a][b] if mats[x * Y + y][a][b] != 0
                              else (Fraction(1, 2) if (a + x) % 2 == 0 else Fraction(0)))
    raise KeyError(code)


def to_np(nested, dtype=float):
    if dtype is float:
        return np.array(nested, dtype=object).astype(float)
    arr = np.array(nested, dtype=object)
    return np.array([int(v) for v in arr.ravel()], dtype=np.int64).reshape(arr.shape)


def formula_patterns(X, Y, formula, pats, k):
    def f(x, y):
        if formula == "xy":
            return x * y
        if formula == "x+y":
            return x + y
        if formula == "x+2y":
            return x + 2 * y
        raise KeyError(formula)
    return ",".join(pats[(f(x, y) + k) % len(pats)] for x in range(X) for y in range(Y))


def canonical_names(A, B, names: str) -> str:
    """Replace every pattern name by the first name (in CANON_ORDER) that denotes the same A x B matrix."""
    out = []
    for nm in names.split(","):
        m = pattern(nm, A, B)
        out.append(next(c for c in CANON_ORDER if pattern(c, A, B) == m))
    return ",".join(out)


def digest_game(game):
    from mc.own import digest

    return digest(np.asarray(game.prob_mat), np.asarray(game.pred_mat)) + f":{game.reps!r}"


def exact_classical(prob, pred, limit_pairs=30000):
    """Exact classical value by three routes; disagreement is a harness error."""
    A, B, X, Y = rg.shape_of(pred)
    vb = rg.classical_best_response(prob, pred, "bob")
    va = rg.classical_best_response(prob, pred, "alice")
    if va != vb:
        raise RuntimeError(f"reference oracles disagree: best-response alice {va} vs bob {vb}")
    if (A ** X) * (B ** Y) <= limit_pairs:
        bf = rg.classical_bruteforce(prob, pred)
        if bf != vb:
            raise RuntimeError(f"reference oracles disagree: brute force {bf} vs best response {vb}")
    return vb


# ================================================================================================ C07.classical_exact
def classical_cases(tier, seed):
    full_bits = 12 if tier == "quick" else 16
    full_tern = 6 if tier == "quick" else 8
    cap = 1300 if tier == "quick" else 4200
    for shape in all_shapes():
        A, B, X, Y = shape
        n = cells(shape)
        dists = dist_keys(X, Y)
        if n <= full_bits:
            for d in (dists if n <= 12 else ("uniform", "skew", "g0")):
                for bits in range(2 ** n):
                    yield {"shape": shape, "pred": f"bits:{bits}", "prob": d, "dtype": "f"}
            if n <= 8:  # the same 0/1 tensors stored as an integer array
                for d in dists[:2]:
                    for bits in range(2 ** n):
                        yield {"shape": shape, "pred": f"bits:{bits}", "prob": d, "dtype": "i"}
        if n <= full_tern:
            for d in dists:
                for t in range(3 ** n):
                    digs = rg.digits(t, 3, n)
                    if 1 in digs:  # at least one fractional entry (pure 0/1 tensors are covered above)
                        yield {"shape": shape, "pred": f"tern:{t}", "prob": d, "dtype": "f"}
        if n > 12:
            q = X * Y
            size = max(s for s in range(1, 9) if s ** q <= cap)
            pats = pattern_alphabet(A, B, size)
            for d in dists:
                for combo in itertools.product(pats, repeat=q):
                    yield {"shape": shape, "pred": "pat:" + ",".join(combo), "prob": d, "dtype": "f"}
            if tier == "thorough" and q == 9:
                pats3 = pattern_alphabet(A, B, 3)
                for d in ("uniform",):
                    for combo in itertools.product(pats3, repeat=q):
                        if all(c in pats for c in combo):
                            continue
                        yield {"shape": shape, "pred": "pat:" + ",".join(combo), "prob": d, "dtype": "f"}


def classical_alphabets(tier, seed):
    sh = all_shapes()
    return {"shapes": len(sh), "all_01_tensors_up_to_cells": 12 if tier == "quick" else 16,
            "ternary_{0,1/2,1}_up_to_cells": 6 if tier == "quick" else 8,
            "pattern_order": PATTERN_ORDER, "distributions": ["uniform", "skew", "zero", "g0", "g1"],
            "g0_2x2": [[str(v) for v in r] for r in build_prob(2, 2, "g0")],
            "g1_2x3": [[str(v) for v in r] for r in build_prob(2, 3, "g1")], "dtype": ["float64", "int64 (cells<=8)"]}


def classical_check(case):
    from toqito.nonlocal_games.nonlocal_game import NonlocalGame
    from mc.own import digest

    shape = case["shape"]
    A, B, X, Y = shape
    prob = build_prob(X, Y, case["prob"])
    pred = build_pred(shape, case["pred"])
    ref = exact_classical(prob, pred)
    prob_np = to_np(prob)
    pred_np = to_np(pred, float if case.get("dtype", "f") == "f" else int)
    d0 = digest(prob_np, pred_np)
    game, exc = call(NonlocalGame, prob_np, pred_np)
    if exc is not None:
        return viol("constructor raised: " + exc_text(exc), site="NonlocalGame:exception")
    val, exc = call(game.classical_value)
    if exc is not None:
        return viol("classical_value raised on an in-domain game: " + exc_text(exc), site="classical_value:exception")
    nontriv = 0 < ref < 1 and A ** X > 1 and B ** Y > 1
    if digest(prob_np, pred_np) != d0 or digest(np.asarray(game.prob_mat), np.asarray(game.pred_mat)) != d0:
        return viol("classical_value modified the game's / caller's arrays", site="classical_value:mutates", nontrivial=nontriv)
    if not isinstance(val, (float, int, np.floating, np.integer)) or abs(float(val) - float(ref)) > FLOAT_TOL:
        site = "classical_value:value" if case.get("dtype", "f") == "f" else "classical_value:int_dtype"
        return viol(f"classical value {val!r} != exact maximum over deterministic strategies {ref} (= {float(ref):.12g})",
                    site=site, observed=float(val) if val is not None else None, expected=float(ref), nontrivial=nontriv)
    return ok(nontriv, obs=float(val))


# ================================================================================================ C07.classical_large
LARGE_QUICK = [[4, 2, 2, 3], [2, 4, 3, 2], [4, 3, 2, 2], [3, 4, 2, 2], [3, 4, 3, 2], [4, 3, 2, 3], [5, 2, 1, 4], [2, 5, 4, 1],
               [4, 4, 3, 3], [2, 2, 5, 4], [2, 2, 4, 5], [3, 3, 4, 4], [2, 3, 6, 4], [3, 2, 4, 6], [1, 4, 3, 3], [4, 1, 3, 3]]
LARGE_POOL = [[4, 4, 5, 5], [5, 4, 5, 5], [4, 5, 5, 5], [2, 2, 10, 10], [2, 2, 11, 10], [2, 2, 10, 11], [3, 4, 7, 5], [4, 3, 5, 7],
              [3, 2, 7, 10],
              # strategy counts that are NOT multiples of a power of two (2187, 3125, 1296): added after seeded change C07-1, which
              # dropped the trailing (count mod 256) strategies of the parallel branch
              [3, 3, 7, 7], [5, 5, 5, 5], [6, 6, 4, 4], [3, 5, 7, 5], [5, 3, 5, 7]]
POOL_QUICK = [[3, 3, 7, 7]]  # one parallel-branch shape on every change


def large_cases(tier, seed):
    for k, shape in enumerate(([2, 2, 64, 2], [2, 2, 2, 64], [3, 2, 41, 1], [2, 4, 3, 32], [2, 2, 70, 3], [2, 3, 1, 45])):
        yield {"kind": "lopsided", "shape": shape, "k": k}
    for shape in ([2, 2, 2, 2], [2, 3, 2, 2], [3, 2, 3, 2], [2, 2, 3, 4]):
        for hidden in ("high", "low", "mixed"):
            for delta in (1e-6, 8e-6):
                yield {"kind": "nearperfect", "shape": shape, "hidden": hidden, "delta": delta}
    shapes = LARGE_QUICK + (LARGE_POOL if tier == "thorough" else POOL_QUICK)
    for shape in shapes:
        A, B, X, Y = shape
        big = min(A ** X, B ** Y) > 1000
        if big:
            # planted optimal strategies that use the highest / mixed answer labels for every question
            for nm in ("andhi", "hilo", "lohi"):
                yield {"shape": shape, "pred": "pat:" + ",".join([nm] * (X * Y)), "prob": "uniform", "dtype": "f", "pool": True}
            if tier == "quick":
                continue
        pats4 = pattern_alphabet(A, B, 4)
        pats2 = pattern_alphabet(A, B, 2)
        preds = []
        for formula in ("xy", "x+2y", "x+y"):
            for k in range(2 if big else len(pats4)):
                preds.append("pat:" + formula_patterns(X, Y, formula, pats4, k))
            preds.append("pat:" + formula_patterns(X, Y, formula, pats2, 0))
            if not big:
                preds.append("fpat:" + formula_patterns(X, Y, formula, pats4, 1))
        seen = set()
        for p in preds:
            if p in seen:
                continue
            seen.add(p)
            for d in (("uniform", "g0") if big else dist_keys(X, Y)):
                yield {"shape": shape, "pred": p, "prob": d, "dtype": "f", "pool": big}


def _lopsided_game(shape, k):
    """Integer weights and a 0/1 (k even) or {0, 1/2, 1} (k odd) predicate from fixed arithmetic patterns; exact value by enumerating the
    answer functions of the player with few strategies and letting the other best-respond question by question (Fractions)."""
    from fractions import Fraction as Fr

    A, B, X, Y = shape
    W = [[1 + (3 * x + 5 * y + k) % 4 for y in range(Y)] for x in range(X)]
    tot = sum(map(sum, W))
    V = [[[[Fr(((a * (x + 1) + b * (y + 2) + (x * y) // 2 + k) % 3) % 2 * (2 if k % 2 == 0 else 1), 2) for y in range(Y)] for x in range(X)]
          for b in range(B)] for a in range(A)]
    small_is_bob = B ** Y <= A ** X
    best = Fr(0)
    if small_is_bob:
        for g in itertools.product(range(B), repeat=Y):
            val = sum(max(sum(W[x][y] * V[a][g[y]][x][y] for y in range(Y)) for a in range(A)) for x in range(X))
            best = max(best, val)
    else:
        for f in itertools.product(range(A), repeat=X):
            val = sum(max(sum(W[x][y] * V[f[x]][b][x][y] for x in range(X)) for b in range(B)) for y in range(Y))
            best = max(best, val)
    pred = np.array([[[[float(V[a][b][x][y]) for y in range(Y)] for x in range(X)] for b in range(B)] for a in range(A)])
    prob = np.array(W, dtype=float) / tot
    return prob, pred, float(best / tot)


def large_check(case):
    """classical_check plus an outside observation of whether toqito created a multiprocessing.Pool (no source hook)."""
    import multiprocessing

    if case.get("kind") == "nearperfect":
        # fractional predicate: 1 on one hidden pair of answer functions, 1 - O(delta) everywhere else, so many strategies are within 1e-5
        # of the trivial bound but only one attains it.  Added after seeded change C07-12 (early exit on np.isclose to the bound).
        from toqito.nonlocal_games.nonlocal_game import NonlocalGame

        A, B, X, Y = case["shape"]
        delta = case["delta"]
        fa = [(A - 1 - x) % A if case["hidden"] == "mixed" else (A - 1 if case["hidden"] == "high" else 0) for x in range(X)]
        gb = [(y + 1) % B if case["hidden"] == "mixed" else (B - 1 if case["hidden"] == "high" else 0) for y in range(Y)]
        pred = np.zeros((A, B, X, Y))
        for a, b, x, y in itertools.product(range(A), range(B), range(X), range(Y)):
            pred[a, b, x, y] = 1.0 if (a == fa[x] and b == gb[y]) else 1.0 - delta * (1 + (a + 2 * b + x + y) % 3)
        W = np.array([[1 + (2 * x + y) % 3 for y in range(Y)] for x in range(X)], dtype=float)
        g, exc = call(NonlocalGame, W / W.sum(), pred)
        if exc is not None:
            return viol("constructor raised: " + exc_text(exc), site="NonlocalGame:constructor")
        v, exc = call(g.classical_value)
        if exc is not None:
            return viol("classical_value raised: " + exc_text(exc), site="classical_value:exception")
        if abs(float(v) - 1.0) > 1e-9:
            return viol(f"classical value {float(v)!r} of a game with a perfect deterministic strategy is not 1 (other strategies score "
                        f"1 - O({delta}))", site="classical_value:nearperfect", observed=float(v), expected=1.0)
        return ok(True, obs=float(v))
    if case.get("kind") == "lopsided":
        # one player has 2^63 or more deterministic strategies, the other a handful: the value is found by enumerating the small side.
        # Added after seeded change C07-11, whose strategy counts were computed in int64 and wrapped around.
        from toqito.nonlocal_games.nonlocal_game import NonlocalGame

        prob, pred, expected = _lopsided_game(case["shape"], case["k"])
        g, exc = call(NonlocalGame, prob, pred)
        if exc is not None:
            return viol("constructor raised: " + exc_text(exc), site="NonlocalGame:constructor")
        v, exc = call(g.classical_value)
        if exc is not None:
            return viol("classical_value raised on a game with very unequal question sets: " + exc_text(exc), site="classical_value:exception")
        if not np.isfinite(v) or abs(float(v) - expected) > 1e-9:
            return viol(f"classical value {float(v)!r} != exact maximum {expected!r} (shape {case['shape']}: the small side has "
                        f"{min(case['shape'][0] ** case['shape'][2], case['shape'][1] ** case['shape'][3])} strategies)",
                        site="classical_value:lopsided", observed=float(v), expected=expected)
        return ok(True, obs=float(v))

    real_pool = multiprocessing.Pool
    used = []

    def counting_pool(*a, **k):
        used.append(1)
        return real_pool(*a, **k)
    multiprocessing.Pool = counting_pool
    try:
        res = classical_check(case)
    finally:
        multiprocessing.Pool = real_pool
    res.setdefault("info", {})["pool_branch_taken"] = bool(used)
    return res


# ================================================================================================ C07.product_game
def product_cases(tier, seed):
    for shape in all_shapes():
        A, B, X, Y = shape
        n = cells(shape)
        if n <= 8:
            dists = [d for d in ("skew", "zero", "g0") if d in dist_keys(X, Y)] or ["uniform"]
            for d in dists:
                for bits in range(2 ** n):
                    yield {"shape": shape, "pred": f"bits:{bits}", "prob": d, "reps": 2}
            if n <= (4 if tier == "quick" else 6):
                for bits in range(2 ** n):
                    yield {"shape": shape, "pred": f"bits:{bits}", "prob": dists[0], "reps": 3}
            if n <= 4:
                for t in range(3 ** n):
                    if 1 in rg.digits(t, 3, n):
                        yield {"shape": shape, "pred": f"tern:{t}", "prob": dists[-1], "reps": 2}
        elif n <= (36 if tier == "quick" else 81):
            pats = pattern_alphabet(A, B, 4)
            for formula in ("xy", "x+2y"):
                for k in range(len(pats)):
                    for d in ("skew", "g0"):
                        yield {"shape": shape, "pred": "pat:" + formula_patterns(X, Y, formula, pats, k), "prob": d, "reps": 2}
            yield {"shape": shape, "pred": "fpat:" + formula_patterns(X, Y, "x+2y", pats, 1), "prob": "g1", "reps": 2}
            if n <= 16 and tier == "thorough":
                yield {"shape": shape, "pred": "pat:" + formula_patterns(X, Y, "x+2y", pats, 1), "prob": "skew", "reps": 3}


def product_check(case):
    from toqito.nonlocal_games.nonlocal_game import NonlocalGame
    from mc.own import digest

    shape, reps = case["shape"], case["reps"]
    A, B, X, Y = shape
    prob = build_prob(X, Y, case["prob"])
    pred = build_pred(shape, case["pred"])
    prob_np, pred_np = to_np(prob), to_np(pred)
    d0 = digest(prob_np, pred_np)
    game, exc = call(NonlocalGame, prob_np, pred_np, reps)
    if exc is not None:
        return viol(f"NonlocalGame(reps={reps}) raised: " + exc_text(exc), site="NonlocalGame:exception")
    flat = [v for a in pred for b in a for x in b for v in x]
    nontriv = len(set(flat)) > 1
    if digest(prob_np, pred_np) != d0:
        return viol("constructor modified the caller's arrays", site="NonlocalGame:mutates", nontrivial=nontriv)
    prob_r, pred_r = rg.product_game(prob, pred, reps)
    if game.reps != reps:
        return viol(f"reps attribute {game.reps!r} != {reps}", site="NonlocalGame:reps", nontrivial=nontriv)
    gp, gv = np.asarray(game.prob_mat), np.asarray(game.pred_mat)
    ep, ev = to_np(prob_r), to_np(pred_r)
    if gp.shape != ep.shape or np.max(np.abs(gp - ep)) > 1e-12:
        return viol("prob_mat of the repeated game is not the r-fold product distribution", site="NonlocalGame:product_prob",
                    observed=gp, expected=ep, nontrivial=nontriv)
    if gv.shape != ev.shape or np.max(np.abs(gv - ev)) > 1e-12:
        bad = None
        if gv.shape == ev.shape:
            bad = [int(i) for i in np.argwhere(np.abs(gv - ev) > 1e-12)[0]]
        return viol(f"pred_mat of the repeated game is not prod_k V(a_k,b_k|x_k,y_k) (first bad index {bad}, shape {gv.shape} "
                    f"vs {ev.shape})", site="NonlocalGame:product_pred", nontrivial=nontriv)
    # classical value of the product game against the exact reference on the reference product game
    # cost bound: every (answers ** questions) pairing, so that no enumeration order can exceed it
    if max(A ** reps, B ** reps) ** max(X ** reps, Y ** reps) <= 5000:
        ref = rg.classical_best_response(prob_r, pred_r, "bob" if (B ** reps) ** (Y ** reps) <= (A ** reps) ** (X ** reps) else "alice")
        val, exc = call(game.classical_value)
        if exc is not None:
            return viol("classical_value raised on a product game: " + exc_text(exc), site="classical_value:exception")
        if abs(float(val) - float(ref)) > FLOAT_TOL:
            return viol(f"classical value of the {reps}-fold game {val!r} != exact {ref}", site="classical_value:value",
                        observed=float(val), expected=float(ref), nontrivial=nontriv,
                        product_shape=[A ** reps, B ** reps, X ** reps, Y ** reps])
        return ok(nontriv, obs=float(val), calls=2)
    return ok(nontriv)


# ================================================================================================ C07.bcs
def _nonconstant(n):
    return [t for t in range(1, 2 ** (2 ** n) - 1)]


def _tables3():
    """32 non-constant boolean functions of 3 variables (truth tables), named by formula."""
    fs = []
    asg = list(itertools.product((0, 1), repeat=3))

    def tab(fn):
        t = 0
        for v in asg:
            idx = v[0] * 4 + v[1] * 2 + v[2]
            if fn(*v):
                t |= 1 << idx
        return t
    for c in (0, 1):
        fs.append(tab(lambda x, y, z: (x ^ y ^ z) == c))
        fs.append(tab(lambda x, y, z: (x ^ y) == c))
        fs.append(tab(lambda x, y, z: (y ^ z) == c))
        fs.append(tab(lambda x, y, z: (x ^ z) == c))
        fs.append(tab(lambda x, y, z: x == c))
        fs.append(tab(lambda x, y, z: y == c))
        fs.append(tab(lambda x, y, z: z == c))
        fs.append(tab(lambda x, y, z: (x & y & z) == c))
        fs.append(tab(lambda x, y, z: (x | y | z) == c))
        fs.append(tab(lambda x, y, z: (x + y + z >= 2) == bool(c)))
        fs.append(tab(lambda x, y, z: (x & y) == c))
        fs.append(tab(lambda x, y, z: (y | z) == c))
        fs.append(tab(lambda x, y, z: ((x & y) ^ z) == c))
        fs.append(tab(lambda x, y, z: (x + y + z == 1) == bool(c)))
        fs.append(tab(lambda x, y, z: (x if z else y) == c))
        fs.append(tab(lambda x, y, z: (x <= y) == bool(c)))
    out = []
    for t in fs:
        if t not in out and 0 < t < 255:
            out.append(t)
    return out


def bcs_cases(tier, seed):
    for n in (1, 2):
        tabs = _nonconstant(n)
        for t in tabs:
            for reps in (1, 2):
                yield {"n": n, "tables": [t], "reps": reps}
        for t1 in tabs:
            for t2 in tabs:
                yield {"n": n, "tables": [t1, t2], "reps": 1}
                if n == 1 or (t1 + 3 * t2) % 7 == 0:
                    yield {"n": n, "tables": [t1, t2], "reps": 2}
    # three constraints on two variables from the xor / and / or / single-variable functions
    small = [6, 9, 8, 14, 12, 10]  # x^y=1, x^y=0, x&y, x|y, x, y  (n = 2 truth tables, bit index = 2x + y)
    for trip in itertools.product(small, repeat=3):
        yield {"n": 2, "tables": list(trip), "reps": 1}
    for lay in ("F", "view"):
        for t1 in _nonconstant(2):
            yield {"n": 2, "tables": [t1], "reps": 1, "layout": lay}
            for t2 in _nonconstant(2):
                if (t1 + 5 * t2) % 3 == 0:
                    yield {"n": 2, "tables": [t1, t2], "reps": 1, "layout": lay}
        for t in _tables3()[:12]:
            yield {"n": 3, "tables": [t, _tables3()[0]], "reps": 1, "layout": lay}
    if tier == "thorough":
        t3 = _tables3()
        for t in t3:
            yield {"n": 3, "tables": [t], "reps": 1}
        for t1 in t3:
            for t2 in t3:
                yield {"n": 3, "tables": [t1, t2], "reps": 1}
        for trip in itertools.product(t3[:6], repeat=3):
            yield {"n": 3, "tables": list(trip), "reps": 1}
        for t1 in t3[:8]:
            yield {"n": 3, "tables": [t1, t3[0]], "reps": 2}


def constraint_array(table, n):
    c = np.zeros((2,) * n)
    for asg in itertools.product((0, 1), repeat=n):
        c[asg] = rg.bcs_eval(table, n, asg)
    return c


def bcs_check(case):
    from toqito.nonlocal_games.nonlocal_game import NonlocalGame

    n, tables, reps = case["n"], case["tables"], case["reps"]
    cons = [constraint_array(t, n) for t in tables]
    # memory layout of the caller's truth tables: row-major, column-major copy, or a transposed view of the transposed table (added after
    # seeded change C07-10, which read the tables in memory order)
    lay = case.get("layout", "C")
    if lay == "F":
        cons = [np.asfortranarray(c) for c in cons]
    elif lay == "view":
        cons = [np.ascontiguousarray(np.transpose(c)).transpose() for c in cons]
    before = [c.copy() for c in cons]
    game, exc = call(NonlocalGame.from_bcs_game, cons, reps)
    if exc is not None:
        return viol("from_bcs_game raised on non-constant constraints: " + exc_text(exc), site="from_bcs_game:exception")
    if any(not np.array_equal(a, b) for a, b in zip(cons, before)):
        return viol("from_bcs_game modified the caller's constraints", site="from_bcs_game:mutates")
    nontriv = len(tables) >= 2 or n >= 2
    if game.reps != reps:
        return viol(f"reps not forwarded: {game.reps!r} != {reps}", site="from_bcs_game:reps", nontrivial=nontriv)
    gp, gv = np.asarray(game.prob_mat), np.asarray(game.pred_mat)
    matched = False
    detail = ""
    for msb in (True, False):
        prob, pred = rg.bcs_game(tables, n, msb_first=msb)
        if reps > 1:
            prob, pred = rg.product_game(prob, pred, reps)
        ep, ev = to_np(prob), to_np(pred)
        if gp.shape != ep.shape or np.max(np.abs(gp - ep)) > 1e-12:
            return viol("prob_mat is not uniform over constraints x uniform over the variables each constraint depends on",
                        site="from_bcs_game:prob", observed=gp, expected=ep, nontrivial=nontriv)
        if gv.shape == ev.shape and np.array_equal(gv, ev):
            matched = True
            break
        if not detail:
            if gv.shape != ev.shape:
                detail = f"shape {gv.shape} vs {ev.shape}"
            else:
                detail = "first differing (a,b,x,y) = " + str([int(i) for i in np.argwhere(gv != ev)[0]])
    if not matched:
        return viol("pred_mat is not 1 exactly on (assignment satisfies constraint x) and (b = value of variable y): " + detail,
                    site="from_bcs_game:pred", nontrivial=nontriv)
    return ok(nontriv)


# ================================================================================================ C07.order
ORDER_SHAPES = [[2, 2, 2, 2], [3, 2, 2, 2], [2, 3, 2, 2], [2, 2, 3, 2], [2, 2, 2, 3], [3, 3, 2, 2], [2, 2, 3, 3]]
ORDER_PATS = ["eq", "sh1", "and0", "neq", "or1"]
CORE_PATS = ["eq", "neq", "and0", "or1"]
DEFAULT_GAME = {"shape": [2, 2, 2, 2], "pats": "eq,eq,eq,neq"}


def order_games():
    """The 'game' axis: (shape, per-question pattern string[, own distribution])."""
    out = []
    for shape in ORDER_SHAPES:
        A, B, X, Y = shape
        p4 = pattern_alphabet(A, B, 4, ORDER_PATS)
        p2 = p4[:2]
        fam = []
        for k in (0, 1):
            fam.append(formula_patterns(X, Y, "xy", p2, k))
            fam.append(formula_patterns(X, Y, "x+y", p2, k))
            fam.append(formula_patterns(X, Y, "x+2y", p4, k))
        for k in range(4):
            fam.append(formula_patterns(X, Y, "xy", p4, k))
        seen = []
        for f in fam:
            f = canonical_names(A, B, f)
            if f not in seen:
                seen.append(f)
                out.append({"shape": shape, "pats": f})
    # odd cycle n = 3 (quantum advantage): a = b on x = y, a != b on y = x + 1, own distribution
    out.append({"shape": [2, 2, 3, 3], "pats": ",".join("eq" if x == y else ("neq" if y == (x + 1) % 3 else "win")
                                                        for x in range(3) for y in range(3)), "dist": "cycle"})
    return out


def _order_case(game, dist="uniform", frac=False, reps=1, origin="dev"):
    c = {"shape": game["shape"], "pats": game["pats"], "prob": game.get("dist", dist), "frac": frac, "reps": reps, "origin": origin}
    return c


def _case_classical(case):
    shape = case["shape"]
    A, B, X, Y = shape
    prob = build_prob(X, Y, case["prob"])
    pred = build_pred(shape, ("fpat:" if case["frac"] else "pat:") + case["pats"])
    return prob, pred


def order_cases(tier, seed):
    seen = set()

    def emit(c):
        key = (tuple(c["shape"]), c["pats"], c["prob"], c["frac"], c["reps"])
        if key in seen:
            return None
        seen.add(key)
        return c
    # k = 0
    c = emit(_order_case(DEFAULT_GAME, origin="default"))
    yield c
    games = order_games()
    dists = ["skew", "zero", "g0", "g1"]
    small = [g for g in games if cells(g["shape"]) <= 24]
    # k = 1: one axis away from the default, whole alphabet of that axis
    k1 = [_order_case(g, origin="k1:game") for g in games]
    k1 += [_order_case(DEFAULT_GAME, dist=d, origin="k1:dist") for d in dists]
    k1 += [_order_case(DEFAULT_GAME, frac=True, origin="k1:frac"), _order_case(DEFAULT_GAME, reps=2, origin="k1:reps")]
    for c in k1:
        c = emit(c)
        if c:
            yield c
    # core: full product of the 4-pattern alphabet on (2,2,2,2)
    for combo in itertools.product(CORE_PATS, repeat=4):
        for d in ("uniform", "skew"):
            c = _order_case({"shape": [2, 2, 2, 2], "pats": ",".join(combo)}, dist=d, origin="core")
            if tier == "quick":
                prob, pred = _case_classical(c)
                if rg.classical_best_response(prob, pred) >= 1:
                    continue
            c = emit(c)
            if c:
                yield c
    if tier == "thorough":
        k2 = []
        for g in games:
            if "dist" not in g:
                k2 += [_order_case(g, dist=d, origin="k2:game,dist") for d in dists]
            k2.append(_order_case(g, frac=True, origin="k2:game,frac"))
        for g in small:
            k2.append(_order_case(g, reps=2, origin="k2:game,reps"))
        for d in dists:
            k2.append(_order_case(DEFAULT_GAME, dist=d, frac=True, origin="k2:dist,frac"))
            k2.append(_order_case(DEFAULT_GAME, dist=d, reps=2, origin="k2:dist,reps"))
        k2.append(_order_case(DEFAULT_GAME, frac=True, reps=2, origin="k2:frac,reps"))
        for c in k2:
            c = emit(c)
            if c:
                yield c


def order_alphabets(tier, seed):
    return {"shapes": ORDER_SHAPES, "games_axis": len(order_games()), "core": "4^4 assignments of " + ",".join(CORE_PATS),
            "distributions": ["uniform", "skew", "zero", "g0", "g1", "cycle (odd cycle only)"], "value_sets": ["{0,1}", "{0,1/2,1}"],
            "reps": [1, 2], "npa_levels": [1, "1+ab", 2], "deviation_level_completed": 1 if tier == "quick" else 2,
            "entropy_tape": "t0"}


def _solver_failure(exc):
    name = type(exc).__name__
    return name in ("SolverError", "DCPError") or (isinstance(exc, TypeError) and "NoneType" in str(exc))


def order_check(case):
    from toqito.nonlocal_games.nonlocal_game import NonlocalGame
    from mc.own import entropy_tape

    shape, reps = case["shape"], case["reps"]
    prob, pred = _case_classical(case)
    if reps > 1:
        prob_r, pred_r = rg.product_game(prob, pred, reps)
    else:
        prob_r, pred_r = prob, pred
    c_ref = rg.classical_best_response(prob_r, pred_r, "bob")
    game, exc = call(NonlocalGame, to_np(prob), to_np(pred), reps)
    if exc is not None:
        return viol("constructor raised: " + exc_text(exc), site="NonlocalGame:exception")
    d0 = digest_game(game)
    vals = {}
    c_toq, exc = call(game.classical_value)
    if exc is not None:
        return viol("classical_value raised: " + exc_text(exc), site="classical_value:exception")
    vals["classical"] = float(c_toq)
    vals["classical_exact"] = float(c_ref)
    levels = [1, "1+ab", 2] if reps == 1 else [1]
    ncalls = 1
    for k in levels:
        v, exc = call(game.commuting_measurement_value_upper_bound, k)
        ncalls += 1
        if exc is not None:
            if _solver_failure(exc):
                return indet(f"NPA level {k}: solver failure {exc_text(exc)}")
            return viol(f"NPA level {k} raised: " + exc_text(exc), site="npa:exception")
        if v is None or not np.isfinite(v):
            return indet(f"NPA level {k}: solver returned {v!r}")
        vals[f"npa:{k}"] = float(v)
    v, exc = call(game.nonsignaling_value)
    ncalls += 1
    if exc is not None:
        if _solver_failure(exc):
            return indet("non-signaling: solver failure " + exc_text(exc))
        return viol("nonsignaling_value raised: " + exc_text(exc), site="ns:exception")
    if v is None or not np.isfinite(v):
        return indet(f"non-signaling: solver returned {v!r}")
    vals["ns"] = float(v)
    if reps == 1:
        with entropy_tape("t0"):
            v, exc = call(game.quantum_value_lower_bound, 2, 1)
        ncalls += 1
        if exc is not None:
            if _solver_failure(exc):
                return indet("see-saw: solver failure " + exc_text(exc))
            return viol("quantum_value_lower_bound raised: " + exc_text(exc), site="qlb:exception")
        if v is None or not np.isfinite(v):
            return indet(f"see-saw: solver returned {v!r}")
        vals["qlb"] = float(v)
    nontriv = c_ref < 1
    if digest_game(game) != d0:
        return viol("computing the values changed prob_mat / pred_mat / reps", site="order:mutates", nontrivial=nontriv)
    eps = SCS_TOL
    chain = []
    ups = [f"npa:{k}" for k in levels]
    for u in ups:
        chain.append(("classical_exact", u))
        chain.append(("classical", u))
        if "qlb" in vals:
            chain.append(("qlb", u))
        chain.append((u, "ns"))
    if reps == 1:
        chain.append(("npa:2", "npa:1+ab"))
        chain.append(("npa:1+ab", "npa:1"))
    for lo, hi in chain:
        if vals[lo] > vals[hi] + eps:
            return viol(f"ordering violated: {lo} = {vals[lo]:.6f} > {hi} = {vals[hi]:.6f} (slack {eps})",
                        site=f"order:{lo.split(':')[0]}<={hi.split(':')[0]}", observed=vals, expected=f"{lo} <= {hi}",
                        nontrivial=nontriv)
    if vals["ns"] > 1 + eps:
        return viol(f"non-signaling value {vals['ns']:.6f} > 1", site="order:ns<=1", observed=vals, nontrivial=nontriv)
    # trivial cap valid for ANY strategy: sum_xy pi(x,y) max_ab V(a,b|x,y)  (added after seeded change C07-3)
    A_, B_ = len(pred_r), len(pred_r[0])
    X_, Y_ = len(prob_r), len(prob_r[0])
    cap = float(sum(prob_r[x][y] * max(pred_r[a][b][x][y] for a in range(A_) for b in range(B_)) for x in range(X_) for y in range(Y_)))
    for name, val in vals.items():
        if val > cap + eps:
            return viol(f"{name} = {val:.6f} exceeds the trivial cap sum_xy pi(x,y) max_ab V(a,b|x,y) = {cap:.6f}", site=f"order:{name.split(':')[0]}<=cap",
                        observed=vals, expected=cap, nontrivial=nontriv)
    if reps == 1:
        # scaling relation: halving every predicate entry halves every value (exposes an objective that ignores the VALUES of V)
        half = [[[[pred[a][b][x][y] / 2 for y in range(Y_)] for x in range(X_)] for b in range(B_)] for a in range(A_)]
        g2, exc = call(NonlocalGame, to_np(prob), to_np(half), 1)
        if exc is not None:
            return viol("constructor raised on the halved predicate: " + exc_text(exc), site="NonlocalGame:exception")
        c2, exc = call(g2.classical_value)
        if exc is not None or abs(float(c2) - vals["classical"] / 2) > FLOAT_TOL:
            return viol(f"classical value of the halved game {c2!r} != half of {vals['classical']!r}", site="order:halved:classical", observed=repr(c2),
                        expected=vals["classical"] / 2, nontrivial=nontriv)
        n2, exc = call(g2.commuting_measurement_value_upper_bound, 1)
        ncalls += 2
        if exc is not None:
            if _solver_failure(exc):
                return indet("NPA level 1 of the halved game: solver failure " + exc_text(exc))
            return viol("NPA level 1 raised on the halved game: " + exc_text(exc), site="npa:exception")
        if n2 is None or not np.isfinite(n2):
            return indet(f"NPA level 1 of the halved game: solver returned {n2!r}")
        if abs(float(n2) - vals["npa:1"] / 2) > eps:
            return viol(f"NPA level 1 of the halved game = {float(n2):.6f}, half of the original = {vals['npa:1'] / 2:.6f}", site="order:halved:npa",
                        observed=float(n2), expected=vals["npa:1"] / 2, nontrivial=nontriv)
    if vals["classical"] > 1 + FLOAT_TOL or min(vals.values()) < -eps:
        return viol("a value lies outside [0, 1]", site="order:range", observed=vals, nontrivial=nontriv)
    return ok(nontriv, obs=[round(vals[k], 9) for k in sorted(vals)], calls=ncalls, values=vals)


# ================================================================================================ C07.history
HISTORY_GAMES = [
    {"name": "chsh", "kind": "nl", "shape": [2, 2, 2, 2], "pred": "pat:eq,eq,eq,neq", "prob": "uniform", "reps": 1},
    {"name": "asym", "kind": "nl", "shape": [2, 3, 2, 2], "pred": "pat:eq,sh1,and0,eq", "prob": "skew", "reps": 1},
    {"name": "frac", "kind": "nl", "shape": [2, 2, 2, 2], "pred": "fpat:eq,neq,and0,neq", "prob": "g0", "reps": 1},
    {"name": "reps2", "kind": "nl", "shape": [2, 2, 2, 1], "pred": "pat:eq,neq", "prob": "skew", "reps": 2},
    {"name": "bcs", "kind": "bcs", "n": 2, "tables": [9, 6], "reps": 1},
    {"name": "oneq", "kind": "nl", "shape": [2, 2, 1, 2], "pred": "pat:eq,and0", "prob": "skew", "reps": 1},
    {"name": "asym2", "kind": "nl", "shape": [3, 2, 2, 1], "pred": "pat:sh1,eq", "prob": "zero", "reps": 1},
    {"name": "bcs_reps2", "kind": "bcs", "n": 1, "tables": [2, 1], "reps": 2},
]
EVENTS_QUICK = ["classical", "ns", "npa:1", "qlb"]
EVENTS_THOROUGH = ["classical", "ns", "npa:1", "qlb", "npa:1+ab"]


def history_cases(tier, seed):
    for g in HISTORY_GAMES:
        c = dict(g)
        c["events"] = EVENTS_QUICK if tier == "quick" else EVENTS_THOROUGH
        c["depth"] = 2 if tier == "quick" else 3
        yield c


def _make_history_game(case):
    from toqito.nonlocal_games.nonlocal_game import NonlocalGame

    if case["kind"] == "bcs":
        cons = [constraint_array(t, case["n"]) for t in case["tables"]]
        return NonlocalGame.from_bcs_game(cons, case["reps"]), cons
    A, B, X, Y = case["shape"]
    prob = to_np(build_prob(X, Y, case["prob"]))
    pred = to_np(build_pred(case["shape"], case["pred"]))
    return NonlocalGame(prob, pred, case["reps"]), [prob, pred]


def history_check(case):
    from mc.history import explore
    from mc.own import digest, entropy_tape

    def make():
        game, args = _make_history_game(case)
        game._verif_args = (args, digest(*args))
        return game

    def apply(game, ev):
        if ev == "classical":
            v, exc = call(game.classical_value)
        elif ev == "ns":
            v, exc = call(game.nonsignaling_value)
        elif ev.startswith("npa:"):
            k = ev[4:]
            v, exc = call(game.commuting_measurement_value_upper_bound, int(k) if k.isdigit() else k)
        elif ev == "qlb":
            with entropy_tape("t0"):
                v, exc = call(game.quantum_value_lower_bound, 2, 1)
        else:
            raise KeyError(ev)
        if exc is not None:
            return "EXC:" + exc_text(exc)
        return None if v is None else float(v)

    def dg(game):
        return digest_game(game)

    init = {}

    def invariant(game, hist):
        if "d0" not in init:
            g0, _ = _make_history_game(case)
            init["d0"] = digest_game(g0)
        if digest_game(game) != init["d0"]:
            return "prob_mat / pred_mat / reps differ from the freshly constructed game"
        args, d_args = game._verif_args
        if digest(*args) != d_args:
            return "the arrays passed to the constructor were modified"
        return None

    def same(a, b, ev):
        if isinstance(a, str) or isinstance(b, str) or a is None or b is None:
            return a == b
        if ev == "classical":
            return a == b
        return abs(a - b) <= 1e-9

    stats, violations = explore(make, case["events"], apply, dg, invariant, same, case["depth"])
    # base values: an exception from the initial state means the menu is not runnable on this game
    base_exc = None
    for ev in case["events"]:
        g = make()
        v = apply(g, ev)
        if isinstance(v, str) or v is None:
            base_exc = (ev, v)
    info = {"states": stats["states"], "transitions": stats["transitions"] + 3 * len(case["events"]), "histories": stats["histories"],
            "max_depth": stats["max_depth"], "replayed_twice": stats["replayed_twice"]}
    if violations:
        v = violations[0]
        detail = {"invariant": "game object changed after history ", "differential": "value after history differs from the value "
                  "from the initial state: ", "nondeterministic": "same single-event history gave two different values: "}[v["kind"]]
        return viol(detail + str(v["history"]) + " " + str({k: v[k] for k in v if k not in ("kind", "history")}),
                    site="history:" + v["kind"], observed={k: v[k] for k in v if k != "kind"}, n_violations=len(violations), **info)
    if base_exc is not None:
        if "SolverError" in str(base_exc[1]):
            return indet(f"event {base_exc[0]} fails from the initial state: {base_exc[1]}")
        return viol(f"event {base_exc[0]} gives no value from the initial state: {base_exc[1]}", site="history:exception", **info)
    return ok(True, obs=[stats["states"], stats["transitions"], stats["histories"]], **info)


# ================================================================================================ clauses
CLAUSES = [
    Clause("C07.classical_exact", classical_cases, classical_check, tol="exact reference; float result within 1e-9",
           doc="classical_value == exact max over all pairs of deterministic answer functions; arrays untouched",
           alphabets=classical_alphabets, weight=0.001),
    Clause("C07.classical_large", large_cases, large_check, tol="exact reference; float result within 1e-9",
           doc="same on shapes with 4-5 answers / up to 11 questions; the >1000-strategy multiprocessing.Pool branch; lopsided games (one side with >= 2^63 strategies); near-perfect fractional predicates",
           chunk=1, weight=1.0),
    Clause("C07.product_game", product_cases, product_check, tol="exact (1e-12 on float products)",
           doc="NonlocalGame(reps=r): prob_mat = pi^(x)r, pred_mat = prod_k V(a_k,b_k|x_k,y_k) in Kronecker order, reps kept; classical "
               "value of the product game exact", weight=0.01),
    Clause("C07.bcs", bcs_cases, bcs_check, tol="exact",
           doc="from_bcs_game: V = 1 iff assignment satisfies constraint x and b = a_y; pi uniform x uniform over dependent variables; "
               "reps forwarded", weight=0.002),
    Clause("C07.order", order_cases, order_check, tol="scs(1e-3)",
           doc="classical (toqito and exact) <= NPA_k, see-saw value <= NPA_k, NPA_2 <= NPA_1+ab <= NPA_1 <= NS <= 1; object unchanged",
           chunk=1, probe=2, alphabets=order_alphabets, weight=3.0),
    Clause("C07.history", history_cases, history_check, tol="exact (classical) / 1e-9 (SDP values)",
           doc="BFS over call histories with the real methods as transitions: prob_mat/pred_mat/reps bitwise unchanged in every "
               "state, every value equals the value from the initial state", chunk=1, probe=1, weight=30.0),
]
