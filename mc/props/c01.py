"""C01 — subsystem permutation is exactly tensor-factor relabelling (exact, full product over configurations)."""

from __future__ import annotations

import itertools

import numpy as np
from scipy import sparse

from mc.engine import Clause, call, exc_text, ok, viol
from mc.ref import tensor_index as ti

RULE = ("case = (input kind, row dims, col dims, perm, row_only, inv_perm, dim form, storage, entry labelling); every case "
        "of the listed alphabets is executed; non-trivial iff perm != identity and (>=2 distinct local dims or perm "
        "non-involutive or rectangular); compared cell by cell with an integer index oracle")
ASSUMPTIONS = ["numpy reshape/transpose/fancy indexing move entries without arithmetic (checked by running every "
               "configuration on formal string labels and on two unrelated numeric labelings)",
               "shapes bounded: n<=4 (quick) / n<=5 (thorough) subsystems, local dims in {1,2,3} (4 for a few)"]


# ------------------------------------------------------------------------------------------------ builders
def labelled(rows: int, cols: int | None, entries: str):
    """Array with pairwise distinct labels; cols None => 1-D."""
    c = 1 if cols is None else cols
    idx = np.arange(rows * c, dtype=np.int64).reshape(rows, c)
    if entries == "sym":
        a = np.empty((rows, c), dtype=object)
        for r in range(rows):
            for k in range(c):
                a[r, k] = f"x{r}_{k}"
    elif entries == "int":
        a = idx + 1
    elif entries == "intB":
        a = (idx * 7919 + 13) % 1000003 + 1
    elif entries == "float":
        a = idx * 1.25 + 0.5
    elif entries == "complex":
        a = (idx + 1) + 1j * ((idx * 7919 + 13) % 10007)
    elif entries == "corner":  # support confined to the top-left quadrant: the permuted operator has empty trailing rows / columns, so a
        # sparse result whose shape is inferred from the occupied indices comes out too small (added after seeded change C01-13)
        rr, cc = np.divmod(idx, c)
        a = np.where((rr < (rows + 1) // 2) & (cc < (c + 1) // 2), (idx * 7919 + 13) % 1000003 + 1, 0)
    elif entries in ("neardiag", "nearzero"):  # looks diagonal / zero to np.allclose, is not (entries k * 2^-40, exact)
        a = (idx % 8191 + 1) * 2.0 ** -40
        if entries == "neardiag":
            rr, cc = np.divmod(idx, c)
            a = np.where(rr == cc, 2.0 ** 20 * (idx + 1), a)
    elif entries == "ctiny":  # imaginary parts of order 1e-15: a relabelling may not apply an absolute threshold to its entries
        a = (idx + 1) + 1j * (((idx * 7919 + 13) % 10007) * 2.0 ** -60)
    else:
        raise KeyError(entries)
    if cols is None:
        return a[:, 0].copy()
    return a


def q_of(perm, inv):
    return ti.argsort_perm(perm) if inv else list(perm)


def expected_matrix(X, rdims, cdims, perm, row_only, inv):
    q = q_of(perm, inv)
    rs = ti.gather_for_perm(rdims, q)
    out = X[rs, :]
    if not row_only:
        cs = ti.gather_for_perm(cdims, q)
        out = out[:, cs]
    return out


def same(a, b) -> bool:
    a = np.asarray(a)
    b = np.asarray(b)
    if a.shape != b.shape:
        return False
    if a.dtype == object or b.dtype == object:
        return all(x == y for x, y in zip(a.ravel().tolist(), b.ravel().tolist()))
    return bool(np.array_equal(a, b))


def nontrivial(rdims, cdims, perm):
    ident = list(perm) == list(range(len(perm)))
    invol = all(perm[perm[k]] == k for k in range(len(perm)))
    return (not ident) and (len(set(rdims)) > 1 or not invol or list(rdims) != list(cdims))


def dims_alphabet(tier):
    """(n, list of dim vectors)"""
    out = []
    for n in (1, 2, 3):
        out += [list(d) for d in itertools.product((1, 2, 3), repeat=n)]
    out += [list(d) for d in itertools.product((1, 2), repeat=4)]
    if tier == "thorough":
        out += [list(d) for d in itertools.product((1, 2, 3), repeat=4) if 3 in d]
        out += [[2] * 5, [2, 1, 2, 2, 2], [4, 2], [2, 4], [4, 4, 4], [2, 4, 3]]
    return out


def col_variants(rd):
    vs = [("same", list(rd)), ("rev", list(rd[::-1])), ("shift", list(rd[1:] + rd[:1]))]
    seen, out = set(), []
    for name, v in vs:
        if tuple(v) not in seen:
            seen.add(tuple(v))
            out.append((name, v))
    return out


# ------------------------------------------------------------------------------------------------ C01.index
def many_cases(tier):
    """17..24 subsystems most of which are one-dimensional (cf. seeded change C02-9: bookkeeping that is only right up to 16 subsystems)."""
    for n in (17, 20, 24):
        for places in ((3, 12, 13), (0, 1, n - 1), (5, n // 2, n - 2)):
            rd = [1] * n
            for pl, v in zip(places, (2, 3, 2)):
                rd[pl] = v
            a, b, c = places
            swap_ab = list(range(n)); swap_ab[a], swap_ab[b] = b, a
            cyc = list(range(n)); cyc[a], cyc[b], cyc[c] = b, c, a
            for perm in (swap_ab, cyc, list(range(1, n)) + [0], list(range(n - 1, -1, -1))):
                for inv in (False, True):
                    yield {"kind": "vec1d", "rdims": rd, "cdims": None, "perm": perm, "row_only": False, "inv": inv,
                           "dimform": "flat", "storage": "dense", "entries": "int"}
                    yield {"kind": "mat", "rdims": rd, "cdims": rd, "perm": perm, "row_only": False, "inv": inv,
                           "dimform": "flat", "storage": "dense", "entries": "complex"}


def awkward_cases(tier):
    """Local dimensions whose products are numbers n with (1/n)*n != 1 in floating point (49, 98, 103; cf. seeded change C03-9)."""
    for rd in ([7, 7], [7, 7, 2], [2, 7, 7], [49, 2], [2, 49], [103, 1]):
        n = len(rd)
        for perm in itertools.permutations(range(n)):
            for inv in (False, True):
                yield {"kind": "vec1d", "rdims": rd, "cdims": None, "perm": list(perm), "row_only": False, "inv": inv,
                       "dimform": "flat", "storage": "dense", "entries": "int"}
                for form in ("flat", "2row"):
                    yield {"kind": "mat", "rdims": rd, "cdims": rd, "perm": list(perm), "row_only": False, "inv": inv,
                           "dimform": form, "storage": "dense", "entries": "int"}


def index_cases(tier, seed):
    yield from root_cases(tier)
    yield from many_cases(tier)
    yield from awkward_cases(tier)
    for rd in dims_alphabet(tier):
        n = len(rd)
        R = ti.prod(rd)
        perms = list(itertools.permutations(range(n)))
        if n == 5:
            perms = [p for p in perms if p[0] in (0, 1, 4)]  # 72 of 120, contains all cycle types
        for perm in perms:
            for inv in (False, True):
                # vectors
                for kind in (("vec1d", "col") if R >= 2 else ()):
                    for dimform in ("flat", "ndarray") + (("omitted",) if len(set(rd)) == 1 else ()):
                        for ent in ("sym", "int", "complex"):
                            yield {"kind": kind, "rdims": rd, "cdims": None, "perm": list(perm), "row_only": False, "inv": inv,
                                   "dimform": dimform, "storage": "dense", "entries": ent}
                if R >= 2:  # sparse column vectors (n x 1 csr), added after seeded change C01-9
                    for ent in ("int", "complex"):
                        yield {"kind": "col", "rdims": rd, "cdims": None, "perm": list(perm), "row_only": False, "inv": inv,
                               "dimform": "flat", "storage": "csr", "entries": ent}
                if R < 2:
                    continue
                for cname, cd in col_variants(rd):
                    C = ti.prod(cd)
                    if C < 2:
                        continue
                    for row_only in (False, True):
                        forms = ["2row"]
                        if cd == rd:
                            forms += ["flat", "ndarray"]
                        if len(set(rd)) == 1 and len(set(cd)) == 1:
                            forms += ["omitted"]
                        for dimform in forms:
                            for storage in ("dense", "csr"):
                                ents = ("sym", "int", "intB", "float", "complex", "ctiny", "neardiag", "nearzero") if storage == "dense" else ("int", "complex", "corner")
                                if R * C > 400:
                                    ents = ents[:2]
                                for ent in ents:
                                    yield {"kind": "mat", "rdims": rd, "cdims": cd, "perm": list(perm), "row_only": row_only,
                                           "inv": inv, "dimform": dimform, "storage": storage, "entries": ent}


def root_cases(tier):
    """Omitted dim on n equal subsystems of local dimension d for every (d, n) with d^n <= 4096 (thorough 20000): the local dimension has
    to be recovered from the total size, and the floating-point n-th root of d^n is not always d (64 ** (1/3) = 3.9999999999999996).
    Added after seeded change C01-8, which truncated that root."""
    cap = 4096 if tier == "quick" else 20000
    for n in range(2, 13):
        for d in range(2, 65):
            if d ** n > cap or (d <= 3 and n <= 3):
                continue
            rd = [d] * n
            perms = {tuple(range(1, n)) + (0,), tuple(range(n - 1, -1, -1)), (1, 0) + tuple(range(2, n))}
            for perm in sorted(perms):
                for kind in ("vec1d", "col"):
                    yield {"kind": kind, "rdims": rd, "cdims": None, "perm": list(perm), "row_only": False, "inv": False,
                           "dimform": "omitted", "storage": "dense", "entries": "int"}
                if d ** n <= 128:
                    for storage in ("dense", "csr"):
                        yield {"kind": "mat", "rdims": rd, "cdims": rd, "perm": list(perm), "row_only": False, "inv": True,
                               "dimform": "omitted", "storage": storage, "entries": "int"}


def make_dim_arg(case):
    rd, cd, form = case["rdims"], case["cdims"], case["dimform"]
    if form == "omitted":
        return None
    if form == "flat":
        return list(rd)
    if form == "ndarray":
        return np.array(rd)
    if form == "2row":
        return [list(rd), list(cd)]
    raise KeyError(form)


def index_check(case):
    from toqito.perms import permute_systems

    rd, cd, perm = case["rdims"], case["cdims"], case["perm"]
    R = ti.prod(rd)
    kind = case["kind"]
    if kind == "mat":
        C = ti.prod(cd)
        X = labelled(R, C, case["entries"])
        exp = expected_matrix(X, rd, cd, perm, case["row_only"], case["inv"])
        arg = sparse.csr_matrix(X) if case["storage"] == "csr" else X
        perm_arg = np.array(perm) if case["dimform"] == "ndarray" else list(perm)
        dim_arg = make_dim_arg(case)
        dim_snap = None if dim_arg is None else np.asarray(dim_arg).tolist()
        x_snap = X.copy()
        got, exc = call(permute_systems, arg, perm_arg, dim_arg, case["row_only"], case["inv"])
        if exc is not None:
            return viol("permute_systems raised on an in-domain configuration: " + exc_text(exc), site="permute_systems:exception")
        if list(np.asarray(perm_arg).tolist()) != list(perm) or (dim_arg is not None and np.asarray(dim_arg).tolist() != dim_snap) or not same(X, x_snap):
            return viol("permute_systems modified one of the caller's arguments (perm / dim / input)", site="permute_systems:aliasing")
        if sparse.issparse(got):
            got = got.toarray()
        if not same(got, exp):
            return viol("output is not the index permutation of the input", site="permute_systems:matrix",
                        observed=np.asarray(got).tolist() if np.asarray(got).size <= 36 else None,
                        expected=exp.tolist() if exp.size <= 36 else None)
        return ok(nontrivial(rd, cd, perm))
    # vectors
    v = labelled(R, None, case["entries"])
    q = q_of(perm, case["inv"])
    exp = v[ti.gather_for_perm(rd, q)]
    if kind == "vec1d":
        arg = v
    elif kind == "col":
        arg = v.reshape(-1, 1)
    else:
        arg = v.reshape(1, -1)
    if case["storage"] == "csr":
        arg = sparse.csr_matrix(arg)
    got, exc = call(permute_systems, arg, list(perm), make_dim_arg(case), False, case["inv"])
    if exc is not None:
        return viol("permute_systems raised on a vector: " + exc_text(exc), site="permute_systems:exception")
    if sparse.issparse(got):
        got = got.toarray()
    if not same(np.asarray(got).ravel(), exp):
        return viol("vector output is not the index permutation", site="permute_systems:vector",
                    observed=np.asarray(got).ravel().tolist()[:36], expected=exp.tolist()[:36])
    return ok(nontrivial(rd, rd, perm))


# ------------------------------------------------------------------------------------------------ C01.factor
def factor_cases(tier, seed):
    for rd in dims_alphabet(tier):
        n = len(rd)
        if n > 4:
            continue
        for cname, cd in col_variants(rd):
            if ti.prod(rd) < 2 or ti.prod(cd) < 2:
                continue
            for perm in itertools.permutations(range(n)):
                for inv in (False, True):
                    yield {"rdims": rd, "cdims": cd, "perm": list(perm), "inv": inv, "vector": False}
        for perm in itertools.permutations(range(n)):
            for inv in (False, True):
                yield {"rdims": rd, "cdims": [1] * n, "perm": list(perm), "inv": inv, "vector": True}


def factor_check(case):
    """The statement literally: A_0 (x) ... (x) A_{n-1} -> A_{q[0]} (x) ... with distinct primes (unique factorisation)."""
    from toqito.perms import permute_systems

    rd, cd, perm, inv = case["rdims"], case["cdims"], case["perm"], case["inv"]
    q = q_of(perm, inv)
    factors = ti.prime_factors(list(zip(rd, cd)))
    X = np.array(ti.kron_lists(factors), dtype=object)
    exp = np.array(ti.kron_lists([factors[k] for k in q]), dtype=object)
    if max(int(x) for x in X.ravel()) < 2**62:
        X = X.astype(np.int64)
        exp = exp.astype(np.int64)
    if case["vector"]:
        got, exc = call(permute_systems, X[:, 0].copy(), list(perm), list(rd), False, inv)
        exp = exp[:, 0]
    else:
        got, exc = call(permute_systems, X, list(perm), [list(rd), list(cd)], False, inv)
    if exc is not None:
        return viol("permute_systems raised: " + exc_text(exc), site="permute_systems:exception")
    if not same(np.asarray(got).reshape(exp.shape) if np.asarray(got).size == exp.size else got, exp):
        return viol("kron(A_0..A_{n-1}) did not become kron(A_{p[0]}..A_{p[n-1]})", site="permute_systems:factor")
    return ok(nontrivial(rd, cd, perm))


# ------------------------------------------------------------------------------------------------ C01.inverse / row_only
def derived_cases(tier, seed):
    for rd in dims_alphabet(tier):
        n = len(rd)
        if n > 4 or ti.prod(rd) < 2:
            continue
        for cname, cd in col_variants(rd):
            if ti.prod(cd) < 2:
                continue
            for perm in itertools.permutations(range(n)):
                yield {"rdims": rd, "cdims": cd, "perm": list(perm)}


def derived_check(case):
    from toqito.perms import permutation_operator, permute_systems

    rd, cd, perm = case["rdims"], case["cdims"], case["perm"]
    R, C = ti.prod(rd), ti.prod(cd)
    X = labelled(R, C, "complex")
    # inverse undoes forward when given the permuted dimensions
    Y, exc = call(permute_systems, X, perm, [rd, cd], False, False)
    if exc is not None:
        return viol("forward call raised: " + exc_text(exc), site="permute_systems:exception")
    prd = [rd[k] for k in perm]
    pcd = [cd[k] for k in perm]
    Z, exc = call(permute_systems, Y, perm, [prd, pcd], False, True)
    if exc is not None:
        return viol("inverse call raised: " + exc_text(exc), site="permute_systems:exception")
    if not same(Z, X):
        return viol("inverse option with permuted dims does not undo the forward call", site="permute_systems:inverse_undo")
    # and the other way round
    Y2, exc = call(permute_systems, X, perm, [rd, cd], False, True)
    if exc is None:
        q = ti.argsort_perm(perm)
        Z2, exc = call(permute_systems, Y2, perm, [[rd[k] for k in q], [cd[k] for k in q]], False, False)
    if exc is not None:
        return viol("inverse-then-forward raised: " + exc_text(exc), site="permute_systems:exception")
    if not same(Z2, X):
        return viol("forward with inverse-permuted dims does not undo the inverse call", site="permute_systems:inverse_undo")
    # row-only == left multiplication by the permutation operator (reference P and the library's own operator)
    for inv in (False, True):
        W, exc = call(permute_systems, X, perm, [rd, cd], True, inv)
        if exc is not None:
            return viol("row-only call raised: " + exc_text(exc), site="permute_systems:exception")
        P = np.array(ti.perm_matrix_for(rd, q_of(perm, inv)), dtype=np.int64)
        if not same(W, P @ X):
            return viol("row-only result != P X for the reference permutation matrix", site="permute_systems:row_only")
        Pt, exc = call(permutation_operator, list(rd), perm, inv, False)
        if exc is not None:
            return viol("permutation_operator raised: " + exc_text(exc), site="permutation_operator:exception")
        if not same(np.asarray(Pt).astype(np.int64), P) or not same(W, np.asarray(Pt) @ X):
            return viol("permutation_operator is not the matrix implementing permute_systems", site="permutation_operator:matrix")
    return ok(nontrivial(rd, cd, perm), calls=6)


# ------------------------------------------------------------------------------------------------ C01.swap
def swap_cases(tier, seed):
    for rd in dims_alphabet(tier):
        n = len(rd)
        if n < 2 or n > 4:
            continue
        for a, b in itertools.permutations(range(1, n + 1), 2):
            for cname, cd in col_variants(rd):
                for kind in ("mat", "vec1d", "col"):
                    if kind == "mat" and (ti.prod(rd) < 2 or ti.prod(cd) < 2):
                        continue
                    if kind != "mat" and cname != "same":
                        continue
                    forms = []
                    if kind != "mat" or cd == rd:
                        forms.append("flat")
                    if kind == "mat":
                        forms.append("2row")
                    if n == 2 and kind == "mat" and rd[0] == cd[0]:
                        forms.append("int")
                    if n == 2 and rd[0] == rd[1] and cd[0] == cd[1]:
                        forms.append("omitted")
                    for form in forms:
                        for row_only in ((False, True) if kind == "mat" else (False,)):
                            for sysform in ("list", "ndarray"):
                                yield {"rdims": rd, "cdims": cd if kind == "mat" else None, "sys": [a, b], "kind": kind,
                                       "dimform": form, "row_only": row_only, "sysform": sysform}
    # default sys (omitted) on bipartite inputs
    for d1, d2 in itertools.product((1, 2, 3), repeat=2):
        if d1 * d2 >= 2:
            yield {"rdims": [d1, d2], "cdims": [d1, d2], "sys": None, "kind": "mat", "dimform": "flat", "row_only": False}
    # ... and on three and four subsystems, where the documented default [1, 2] differs from "first and last" (added after seeded change
    # C01-10), for operators, vectors and with sparse storage (added after seeded change C01-9: sparse vectors)
    for rd in ([2, 3, 2], [3, 2, 2], [2, 2, 3], [2, 2, 2, 2], [2, 3, 2, 3], [1, 2, 3]):
        for kind in ("mat", "vec1d", "col"):
            yield {"rdims": rd, "cdims": rd if kind == "mat" else None, "sys": None, "kind": kind, "dimform": "flat", "row_only": False}
    for rd in ([2, 3], [3, 2], [2, 3, 2], [2, 2, 2, 2]):
        n = len(rd)
        for a, b in itertools.permutations(range(1, n + 1), 2):
            for kind in ("mat", "col"):
                yield {"rdims": rd, "cdims": rd if kind == "mat" else None, "sys": [a, b], "kind": kind, "dimform": "flat", "row_only": False,
                       "sysform": "list", "storage": "csr"}


def swap_check(case):
    from toqito.perms import swap

    rd, cd, sys_, kind, form = case["rdims"], case["cdims"], case["sys"], case["kind"], case["dimform"]
    n = len(rd)
    perm = list(range(n))
    a, b = (sys_ if sys_ is not None else [1, 2])
    perm[a - 1], perm[b - 1] = perm[b - 1], perm[a - 1]
    R = ti.prod(rd)
    if form == "flat":
        dim = list(rd)
    elif form == "2row":
        dim = [list(rd), list(cd)]
    elif form == "int":
        dim = int(rd[0])
    else:
        dim = None
    sys_arg = sys_
    if sys_ is not None and case.get("sysform") == "ndarray":
        sys_arg = np.array(sys_)
    dim_arg = np.array(dim) if (isinstance(dim, list) and case.get("sysform") == "ndarray") else dim
    snap = (None if sys_arg is None else list(np.asarray(sys_arg).tolist()), None if dim_arg is None else np.asarray(dim_arg).tolist())
    if kind == "mat":
        X = labelled(R, ti.prod(cd), "complex")
        exp = expected_matrix(X, rd, cd, perm, case["row_only"], False)
        arg0 = X
    else:
        v = labelled(R, None, "complex")
        exp = v[ti.gather_for_perm(rd, perm)]
        arg0 = v if kind == "vec1d" else v.reshape(-1, 1)
    x_snap = arg0.copy()
    dense0 = arg0
    if case.get("storage") == "csr":
        arg0 = sparse.csr_matrix(arg0)
    for attempt in (1, 2):  # the same argument objects are passed twice: a call must not consume or alter its arguments
        if kind == "mat":
            got, exc = call(swap, arg0, sys_arg, dim_arg, case["row_only"]) if sys_ is not None else call(swap, arg0, None, dim_arg)
        elif sys_ is None:
            got, exc = call(swap, arg0, None, dim_arg)
        else:
            got, exc = call(swap, arg0, sys_arg, dim_arg)
        if exc is not None:
            return viol(f"swap raised on an in-domain configuration (call {attempt} with the same arguments): " + exc_text(exc),
                        site="swap:exception:" + form)
        g = np.asarray(got.toarray() if sparse.issparse(got) else got)
        if kind != "mat":
            g = g.ravel()
        if not same(g, exp):
            return viol(f"swap is not the transposition special case of permute_systems' reference (call {attempt})", site="swap:value:" + form)
        now = (None if sys_arg is None else list(np.asarray(sys_arg).tolist()), None if dim_arg is None else np.asarray(dim_arg).tolist())
        if now != snap or not same(arg0.toarray() if sparse.issparse(arg0) else arg0, x_snap):
            return viol("swap modified one of the caller's arguments (sys / dim / input)", site="swap:aliasing", observed=now, expected=snap)
    return ok(len(set(rd)) > 1 or n > 2, calls=2)


# ------------------------------------------------------------------------------------------------ C01.operators
def operator_cases(tier, seed):
    for rd in dims_alphabet(tier):
        n = len(rd)
        if n > 4 or ti.prod(rd) < 2:
            continue
        for perm in itertools.permutations(range(n)):
            for inv in (False, True):
                for sp in (False, True):
                    yield {"op": "perm", "dim": rd, "perm": list(perm), "inv": inv, "sparse": sp, "dimform": "list"}
                    if len(set(rd)) == 1:
                        yield {"op": "perm", "dim": rd, "perm": list(perm), "inv": inv, "sparse": sp, "dimform": "int"}
    ds = (1, 2, 3, 4) if tier == "quick" else (1, 2, 3, 4, 5, 6)
    for d1 in ds:
        for d2 in ds:
            if d1 * d2 < 2:
                continue
            for sp in (False, True):
                yield {"op": "swap", "dim": [d1, d2], "sparse": sp, "dimform": "list"}
                if d1 == d2:
                    yield {"op": "swap", "dim": [d1, d2], "sparse": sp, "dimform": "int"}


def operator_check(case):
    from toqito.perms import permutation_operator, swap_operator

    rd = case["dim"]
    if case["op"] == "perm":
        perm, inv = case["perm"], case["inv"]
        dim = list(rd) if case["dimform"] == "list" else int(rd[0])
        got, exc = call(permutation_operator, dim, perm, inv, case["sparse"])
        site = "permutation_operator"
        q = q_of(perm, inv)
    else:
        dim = list(rd) if case["dimform"] == "list" else int(rd[0])
        got, exc = call(swap_operator, dim, case["sparse"])
        site = "swap_operator"
        perm, q = [1, 0], [1, 0]
    if exc is not None:
        return viol(f"{site} raised: " + exc_text(exc), site=site + ":exception")
    if sparse.issparse(got):
        got = got.toarray()
    got = np.asarray(got)
    P = np.array(ti.perm_matrix_for(rd, q), dtype=np.int64)
    if got.shape != P.shape or not np.array_equal(got, P):
        return viol(f"{site} is not the reference permutation matrix", site=site + ":matrix")
    # defining action on product vectors of distinct primes: P (v_0 (x) ... ) = v_{q[0]} (x) ...
    vs = ti.prime_factors([(d, 1) for d in rd])
    v = np.array(ti.kron_lists(vs), dtype=object)[:, 0]
    exp = np.array(ti.kron_lists([vs[k] for k in q]), dtype=object)[:, 0]
    out = [sum(int(got[r, c]) * int(v[c]) for c in range(len(v)) if got[r, c]) for r in range(len(v))]
    if out != [int(x) for x in exp]:
        return viol(f"{site} does not send (x)v_k to (x)v_p[k]", site=site + ":action")
    if not np.array_equal(got.T @ got, np.eye(len(v))):
        return viol(f"{site} is not unitary", site=site + ":unitary")
    return ok(nontrivial(rd, rd, perm))


CLAUSES = [
    Clause("C01.index", index_cases, index_check, doc="permute_systems vs integer index oracle, all forms"),
    Clause("C01.factor", factor_cases, factor_check, doc="prime-filled Kronecker factors are relabelled"),
    Clause("C01.derived", derived_cases, derived_check, doc="inverse undoes forward; row-only = P X; permutation_operator consistent"),
    Clause("C01.swap", swap_cases, swap_check, doc="swap = transposition, 1-indexed, dim list/2-row/int/omitted"),
    Clause("C01.operators", operator_cases, operator_check, doc="permutation_operator / swap_operator dense+sparse = reference unitary"),
]

# every toqito call of this property is repeated with column-major copies of its array arguments (engine.call, layout twin)
for _c in CLAUSES:
    _c.layout_twin = True
    _c.strided_twin = True  # and with strided read-only views (engine.call)
    _c.repeat_twin = True  # repeated calls agree; scribbling over a returned array must not affect later calls (engine.call)
