"""C05 — dual and complementary maps satisfy their defining identities.

Kind 2 (sesquilinear): the identity  <Y, Phi(X)> = <Phi^*(Y), X>  is sesquilinear in (Y, X) and, through Phi, bilinear in the
Kraus operators, so it is decided on the full product basis
      A in {E_ab, iE_ab} x B in {E_cd, iE_cd} x X in {E_ef, iE_ef} x Y in {E_gh, iE_gh}
for every shape (out_r, in_r, out_c, in_c) of the alphabet (unequal input/output dimensions, independent left/right
shapes), in the flat / nested / pairs / Choi(+dims) representations; higher-rank families from the structured
catalogue + seed-derived generic operators follow.  The returned dual is applied both by the reference arithmetic
(attribution: dual_channel itself) and through toqito's apply_channel (the observation point named by the property).
The complementary channel is compared entry by entry with Tr(K_i rho K_j^dagger) on the operator basis of the input.
"""

from __future__ import annotations

import itertools

import numpy as np

from mc import catalog
from mc.engine import Clause, call, exc_text, is_deliberate_rejection, ok, rejected, viol
from mc.ref import channels as ch

RULE = ("case = one point of a clause's finite product space: (shape (out_r,in_r,out_c,in_c), operator keys or catalogue map, "
        "representation form, dims form) resp. (TP Kraus family key, d, r); inside a case ALL pairs (X, Y) of the operator bases "
        "{E, iE} of the input and output spaces (resp. all basis rho / all catalogue kets) are evaluated. Every case of the listed "
        "alphabets is executed. Non-trivial iff the reference map is non-zero and not invariant under all convention swaps at once "
        "(Choi matrix != its conjugate or != its transpose, or the four dimensions are not all equal); complementary clauses: "
        "rank >= 2 and the family is not real-diagonal. states = distinct cases, transitions = toqito API calls")
ASSUMPTIONS = [
    "numpy @, kron, conj, eigvalsh are correct (primitives of the reference, not the mechanism under test)",
    "alg tolerance 1e-9*max(1,|expected|) on entries O(1..100); spec tolerance 1e-6 for eigenvalue comparisons",
    "shapes bounded: local dims in {1,2,3} (quick) / {1,2,3,4} (thorough), rank <= 4; complementary families d in {2,3,4}, r <= 4 (d=4: r <= 2 in quick)",
    "boolean predicates (is_unital / is_trace_preserving, completeness check inside complementary_channel) are only judged on inputs "
    "whose deviation from the identity is either <= 1e-12 or >= 1e-3 (>= 100x the predicates' rtol=1e-5)",
    "is_trace_preserving is only called with the pairs and Choi forms (its behaviour on flat lists belongs to C06)",
]


def dims_alphabet(tier):
    return (1, 2, 3) if tier == "quick" else (1, 2, 3, 4)


def shapes4(tier):
    D = dims_alphabet(tier)
    return sorted(itertools.product(D, repeat=4), key=lambda s: (max(s), sum(s), s))


def cksum(m) -> float:
    m = np.asarray(m)
    w = np.arange(1, m.size + 1, dtype=float).reshape(m.shape)
    return round(float(np.sum(np.abs(m) * w)), 8)


def dims_arg(shape, form):
    o_r, i_r, o_c, i_c = shape
    if form == "none":
        return None
    if form == "vec":
        return [i_r, o_r]
    if form == "mat":
        return [[i_r, o_r], [i_c, o_c]]
    if form == "mat_nd":
        return np.array([[i_r, o_r], [i_c, o_c]])
    raise KeyError(form)


def dims_forms(shape):
    o_r, i_r, o_c, i_c = shape
    out = ["mat", "mat_nd"]
    if (i_r, o_r) == (i_c, o_c):
        out.append("vec")
    if i_r == o_r and i_c == o_c:
        out.append("none")
    return out


# ------------------------------------------------------------------------------------------------ shared machinery
def _same_representation(phi, D, form, shape):
    """The docstring promises the dual 'in the same representation'."""
    o_r, i_r, o_c, i_c = shape
    if form == "choi":
        if not isinstance(D, np.ndarray) or D.ndim != 2:
            return "dual of a Choi matrix is not returned as a (2-D) Choi matrix"
        if D.shape != (o_r * i_r, o_c * i_c):
            return "Choi matrix of the dual has the wrong shape (must be (out_r*in_r, out_c*in_c))"
        return None
    if not isinstance(D, list) or len(D) != len(phi):
        return "dual of a Kraus list must be a list of the same length"
    if form == "flat":
        if not all(isinstance(k, np.ndarray) and k.shape == (i_r, o_r) for k in D):
            return "dual of a flat list must be a flat list of (in x out) arrays"
        return None
    if not all(isinstance(x, list) and len(x) == len(p) for x, p in zip(D, phi)):
        return "dual of a nested list must have the same nesting"
    if form == "pairs":
        if not all(np.shape(x[0]) == (i_r, o_r) and np.shape(x[1]) == (i_c, o_c) for x in D):
            return "dual of a pairs list must consist of (in_r x out_r, in_c x out_c) operator pairs"
    elif not all(np.shape(k) == (i_r, o_r) for x in D for k in x):
        return "dual of a nested/row list must consist of (in x out) arrays"
    return None


def _observe_dual(D, form, shape, through_toqito):
    """Returns fn(Y) -> Phi^*(Y) for the returned dual description."""
    o_r, i_r, o_c, i_c = shape
    if through_toqito:
        from toqito.channel_ops import apply_channel

        def fn(Y):
            got, exc = call(apply_channel, Y.copy(), D)
            if exc is not None:
                raise RuntimeError(exc_text(exc))
            return np.asarray(got)
        return fn
    if form == "choi":
        return lambda Y: ch.apply_choi(np.asarray(D), Y, i_r, i_c)
    dp, _ = ch.pairs_from_result(D)
    return lambda Y: ch.apply_pairs(dp, Y)


def adjoint_identity(pairs, dual_fn, shape, with_i=True):
    """max |<Y,Phi(X)> - <Phi^*(Y),X>| over the full product basis; also compares with explicit-loop inner products on a few pairs."""
    o_r, i_r, o_c, i_c = shape
    xs = ch.basis(i_r, i_c, with_i=with_i)
    ys = ch.basis(o_r, o_c, with_i=with_i)
    PX = [ch.apply_pairs(pairs, X) for _, X in xs]
    DY = [dual_fn(Y) for _, Y in ys]
    for m in DY:
        if m.shape != (i_r, i_c):
            return float("inf"), f"dual output has shape {m.shape}, expected {(i_r, i_c)}", None
    Yv = np.array([Y.reshape(-1) for _, Y in ys])
    Xv = np.array([X.reshape(-1) for _, X in xs])
    PXv = np.array([m.reshape(-1) for m in PX])
    DYv = np.array([m.reshape(-1) for m in DY])
    G = Yv.conj() @ PXv.T        # G[y,x] = <Y, Phi(X)>
    H = DYv.conj() @ Xv.T        # H[y,x] = <Phi^*(Y), X>
    # explicit-loop spot check of the vectorised inner products (first, last)
    for (y, x) in ((0, 0), (len(ys) - 1, len(xs) - 1)):
        assert abs(ch.hs(ys[y][1], PX[x]) - G[y, x]) < 1e-9 * max(1, abs(G[y, x]))
        assert abs(ch.hs(DY[y], xs[x][1]) - H[y, x]) < 1e-9 * max(1, abs(H[y, x]))
    dev = np.abs(G - H)
    k = int(np.argmax(dev))
    y, x = divmod(k, len(xs))
    scale = max(1.0, float(np.max(np.abs(G))))
    return float(dev.max()) / scale, f"Y={ys[y][0]}, X={xs[x][0]}: <Y,Phi(X)>={complex(G[y, x]):.6g} but <Phi*(Y),X>={complex(H[y, x]):.6g}", (G[y, x], H[y, x])


def check_dual(pairs, form, shape, dform, calls_box, second=True):
    """dual_channel in one representation; returns a viol(...) or None."""
    from toqito.channel_ops import dual_channel

    o_r, i_r, o_c, i_c = shape
    phi = ch.to_form(pairs, form)
    if form == "choi":
        da = dims_arg(shape, dform)
        D, exc = call(dual_channel, phi.copy()) if da is None else call(dual_channel, phi.copy(), da)
    else:
        D, exc = call(dual_channel, phi)
    calls_box[0] += 1
    if exc is not None:
        return viol(f"dual_channel raised ({form} form, dims {dform}): " + exc_text(exc), site=f"dual_channel:{form}:exception")
    msg = _same_representation(phi, D, form, shape)
    if msg:
        return viol(msg, site=f"dual_channel:{form}:representation", observed=list(getattr(D, "shape", ())) if form == "choi" else None,
                    expected=[o_r * i_r, o_c * i_c] if form == "choi" else None)
    dev, detail, vals = adjoint_identity(pairs, _observe_dual(D, form, shape, False), shape)
    if dev > ch.ALG:
        return viol(f"adjoint identity fails ({form} form): {detail}", site=f"dual_channel:{form}", observed=vals[0] if vals else None,
                    expected=vals[1] if vals else None)
    try:
        dev, detail, vals = adjoint_identity(pairs, _observe_dual(D, form, shape, True), shape)
    except RuntimeError as e:
        return viol(f"apply_channel raised on the returned dual ({form} form): {e}", site=f"dual_channel:{form}:apply:exception")
    calls_box[0] += 2 * o_r * o_c
    if dev > ch.ALG:
        return viol(f"adjoint identity fails when the returned dual is applied with apply_channel ({form} form): {detail}",
                    site=f"dual_channel:{form}:apply", observed=vals[0] if vals else None, expected=vals[1] if vals else None)
    if not second:
        return None
    # the dual of the dual acts as Phi
    if form == "choi":
        DD, exc = call(dual_channel, np.asarray(D).copy(), [[o_r, i_r], [o_c, i_c]])
    else:
        DD, exc = call(dual_channel, D)
    calls_box[0] += 1
    if exc is not None:
        return viol(f"dual_channel raised on its own output ({form} form): " + exc_text(exc), site=f"dual_dual:{form}:exception")
    if form == "choi":
        if np.asarray(DD).shape != (i_r * o_r, i_c * o_c):
            return viol("dual of dual: wrong Choi shape", site=f"dual_dual:{form}")
        act = lambda X: ch.apply_choi(np.asarray(DD), X, o_r, o_c)  # noqa: E731
    else:
        ddp, _ = ch.pairs_from_result(DD)
        act = lambda X: ch.apply_pairs(ddp, X)  # noqa: E731
    for name, X in ch.basis(i_r, i_c, with_i=True):
        if not ch.close(act(X), ch.apply_pairs(pairs, X)):
            return viol(f"the dual of the dual does not act as Phi on {name} ({form} form)", site=f"dual_dual:{form}", observed=act(X),
                        expected=ch.apply_pairs(pairs, X))
    return None


# ================================================================================================ C05.adjoint_rank1
def rank1_cases(tier, seed):
    for shape in shapes4(tier):
        o_r, i_r, o_c, i_c = shape
        for a, b, sa in itertools.product(range(o_r), range(i_r), (0, 1)):
            for c, d, sb in itertools.product(range(o_c), range(i_c), (0, 1)):
                yield {"shape": list(shape), "A": [a, b, sa], "B": [c, d, sb]}


def rank1_check(case):
    shape = tuple(case["shape"])
    o_r, i_r, o_c, i_c = shape
    a, b, sa = case["A"]
    c, d, sb = case["B"]
    A = ch.unit(o_r, i_r, a, b, 1j if sa else 1)
    B = ch.unit(o_c, i_c, c, d, 1j if sb else 1)
    pairs = [(A, B)]
    box = [0]
    forms = [("pairs", "-")] + [("choi", df) for df in dims_forms(shape)]
    if (o_r, i_r) == (o_c, i_c) and np.array_equal(A, B):
        forms += [("flat", "-"), ("nested", "-")]
    for form, df in forms:
        res = check_dual(pairs, form, shape, df, box, second=(df in ("-", "mat")))
        if res is not None:
            return res
    J = ch.choi_pairs(pairs)
    return ok(ch.discriminating(J, shape), obs=cksum(J), calls=box[0])


# ================================================================================================ C05.adjoint_catalog
def catalog_cases(tier, seed):
    ks = (0,) if tier == "quick" else (0, 1)
    for shape in shapes4(tier):
        for fam in ch.FAMILIES:
            for r in (2, 3):
                for k in ks:
                    yield {"shape": list(shape), "fam": fam, "r": r, "k": k, "kind": "gen", "form": "pairs", "dform": "-"}
                    for df in dims_forms(shape):
                        yield {"shape": list(shape), "fam": fam, "r": r, "k": k, "kind": "gen", "form": "choi", "dform": df}
    # unequal input / output dimensions whose product is a perfect square: the Choi matrix then has the size of a map M_n -> M_n, and only the
    # explicit dims say otherwise (added after seeded change C05-10, which ignored dims whenever both sides were perfect squares)
    for o, i in ((1, 4), (4, 1), (2, 8), (8, 2), (1, 9), (9, 1)):
        shape = (o, i, o, i)
        for fam in ch.FAMILIES[:2]:
            for df in ("mat", "mat_nd", "vec"):
                yield {"shape": list(shape), "fam": fam, "r": 2, "k": 0, "kind": "gen", "form": "choi", "dform": df}
    # operators that look real to np.allclose, and maps of small overall scale (added after seeded change C05-11)
    for shape in ((2, 2, 2, 2), (2, 3, 2, 3), (3, 2, 2, 3), (1, 2, 2, 1)):
        for form in ("pairs", "choi"):
            for df in ((dims_forms(shape)[:1]) if form == "choi" else ["-"]):
                yield {"shape": list(shape), "fam": "nearreal", "r": 2, "k": 0, "kind": "gen", "form": form, "dform": df}
                yield {"shape": list(shape), "fam": "gen", "r": 2, "k": 0, "kind": "gen", "form": form, "dform": df, "extra": "scale"}
    D = dims_alphabet(tier)
    for o, i in sorted(itertools.product(D, repeat=2), key=lambda s: (max(s), sum(s), s)):
        shape = (o, i, o, i)
        for kind in ("cp", "hp", "neg"):
            for fam in ch.FAMILIES:
                for r in (1, 2, 3, 4):
                    for k in (0, 1):
                        rank = r if kind == "cp" else 2 * r
                        for form in ch.forms_for(kind == "cp", rank):
                            for df in (dims_forms(shape) if form == "choi" else ["-"]):
                                yield {"shape": list(shape), "fam": fam, "r": r, "k": k, "kind": kind, "form": form, "dform": df}


def _nearreal_pairs(case):
    """Complex operators that LOOK real to np.allclose (imaginary parts 1e-7 of the real parts) - added after seeded change C05-11, which
    skipped the conjugation whenever np.allclose(M, M.real)."""
    base = ch.build_map(dict(case, fam="gen"))
    other = ch.build_map(dict(case, fam="gauss"))
    return [(a.real + 1e-7j * c.real, b.real + 1e-7j * d.imag) for (a, b), (c, d) in zip(base, other)]


def _scale_check(case):
    """dual_channel(c * Phi) = c * dual_channel(Phi) entry by entry for c = 2^-30 (exact in floating point): the adjoint of a map of small
    overall scale is not allowed to depend on an absolute threshold."""
    from toqito.channel_ops import dual_channel

    shape = tuple(case["shape"])
    o_r, i_r, o_c, i_c = shape
    pairs = ch.build_map(dict(case, fam="gen"))
    c = 2.0 ** -30
    form = case["form"]
    if form == "choi":
        J = ch.choi_pairs(pairs)
        da = dims_arg(shape, case["dform"])
        big, e1 = call(dual_channel, J.copy(), da)
        small, e2 = call(dual_channel, (c * J).copy(), da)
        if e1 is not None or e2 is not None:
            return viol("dual_channel raised: " + exc_text(e1 or e2), site="dual_channel:choi:exception")
        big, small = [np.asarray(big)], [np.asarray(small)]
    else:
        phi = ch.to_form(pairs, form)
        phis = ch.to_form([(c * a, b) for a, b in pairs], form)
        big, e1 = call(dual_channel, phi)
        small, e2 = call(dual_channel, phis)
        if e1 is not None or e2 is not None:
            return viol("dual_channel raised: " + exc_text(e1 or e2), site=f"dual_channel:{form}:exception")
        bp, _ = ch.pairs_from_result(big)
        sp, _ = ch.pairs_from_result(small)
        if len(bp) != len(sp):
            return viol("dual of the scaled map has a different number of operators", site=f"dual_channel:{form}:scale")
        big = [np.kron(a, np.conj(b)) for a, b in bp]       # the map is determined by sum_t A_t (x) conj(B_t)
        small = [np.kron(a, np.conj(b)) for a, b in sp]
        big, small = [sum(big)], [sum(small)]
    for B, S in zip(big, small):
        if B.shape != S.shape or np.abs(S - c * B).max() > 1e-12 * c * max(1.0, np.abs(B).max()):
            return viol(f"dual_channel(c Phi) != c dual_channel(Phi) for c = 2^-30 ({form} form)", site=f"dual_channel:{form}:scale",
                        observed=float(np.abs(S - c * B).max()), expected=0.0)
    return ok(True)


def catalog_check(case):
    if case.get("extra") == "scale":
        return _scale_check(case)
    shape = tuple(case["shape"])
    pairs = _nearreal_pairs(case) if case["fam"] == "nearreal" else ch.build_map(case)
    box = [0]
    res = check_dual(pairs, case["form"], shape, case["dform"], box, second=True)
    if res is not None:
        return res
    J = ch.choi_pairs(pairs)
    return ok(ch.discriminating(J, shape), obs=cksum(J), calls=box[0])


# ================================================================================================ C05.unital_tp
def _unitary_conj(d, key):
    U = catalog.unitary(d, key)
    return [(U, U.copy())]


def truth_map(spec):
    """Ground-truth catalogue.  Returns (pairs, cp?)."""
    t = spec["t"]
    d = spec.get("d", 2)
    if t == "unitary":                      # unital and TP
        return _unitary_conj(d, spec["u"]), True
    if t == "mixed_unitary":                # unital and TP, rational weights
        keys = ["I", "F", "X", "Z", "g0"]
        w = [3, 2, 2, 1, 2][: spec["m"]]
        tot = float(sum(w))
        return [(np.sqrt(wk / tot) * catalog.unitary(d, kk), np.sqrt(wk / tot) * catalog.unitary(d, kk)) for wk, kk in zip(w, keys)], True
    if t == "isometry":                     # TP, maps M_d -> M_{d_out}; unital iff ... (decided numerically with margin)
        ks = ch.isometry_family(d, spec["r"], spec["u"])
        return [(k, k.copy()) for k in ks], True
    if t == "isometry_dual":                # unital (dual of TP), generally not TP
        ks = ch.isometry_family(d, spec["r"], spec["u"])
        return [(ch.dag(k), ch.dag(k)) for k in ks], True
    if t == "embed":                        # TP isometric embedding C^d -> C^{d+1} and its dual (unital compression)
        V = catalog.unitary(d + 1, spec["u"])[:, :d]
        return ([(V, V.copy())] if spec["dir"] == "in" else [(ch.dag(V), ch.dag(V))]), True
    if t == "amp":                          # TP, not unital for gamma > 0
        ks = ch.amplitude_damping(spec["g"])
        return [(k, k.copy()) for k in ks], True
    if t == "amp_dual":                     # unital, not TP for gamma > 0
        ks = ch.amplitude_damping(spec["g"])
        return [(ch.dag(k), ch.dag(k)) for k in ks], True
    if t == "scaled":                       # neither
        U = catalog.unitary(d, spec["u"])
        return [(spec["s"] * U, spec["s"] * U)], True
    if t == "generic_cp":                   # neither
        return ch.build_map({"fam": "gen", "shape": [d, d, d, d], "r": 2, "k": spec["k"], "kind": "cp"}), True
    if t == "transpose":                    # not CP; unital and TP
        return [(ch.unit(d, d, i, j), ch.unit(d, d, j, i)) for i in range(d) for j in range(d)], False
    if t == "reduction":                    # X -> Tr(X) I - c X : unital iff d - c = 1, TP iff d - c = 1
        c = spec["c"]
        out = [(ch.unit(d, d, i, j), ch.unit(d, d, i, j)) for i in range(d) for j in range(d)]
        out += [(np.sqrt(abs(c)) * np.eye(d, dtype=complex), -np.sign(c) * np.sqrt(abs(c)) * np.eye(d, dtype=complex))]
        return out, False
    if t == "left_right":                   # X -> A X B^dag : TP iff B^dag A = I, unital iff A B^dag = I
        U = catalog.unitary(d, spec["u"])
        S = np.diag([1.0 + 0.5 * q for q in range(d)]).astype(complex)
        if spec["variant"] == "both":       # A = U S, B = U S^{-1}  -> A B^dag = U S S^{-1} U^dag = I ; B^dag A = S^{-1} S = I
            return [(U @ S, U @ np.linalg.inv(S))], False
        return [(U @ S, U @ S)], False
    raise KeyError(t)


def truth_cases(tier, seed):
    ds = (2, 3) if tier == "quick" else (2, 3, 4)
    specs = []
    for d in ds:
        for u in ("I", "F", "X", "XZ", "ph", "g0", "g1"):
            specs.append({"t": "unitary", "d": d, "u": u})
            for s in (0.9, 1.05):
                specs.append({"t": "scaled", "d": d, "u": u, "s": s})
        for m in (2, 3, 5):
            specs.append({"t": "mixed_unitary", "d": d, "m": m})
        for r in (1, 2, 3):
            for u in ("F", "P", "H", "g0"):
                specs.append({"t": "isometry", "d": d, "r": r, "u": u})
                specs.append({"t": "isometry_dual", "d": d, "r": r, "u": u})
        for u in ("F", "g0", "X"):
            for dr in ("in", "out"):
                specs.append({"t": "embed", "d": d, "u": u, "dir": dr})
        for k in (0, 1):
            specs.append({"t": "generic_cp", "d": d, "k": k})
        specs.append({"t": "transpose", "d": d})
        for c in (d - 1.0, 1.0, -1.0, 0.5):
            specs.append({"t": "reduction", "d": d, "c": c})
        for u in ("F", "g0"):
            for variant in ("both", "neither"):
                specs.append({"t": "left_right", "d": d, "u": u, "variant": variant})
    for g in (0.0, 0.1, 0.25, 0.5, 0.9, 1.0):
        specs.append({"t": "amp", "d": 2, "g": g})
        specs.append({"t": "amp_dual", "d": 2, "g": g})
    for spec in specs:
        pairs, cp = truth_map(spec)
        rank = len(pairs)
        for form in ch.forms_for(cp, rank):
            yield {"spec": spec, "form": form}


def _dev_from_identity(M):
    M = np.asarray(M)
    if M.shape[0] != M.shape[1]:
        return float("inf")
    return float(np.max(np.abs(M - np.eye(M.shape[0]))))


def truth_check(case):
    from toqito.channel_ops import apply_channel, dual_channel
    from toqito.channel_props import is_trace_preserving, is_unital

    pairs, cp = truth_map(case["spec"])
    shape = ch.shape_of(pairs)
    o_r, i_r, o_c, i_c = shape
    form = case["form"]
    # ground truth by reference arithmetic
    dev_unital = _dev_from_identity(ch.apply_pairs(pairs, np.eye(i_r, dtype=complex)))
    dev_tp = _dev_from_identity(sum(ch.dag(B) @ A for A, B in pairs))      # Tr Phi(X) = Tr(sum B^dag A X)
    if any(1e-12 < dv < 1e-3 for dv in (dev_unital, dev_tp)):
        return rejected("catalogue element inside the predicate margin (harness: should not happen)")
    unital, tp = dev_unital <= 1e-12, dev_tp <= 1e-12
    phi = ch.to_form(pairs, form)
    if form == "choi":
        D, exc = call(dual_channel, phi.copy(), [i_r, o_r])
    else:
        D, exc = call(dual_channel, phi)
    if exc is not None:
        return viol(f"dual_channel raised ({form} form): " + exc_text(exc), site=f"dual_channel:{form}:exception")
    calls = 1
    # (i) Phi unital  <=>  Phi^* trace preserving, Phi^* observed through apply_channel on the operator basis of the OUTPUT space of Phi
    worst = 0.0
    for g in range(o_r):
        for h in range(o_c):
            for sc in (1, 1j):
                Y = ch.unit(o_r, o_c, g, h, sc)
                got, exc = call(apply_channel, Y, D)
                calls += 1
                if exc is not None:
                    return viol(f"apply_channel raised on the returned dual ({form} form): " + exc_text(exc), site=f"dual_channel:{form}:apply:exception")
                got = np.asarray(got)
                tr = sum(got[q, q] for q in range(min(got.shape)))
                worst = max(worst, abs(tr - (sc if g == h else 0)))
    dual_tp = worst <= 1e-9
    if 1e-9 < worst < 1e-3:
        return viol("dual is neither trace preserving nor clearly not (deviation inside the margin although the catalogue has none)",
                    site=f"unital_tp:{form}:margin", observed=worst)
    if dual_tp != unital:
        return viol(f"Phi unital={unital} but returned dual trace-preserving={dual_tp} (max trace deviation {worst:.3g})", site=f"unital_tp:{form}",
                    observed=bool(dual_tp), expected=bool(unital))
    # and symmetrically: Phi TP <=> dual unital (same identity read from the other side)
    got, exc = call(apply_channel, np.eye(o_r, dtype=complex), D)
    calls += 1
    if exc is not None:
        return viol("apply_channel raised on the dual: " + exc_text(exc), site=f"dual_channel:{form}:apply:exception")
    dual_unital_dev = _dev_from_identity(np.asarray(got))
    if (dual_unital_dev <= 1e-9) != tp or 1e-9 < dual_unital_dev < 1e-3:
        return viol(f"Phi trace-preserving={tp} but dual(I) deviates from I by {dual_unital_dev:.3g}", site=f"tp_unital:{form}",
                    observed=dual_unital_dev, expected=bool(tp))
    # (ii) toqito's own predicates on the forms they document
    u_obs, exc = call(is_unital, ch.to_form(pairs, form)) if form != "choi" else call(is_unital, phi.copy(), dim=[i_r, o_r])
    calls += 1
    if exc is not None:
        return viol(f"is_unital raised ({form} form): " + exc_text(exc), site=f"is_unital:{form}:exception")
    if bool(u_obs) != unital:
        return viol(f"is_unital={u_obs} but Phi(I)-I has max deviation {dev_unital:.3g}", site=f"is_unital:{form}", observed=bool(u_obs), expected=unital)
    if form in ("pairs", "choi"):
        t_obs, exc = call(is_trace_preserving, D) if form == "pairs" else call(is_trace_preserving, np.asarray(D), dim=[o_r, i_r])
        calls += 1
        if exc is not None:
            return viol(f"is_trace_preserving raised on the returned dual ({form} form): " + exc_text(exc), site=f"is_trace_preserving:{form}:exception")
        if bool(t_obs) != unital:
            return viol(f"is_unital(Phi)={unital} but is_trace_preserving(Phi*)={t_obs}", site=f"is_trace_preserving:{form}", observed=bool(t_obs),
                        expected=unital)
    return ok(unital != tp or not cp or o_r != i_r, obs=[int(unital), int(tp)], calls=calls, unital=unital, tp=tp)


# ================================================================================================ complementary channel
def tp_family(spec):
    t = spec["t"]
    if t == "iso":
        return ch.isometry_family(spec["d"], spec["r"], spec["u"])
    if t == "amp":
        return ch.amplitude_damping(spec["g"])
    if t == "pauli":  # sqrt(p_k) sigma_k with rational p
        X = np.array([[0, 1], [1, 0]], dtype=complex)
        Y = np.array([[0, -1j], [1j, 0]], dtype=complex)
        Z = np.array([[1, 0], [0, -1]], dtype=complex)
        p = spec["p"]
        return [np.sqrt(pk) * m for pk, m in zip(p, [np.eye(2, dtype=complex), X, Y, Z]) if pk > 0]
    if t == "mixed_dtype":  # trace-preserving families whose operators have DIFFERENT dtypes, the narrowest one first
        v = spec["v"]
        if v == 0:
            return [np.sqrt(0.5) * np.eye(2), np.sqrt(0.3) * np.array([[0, -1j], [1j, 0]]), np.sqrt(0.2) * np.diag([1, 1j])]
        if v == 1:
            return [np.array([[1, 0], [0, 0]]), np.array([[0, 0], [0, 1j]])]
        if v == 2:
            g = 0.3
            return [np.diag([1.0, np.sqrt(1 - g)]), 1j * np.array([[0, np.sqrt(g)], [0, 0]])]
        if v == 3:
            w = np.exp(2j * np.pi / 3)
            return [np.sqrt(0.5) * np.eye(3), np.sqrt(0.5) * np.diag([1, w, w * w])]
        if v == 4:  # float32 first, float64 later (precision is lost if the output takes the first operator's dtype)
            c, s_ = np.cos(0.3), np.sin(0.3)
            return [0.5 * np.eye(2, dtype=np.float32), np.sqrt(0.75) * np.array([[c, -s_], [s_, c]])]  # 0.5 is exact in float32
    if t == "overcomplete":  # more than d^2 operators (a non-minimal but perfectly valid description): a family listed twice at weight
        # 1/sqrt(2), or six weighted unitaries on a qubit - added after seeded change C05-12, which rejected r > d^2
        v = spec["v"]
        if v == 0:
            base = tp_family({"t": "pauli", "p": [0.25, 0.25, 0.25, 0.25]})
            return [np.sqrt(0.5) * k for k in base] + [np.sqrt(0.5) * k for k in base[::-1]]
        if v == 1:
            keys, w = ["I", "F", "X", "Z", "g0", "g1"], [3, 2, 2, 1, 2, 2]
            return [np.sqrt(wk / 12.0) * catalog.unitary(2, kk) for wk, kk in zip(w, keys)]
        base = ch.isometry_family(3, 4, "g0")
        return [np.sqrt(1 / 3.0) * k for k in base] * 3        # 12 operators on a qutrit
    if t == "iso_rot":  # isometry family followed by a unitary on the output and preceded by one on the input: still TP
        ks = ch.isometry_family(spec["d"], spec["r"], spec["u"])
        W = catalog.unitary(spec["d"], "g1")
        V = catalog.unitary(spec["d"], "ph")
        return [W @ k @ V for k in ks]
    raise KeyError(t)


def comp_specs(tier):
    ds = (2, 3, 4)
    out = []
    for d in ds:
        rs = (1, 2, 3, 4) if (tier == "thorough" or d < 4) else (1, 2)
        for r in rs:
            for u in ("F", "P", "H", "g0", "g1"):
                out.append({"t": "iso", "d": d, "r": r, "u": u})
                out.append({"t": "iso_rot", "d": d, "r": r, "u": u})
    for g in (0.0, 0.1, 0.25, 0.5, 0.75, 0.9, 1.0):
        out.append({"t": "amp", "g": g})
    for v in range(5):
        out.append({"t": "mixed_dtype", "v": v, "d": 3 if v == 3 else 2})
    for p in ([0.5, 0.5, 0, 0], [0.5, 0, 0.25, 0.25], [0.25, 0.25, 0.25, 0.25], [0.7, 0.1, 0.1, 0.1], [0, 0.5, 0.5, 0]):
        out.append({"t": "pauli", "p": p})
    out.append({"t": "overcomplete", "v": 0})
    out.append({"t": "overcomplete", "v": 1})
    out.append({"t": "overcomplete", "v": 2, "d": 3})
    return out


def comp_entries_cases(tier, seed):
    for spec in comp_specs(tier):
        yield {"spec": spec}


def _call_comp(ks):
    from toqito.channel_ops import complementary_channel

    return call(complementary_channel, [k.copy() for k in ks])


def comp_entries_check(case):
    from toqito.channel_ops import apply_channel

    ks = tp_family(case["spec"])
    d = ks[0].shape[0]
    r = len(ks)
    comp, exc = _call_comp(ks)
    if exc is not None:
        return viol("complementary_channel raised on a trace-preserving Kraus family: " + exc_text(exc), site="complementary_channel:exception")
    if not isinstance(comp, list) or not all(isinstance(c, np.ndarray) and c.ndim == 2 and c.shape[1] == d for c in comp):
        return viol("complementary_channel must return a list of Kraus operators acting on the same input space", site="complementary_channel:structure")
    cp = [(np.asarray(c), np.asarray(c)) for c in comp]
    calls = 1
    last = None
    inputs = ch.basis(d, d, with_i=True) + [("gauss", ch._gauss(d, d, 6)), ("generic", catalog.generic_matrix(d, d, k=9))]
    for name, rho in inputs:
        exp = ch.complementary_entries(ks, rho)
        got_ref = ch.apply_pairs(cp, rho)
        if got_ref.shape != (r, r) or not ch.close(got_ref, exp):
            return viol(f"entry (i,j) of Phi^c({name}) != Tr(K_i {name} K_j^dagger)", site="complementary_channel:entries", observed=got_ref, expected=exp)
        got, exc = call(apply_channel, rho.copy(), comp)
        calls += 1
        if exc is not None:
            return viol("apply_channel raised on the complementary Kraus operators: " + exc_text(exc), site="complementary_channel:apply:exception")
        if not ch.close(got, exp):
            return viol(f"apply_channel({name}, complementary) != [Tr(K_i {name} K_j^dagger)]", site="complementary_channel:apply", observed=np.asarray(got), expected=exp)
        tr = sum(np.asarray(got)[q, q] for q in range(r))
        tr_in = sum(rho[q, q] for q in range(d))
        if abs(tr - tr_in) > ch.ALG * max(1, abs(tr_in)):
            return viol(f"complementary channel does not preserve the trace on {name}", site="complementary_channel:trace", observed=complex(tr), expected=complex(tr_in))
        last = got
    real_diag = all(np.allclose(k, np.diag(np.diag(k)).real) for k in ks)
    return ok(r >= 2 and not real_diag, obs=cksum(last), calls=calls)


def comp_spectrum_cases(tier, seed):
    for spec in comp_specs(tier):
        d = spec.get("d", 2)
        for key in catalog.kets(d).keys():
            yield {"spec": spec, "ket": key}


def comp_spectrum_check(case):
    from toqito.channel_ops import apply_channel

    ks = tp_family(case["spec"])
    d = ks[0].shape[0]
    r = len(ks)
    psi = catalog.ket(d, case["ket"])
    rho = np.outer(psi, psi.conj())
    comp, exc = _call_comp(ks)
    if exc is not None:
        return viol("complementary_channel raised on a trace-preserving Kraus family: " + exc_text(exc), site="complementary_channel:exception")
    out_c, exc = call(apply_channel, rho.copy(), comp)
    if exc is not None:
        return viol("apply_channel raised on the complementary Kraus operators: " + exc_text(exc), site="complementary_channel:apply:exception")
    out_c = np.asarray(out_c)
    out = ch.apply_pairs([(k, k) for k in ks], rho)
    if out_c.shape != (r, r):
        return viol(f"environment output has shape {out_c.shape}, expected {(r, r)}", site="complementary_channel:shape")
    if not ch.close(out_c, out_c.conj().T, 1e-9):
        return viol("environment state of a pure input is not Hermitian", site="complementary_channel:hermitian")
    w = np.sort(np.linalg.eigvalsh((out + out.conj().T) / 2))[::-1]
    wc = np.sort(np.linalg.eigvalsh((out_c + out_c.conj().T) / 2))[::-1]
    n = max(len(w), len(wc))
    w = np.concatenate([w, np.zeros(n - len(w))])
    wc = np.concatenate([wc, np.zeros(n - len(wc))])
    if np.max(np.abs(w - wc)) > ch.SPEC:
        return viol("non-zero spectra of Phi(|psi><psi|) and Phi^c(|psi><psi|) differ", site="complementary_channel:spectrum",
                    observed=[float(x) for x in wc], expected=[float(x) for x in w])
    if abs(wc.sum() - 1) > ch.SPEC or wc.min() < -ch.SPEC:
        return viol("environment output of a pure state is not a density operator", site="complementary_channel:density", observed=[float(x) for x in wc])
    nz = int(np.sum(w > 1e-6))
    return ok(nz >= 2, obs=[round(float(x), 8) for x in wc], calls=2, rank=nz)


def comp_domain_cases(tier, seed):
    # documented ValueError cases: empty list, non-square operators, unequal sizes, completeness relation violated (clear margin)
    yield {"what": "empty"}
    for (o, i, r) in [(3, 2, 1), (4, 2, 1), (2, 1, 2), (3, 2, 2), (2, 3, 1)]:
        yield {"what": "nonsquare", "o": o, "i": i, "r": r}
    yield {"what": "sizes"}
    for d in (2, 3):
        for r in (1, 2):
            for s in (0.9, 1.1):
                yield {"what": "scaled", "d": d, "r": r, "s": s}
            yield {"what": "generic", "d": d, "r": r}
    # just inside: a perturbation far below the completeness tolerance must still be accepted
    for d in (2, 3):
        yield {"what": "tiny", "d": d, "r": 2}


def comp_domain_check(case):
    what = case["what"]
    expect_error = True
    best_effort = False
    if what == "empty":
        ks = []
    elif what == "nonsquare":
        o, i, r = case["o"], case["i"], case["r"]
        if o * r >= i:   # a genuine channel M_i -> M_o (isometry cut from a unitary of size o*r); toqito documents square operators only
            U = catalog.fourier(o * r)
            ks = [U[t * o:(t + 1) * o, :i].copy() for t in range(r)]
            best_effort = True
        else:
            ks = [ch._gauss(o, i, t) for t in range(r)]
    elif what == "sizes":
        ks = [np.eye(2, dtype=complex) / np.sqrt(2), np.eye(3, dtype=complex) / np.sqrt(2)]
    elif what == "scaled":
        ks = [case["s"] * k for k in ch.isometry_family(case["d"], case["r"], "F")]
    elif what == "generic":
        ks = [catalog.generic_matrix(case["d"], case["d"], k=t) for t in range(case["r"])]
    else:
        ks = ch.isometry_family(case["d"], case["r"], "g0")
        ks = [k * (1 + 1e-12) for k in ks]
        expect_error = False
    got, exc = _call_comp(ks)
    if not expect_error:
        if exc is not None:
            return viol("complementary_channel rejected a family that is trace preserving to 1e-12: " + exc_text(exc), site="complementary_channel:exception")
        return ok(True, obs=len(got))
    if exc is None:
        if best_effort:
            # a value for a non-square channel would have to be right
            d = ks[0].shape[1]
            cp = [(np.asarray(c), np.asarray(c)) for c in got]
            for name, rho in ch.basis(d, d, with_i=True):
                if not ch.close(ch.apply_pairs(cp, rho), ch.complementary_entries(ks, rho)):
                    return viol("complementary_channel returned a wrong map for a non-square channel", site="complementary_channel:entries")
            return ok(True, obs=len(got))
        return viol(f"complementary_channel accepted an input outside its documented domain ({what})", site="complementary_channel:reject", observed=str(type(got)))
    if isinstance(exc, ValueError) and is_deliberate_rejection(exc):
        return rejected("documented: square operators only") if best_effort else ok(True, obs=None)
    return viol("complementary_channel failed with an internal error instead of the documented ValueError: " + exc_text(exc), site="complementary_channel:reject")


CLAUSES = [
    Clause("C05.adjoint_rank1", rank1_cases, rank1_check, tol="alg", doc="<Y,Phi(X)> = <Phi*(Y),X> on the full product basis A,B,X,Y in {E,iE}, every shape; "
           "pairs / Choi(+every dims form) / flat / nested; dual applied by reference arithmetic and through apply_channel; dual of dual"),
    Clause("C05.adjoint_catalog", catalog_cases, catalog_check, tol="alg", doc="same identity + dual of dual for rank 2-4 (8) catalogue maps, all forms incl. row, all dims forms"),
    Clause("C05.unital_tp", truth_cases, truth_check, tol="exact", doc="ground-truth catalogue (unital-not-TP, TP-not-unital, both, neither; CP and non-CP; unequal dims): "
           "Phi unital <=> returned dual trace preserving (observed through apply_channel), and toqito's predicates agree"),
    Clause("C05.complementary", comp_entries_cases, comp_entries_check, tol="alg", doc="entry (i,j) of Phi^c(rho) = Tr(K_i rho K_j^dag) on the operator basis {E,iE} + generic; trace preserved"),
    Clause("C05.comp_spectrum", comp_spectrum_cases, comp_spectrum_check, tol="spec", doc="pure inputs from the ket catalogue: Phi and Phi^c outputs have the same non-zero spectrum"),
    Clause("C05.comp_domain", comp_domain_cases, comp_domain_check, tol="exact", doc="documented rejections of complementary_channel (empty, non-square, unequal sizes, not trace preserving)"),
]

# every toqito call of this property is repeated with column-major copies of its array arguments (engine.call, layout twin)
for _c in CLAUSES:
    _c.layout_twin = True
    _c.strided_twin = True  # and with strided read-only views (engine.call)
    _c.repeat_twin = True  # repeated calls agree; scribbling over a returned array must not affect later calls (engine.call)
