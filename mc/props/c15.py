"""C15 — PPT and separability verdicts are sound.

All cases of finite, constructed families are executed: states with a *constructed* smallest partial-transpose eigenvalue
(for is_ppt / is_npt at every tolerance and margin), all mixtures of 1..4 product states from a product catalogue with
weights from the compositions of 4 (separable by construction), NPT states with margin, PPT-entangled states for the
invariance clauses, operators at 0.9 / 1.1 of the Gurvits-Barnum radius, separable states for the symmetric-extension test.
The return site of every is_separable verdict is recorded with sys.settrace (vacuity guard).
"""

from __future__ import annotations

import inspect
import itertools

import numpy as np

from mc import catalog, own
from mc.engine import Clause, call, exc_text, indet, is_deliberate_rejection, no_verdict, ok, viol
from mc.ref import tensor_index as ti

RULE = ("case = (family member, local dims, local unitary, argument form, tolerance / margin); every case of the finite families "
        "is executed; non-trivial iff the state is not maximally mixed / the margin is on the informative side")
ASSUMPTIONS = ["numpy eigvalsh is correct; reference partial transpose from mc.ref.tensor_index (exact index arithmetic)",
               "separable = convex mixture of product states by construction; entangled = lambda_min(PT) <= -0.01 by construction",
               "internal errors under the purely prohibitive clauses are reported as NOTE/no_verdict (DESIGN 4.3)"]

DIMS_Q = [(2, 2), (2, 3), (3, 2), (3, 3), (2, 4), (4, 2)]
DIMS_T = DIMS_Q + [(4, 4), (3, 4)]


def ref_pt(rho, dA, dB, party):
    """Reference partial transpose on party 0 or 1 by index arithmetic."""
    _, _, src = ti.partial_transpose_src([dA, dB], [dA, dB], {party})
    n = dA * dB
    out = np.empty((n, n), dtype=complex)
    for r in range(n):
        for c in range(n):
            out[r, c] = rho[src[r][c]]
    return out


def min_pt_eig(rho, dA, dB):
    m = ref_pt(rho, dA, dB, 1)
    return float(np.linalg.eigvalsh((m + m.conj().T) / 2).min())


def local_u(dA, dB, key):
    ka, kb = key.split("|")
    return np.kron(catalog.unitary(dA, ka), catalog.unitary(dB, kb))


def npt_family(dA, dB, lam, s=(0.8, 0.6), lu="g0|g1"):
    """(1-p)|psi><psi| + p I/D with |psi> = s0|00> + s1|11>, dressed by a local unitary; lambda_min(PT) = lam exactly (in exact arithmetic)."""
    D = dA * dB
    psi = np.zeros(D, dtype=complex)
    psi[0] = s[0]
    psi[dB + 1] = s[1]
    c = s[0] * s[1]
    p = (lam + c) / (c + 1.0 / D)
    assert 0 <= p <= 1, (lam, p)
    rho = (1 - p) * catalog.proj(psi) + p * np.eye(D) / D
    U = local_u(dA, dB, lu)
    rho = U @ rho @ U.conj().T
    return (rho + rho.conj().T) / 2


# ------------------------------------------------------------------------------------------------ is_ppt / is_npt
def ppt_cases(tier, seed):
    for dA, dB in [(2, 2), (2, 3), (3, 2), (3, 3), (2, 4)] + ([(4, 3), (4, 4)] if tier == "thorough" else []):
        for tolk in ("default", "1e-6", "1e-3", "0"):
            for mult in (-10.0, -0.1, 0.1, 10.0, "far"):
                for lu in ("I|I", "g0|g1", "F|ph"):
                    for sysv in (1, 2):
                        forms = ["list", "scalar"] + (["omitted"] if dA == dB else [])
                        for form in forms:
                            yield {"dA": dA, "dB": dB, "tol": tolk, "mult": mult, "lu": lu, "sys": sysv, "dimform": form}


def ppt_check(case):
    from toqito.state_props import is_npt, is_ppt

    dA, dB = case["dA"], case["dB"]
    tol = {"default": float(np.sqrt(np.finfo(float).eps)), "1e-6": 1e-6, "1e-3": 1e-3, "0": 0.0}[case["tol"]]
    # an explicit tolerance of zero is a strict test: eigenvalues +-1e-9 / +-1e-7 (well above rounding) decide it
    lam = 0.02 if case["mult"] == "far" else (case["mult"] * tol if tol > 0 else case["mult"] * 1e-8)
    rho = npt_family(dA, dB, lam, lu=case["lu"])
    lam_ref = min_pt_eig(rho, dA, dB)
    if abs(lam_ref - lam) > max(1e-12, 0.05 * abs(lam)):
        return indet(f"constructed eigenvalue {lam_ref} drifted from target {lam}")
    expect = lam_ref >= -tol
    kw = {}
    if case["tol"] != "default":
        kw["tol"] = tol
    dim = {"list": [dA, dB], "scalar": dA, "omitted": None}[case["dimform"]]
    got, exc = call(is_ppt, rho, case["sys"], dim, **kw)
    if exc is not None:
        return viol(f"is_ppt raised (dim form {case['dimform']}): " + exc_text(exc), site="is_ppt:exception:" + case["dimform"])
    if bool(got) != expect:
        return viol(f"is_ppt={got} but smallest partial-transpose eigenvalue is {lam_ref:.3e} with tol={tol:.3e}",
                    site="is_ppt:threshold", observed=bool(got), expected=expect, lam=lam_ref, tol=tol)
    gotn, exc = call(is_npt, rho, case["sys"], dim, **kw)
    if exc is not None:
        return viol("is_npt raised: " + exc_text(exc), site="is_npt:exception")
    if bool(gotn) == bool(got):
        return viol("is_npt is not the negation of is_ppt", site="is_npt:negation")
    return ok(case["mult"] in (-0.1, -10.0), obs=bool(got))


# ------------------------------------------------------------------------------------------------ is_separable
def product_terms(dA, dB):
    """A fixed list of 7 product states (pure products, a product of mixed local states, a product with a maximally mixed factor).

    For total dimension <= 6 (where PPT decides) two seed-derived generic kets take part.  For larger sizes the terms are
    structured only (real and complex catalogue kets), so that the set of states on which is_separable reaches its final
    symmetric-extension search does not depend on VERIF_SEED: the known finding lists those inputs one by one.
    """
    if dA * dB <= 6:
        ka = ["e0", "e1" if dA == 2 else "f1", "g0", "ramp", "g1"]
        kb = ["e0", "g0", "e1" if dB == 2 else "f2", "g1", "chirp"]
        mixed = (catalog.density(dA, "gfull0"), catalog.density(dB, "gfull1"))
    else:
        ka = {2: ["e0", "+i", "pi8ph", "trine1", "-"], 3: ["e0", "f1", "chirp", "0i1", "ramp"], 4: ["e0", "f1", "chirp", "0i1", "ramp"]}[dA]
        kb = {2: ["e1", "pi8ph", "+", "-i", "trine2"], 3: ["e0", "chirp", "f2", "ramp", "0i1"], 4: ["e1", "chirp", "f3", "ramp", "0i1"]}[dB]
        mixed = (catalog.density(dA, "ramp2@F"), catalog.density(dB, "ramp2@F"))
    terms = []
    for a, b in zip(ka, kb):
        terms.append(np.kron(catalog.proj(catalog.ket(dA, a)), catalog.proj(catalog.ket(dB, b))))
    terms.append(np.kron(*mixed))
    terms.append(np.kron(catalog.proj(catalog.ket(dA, "e0")), np.eye(dB) / dB))
    return terms


def sep_state(dA, dB, idx, weights, noise=0.0):
    terms = product_terms(dA, dB)
    w = np.array(weights, dtype=float)
    w = w / w.sum()
    rho = sum(wi * terms[i] for wi, i in zip(w, idx))
    rho = (1 - noise) * rho + noise * np.eye(dA * dB) / (dA * dB)
    return (rho + rho.conj().T) / 2


def weight_compositions(k):
    return [c for c in itertools.product(range(1, 5), repeat=k) if sum(c) == 4] if k <= 4 else [tuple([1] * k)]


def sep_cases(tier, seed):
    dims = DIMS_Q if tier == "quick" else DIMS_T
    for dA, dB in dims:
        nterms = 7
        big = dA * dB > 6  # sizes where is_separable may end in a symmetric-extension SDP (5 s at 3x3, ~60 s at 4x4)
        if dA * dB >= 12:
            ks, stride = (1, 2, 3), 12
        elif big:
            ks, stride = ((1, 2, 3, 4), 6) if tier == "quick" else ((1, 2, 3, 4, 5, 6), 2)
        else:
            ks, stride = ((1, 2, 3, 4), 1) if tier == "quick" else ((1, 2, 3, 4, 5, 6), 1)
        for k in ks:
            subsets = list(itertools.combinations(range(nterms), k))[::stride]
            for idx in subsets:
                comps = weight_compositions(k)
                if big:
                    comps = comps[:1] if tier == "quick" else comps[:2]
                for w in comps:
                    yield {"kind": "separable", "dA": dA, "dB": dB, "idx": list(idx), "w": list(w), "dimform": "list"}
                    if big and k >= 2:
                        # moderately mixed versions: these are the states that only the block / spectrum / ball criteria certify
                        for noise in ((0.6,) if tier == "quick" else (0.3, 0.6)):
                            yield {"kind": "separable", "dA": dA, "dB": dB, "idx": list(idx), "w": list(w), "dimform": "list", "noise": noise}
        if (dA, dB) == (3, 3):
            for k in range(8 if tier == "quick" else 24):
                yield {"kind": "rank4", "dA": 3, "dB": 3, "k": k, "dimform": ("list", "scalar", "omitted")[k % 3]}
        # argument forms on a few members
        yield {"kind": "separable", "dA": dA, "dB": dB, "idx": [0, 2], "w": [1, 3], "dimform": "scalar"}
        if dA == dB:
            yield {"kind": "separable", "dA": dA, "dB": dB, "idx": [0, 2], "w": [1, 3], "dimform": "omitted"}
        # entangled with margin
        for lam in (-0.01, -0.05, -0.2):
            for s in ((0.8, 0.6), (0.7071067811865476, 0.7071067811865476)):
                for lu in ("I|I", "g0|g1", "F|X"):
                    yield {"kind": "npt", "dA": dA, "dB": dB, "lam": lam, "s": list(s), "lu": lu, "dimform": "list"}
        # unnormalised operators: is_separable divides by the trace first, so the verdict may not depend on a positive scale factor
        # (added after seeded change C15-7, which ran the PPT test with its absolute tolerance before normalising)
        for scale in (1e-9, 1e-6, 1e-3, 8.0):
            for lam in (-0.01, -0.2):
                yield {"kind": "npt", "dA": dA, "dB": dB, "lam": lam, "s": [0.8, 0.6], "lu": "g0|g1", "dimform": "list", "scale": scale}
            yield {"kind": "separable", "dA": dA, "dB": dB, "idx": [0, 2], "w": [1, 3], "dimform": "list", "scale": scale}
            yield {"kind": "separable", "dA": dA, "dB": dB, "idx": [1], "w": [4], "dimform": "scalar", "scale": scale}


def rank4_state(k):
    """Mixture of four generic product states on 3 (x) 3 (fixed generator, independent of VERIF_SEED; real for even k, complex for odd k):
    rank exactly 4, decided by the dedicated necessary-and-sufficient test of is_separable.  Added after seeded changes C15-9 / C15-11, which
    broke that test and were caught by a single structured case, resp. not at all."""
    rng = np.random.default_rng(1000 + k)
    w = np.array([1.0, 2.0, 3.0, 4.0]) / 10
    rho = np.zeros((9, 9), dtype=complex)
    for t in range(4):
        a = rng.normal(size=3) + 1j * rng.normal(size=3) * (k % 2)
        b = rng.normal(size=3) + 1j * rng.normal(size=3) * (k % 2)
        v = np.kron(a / np.linalg.norm(a), b / np.linalg.norm(b))
        rho += w[t] * np.outer(v, v.conj())
    return (rho + rho.conj().T) / 2


def _dim_arg(case):
    return {"list": [case["dA"], case["dB"]], "scalar": case["dA"], "omitted": None}[case["dimform"]]


def _final_return_line(fn):
    src, start = inspect.getsourcelines(fn)
    last = None
    for k, line in enumerate(src):
        if line.strip().startswith("return "):
            last = start + k
    return last


def traced_is_separable(rho, dim):
    from toqito.state_props import is_separable

    fn = is_separable
    with own.trace_returns(fn.__code__) as log:
        got, exc = call(fn, rho, dim) if dim is not None else call(fn, rho)
    line = log[-1][0] if log else None
    return got, exc, line, _final_return_line(fn)


def sep_check(case):
    dA, dB = case["dA"], case["dB"]
    if case["kind"] == "rank4":
        rho = rank4_state(case["k"])
        if np.linalg.matrix_rank(rho, tol=1e-9) != 4:
            return indet("constructed state does not have rank 4")
        got, exc, line, final = traced_is_separable(rho, _dim_arg(case))
        if exc is not None:
            return no_verdict("is_separable raised on a rank-4 separable 3x3 state: " + exc_text(exc))
        if not bool(got):
            return viol(f"mixture of four product states on 3x3 (rank 4) declared entangled (return at line {line})",
                        site="is_separable:separable_declared_entangled:rank4", observed=False, expected=True, line=line)
        return ok(True, obs=True, line=line)
    if case["kind"] == "separable":
        rho = sep_state(dA, dB, case["idx"], case["w"], case.get("noise", 0.0)) * case.get("scale", 1.0)
        got, exc, line, final = traced_is_separable(rho, _dim_arg(case))
        if exc is not None:
            if is_deliberate_rejection(exc):
                return viol("is_separable rejected a valid separable density operator: " + exc_text(exc), site="is_separable:rejected")
            return no_verdict(f"is_separable raised on a separable {dA}x{dB} state: " + exc_text(exc))
        if not bool(got):
            site = "is_separable:separable_declared_entangled" + (":final_return" if line == final else ":criterion")
            return viol(f"separable mixture of product states declared entangled (return at line {line})", site=site, observed=False,
                        expected=True, line=line)
        if dA * dB <= 6:
            pass  # PPT agreement is implied: separable => PPT => verdict True
        return ok(len(case["idx"]) > 1, obs=True, line=line)
    rho = npt_family(dA, dB, case["lam"], s=tuple(case["s"]), lu=case["lu"])
    if min_pt_eig(rho, dA, dB) > -0.009:
        return indet("constructed NPT margin lost")
    got, exc, line, final = traced_is_separable(rho * case.get("scale", 1.0), _dim_arg(case))
    if exc is not None:
        return no_verdict(f"is_separable raised on an NPT {dA}x{dB} state: " + exc_text(exc))
    if bool(got):
        return viol(f"state with partial-transpose eigenvalue {case['lam']} declared separable (return at line {line})",
                    site="is_separable:npt_declared_separable", observed=True, expected=False, line=line)
    return ok(True, obs=False, line=line)


# ------------------------------------------------------------------------------------------------ invariance (incl. PPT-entangled states)
def horodecki33(a):
    b = (1 + a) / 2
    c = np.sqrt(1 - a * a) / 2
    m = np.zeros((9, 9))
    for i in range(9):
        m[i, i] = a
    m[0, 4] = m[4, 0] = m[0, 8] = m[8, 0] = m[4, 8] = m[8, 4] = a
    m[6, 6] = m[8, 8] = b
    m[6, 8] = m[8, 6] = c
    return m / (8 * a + 1)


def tiles_state():
    s = 1 / np.sqrt(2)
    e = np.eye(3)
    vs = [np.kron(e[0], s * (e[0] - e[1])), np.kron(e[2], s * (e[1] - e[2])), np.kron(s * (e[0] - e[1]), e[2]),
          np.kron(s * (e[1] - e[2]), e[0]), np.kron((e[0] + e[1] + e[2]) / np.sqrt(3), (e[0] + e[1] + e[2]) / np.sqrt(3))]
    return (np.eye(9) - sum(np.outer(v, v) for v in vs)) / 4


def inv_states(tier):
    out = {"horodecki0.3": (3, 3, horodecki33(0.3)), "tiles": (3, 3, tiles_state()),
           "sep33": (3, 3, sep_state(3, 3, [0, 2, 3, 5], [1, 1, 1, 1])),
           "sep24": (2, 4, sep_state(2, 4, [1, 2, 4], [1, 2, 1])),
           "ppt23": (2, 3, npt_family(2, 3, 0.01)), "npt32": (3, 2, npt_family(3, 2, -0.03))}
    if tier == "thorough":
        out["horodecki0.7"] = (3, 3, horodecki33(0.7))
        out["tiles+noise"] = (3, 3, 0.9 * tiles_state() + 0.1 * np.eye(9) / 9)
    return out


def inv_cases(tier, seed):
    for name in inv_states(tier):
        for tr in ("lu:F|I", "lu:g0|g1", "lu:X|ph", "swap"):
            yield {"state": name, "transform": tr, "tier": tier}


def inv_check(case):
    from toqito.state_props import is_separable

    dA, dB, rho = inv_states(case["tier"])[case["state"]]
    rho = np.asarray(rho, dtype=complex)
    base, exc = call(is_separable, rho, [dA, dB])
    if exc is not None:
        return no_verdict("is_separable raised on the base state: " + exc_text(exc))
    if case["transform"] == "swap":
        P = np.array(ti.perm_matrix_for([dA, dB], [1, 0]), dtype=float)
        rho2, d2 = P @ rho @ P.T, [dB, dA]
    else:
        U = local_u(dA, dB, case["transform"][3:])
        rho2, d2 = U @ rho @ U.conj().T, [dA, dB]
    rho2 = (rho2 + rho2.conj().T) / 2
    got, exc = call(is_separable, rho2, d2)
    if exc is not None:
        return no_verdict("is_separable raised on the transformed state: " + exc_text(exc))
    if bool(got) != bool(base):
        return viol(f"separability verdict changed under {case['transform']}: {base} -> {got}", site="is_separable:invariance",
                    observed=[bool(base), bool(got)])
    return ok(True, obs=bool(got))


# ------------------------------------------------------------------------------------------------ separable ball
def ball_cases(tier, seed):
    for D in (4, 6, 9) if tier == "quick" else (4, 6, 8, 9, 12, 16):
        for direction in ("diag", "offdiag", "generic", "eig"):
            for rel in (0.5, 0.9, 1.0 + 1e-6, 1.0 + 1e-4, 1.1, 2.0):  # 1+1e-6 / 1+1e-4: just outside (after seeded change C15-5: isclose at the boundary)
                for scale in (1.0, 2.5, -1.0, -2.5):  # negative multiples are not in the ball (added after seeded change C15-16: abs of the trace)
                    for form in ("matrix", "eigvec"):
                        if form == "eigvec" and direction in ("offdiag", "generic"):
                            continue
                        yield {"D": D, "dir": direction, "rel": rel, "scale": scale, "form": form}


def ball_check(case):
    from toqito.state_props import in_separable_ball

    D = case["D"]
    R = 1 / np.sqrt(D * (D - 1))
    if case["dir"] == "diag":
        H = np.diag([1.0] + [-1.0 / (D - 1)] * (D - 1))
    elif case["dir"] == "eig":
        H = np.diag(np.arange(D) - (D - 1) / 2.0)
    elif case["dir"] == "offdiag":
        H = np.zeros((D, D), dtype=complex)
        H[0, 1], H[1, 0] = 1j, -1j
    else:
        g = catalog.generic_density(D, 0)
        H = g - np.eye(D) * np.trace(g) / D
    H = H / np.linalg.norm(H, "fro")
    rho = np.eye(D) / D + case["rel"] * R * H
    arg = case["scale"] * rho
    if case["form"] == "eigvec":
        arg = np.real(np.diag(arg)).copy()
    got, exc = call(in_separable_ball, arg)
    if exc is not None:
        return viol("in_separable_ball raised: " + exc_text(exc), site="in_separable_ball:exception")
    inside = case["rel"] <= 1.0 and case["scale"] > 0
    if bool(got) and not inside:
        return viol(f"operator at {case['rel']} x the Gurvits-Barnum radius (scale {case['scale']}) accepted", site="in_separable_ball:outside_accepted",
                    observed=True, expected=False)
    return ok(True, obs=bool(got), accepted_inside=bool(got) and inside)


# ------------------------------------------------------------------------------------------------ symmetric extension
def symext_cases(tier, seed):
    for dA, dB in [(2, 2), (2, 3), (3, 2)]:
        for idx, w in (([0], [4]), ([0, 2], [1, 3]), ([1, 3, 5], [1, 2, 1]), ([0, 1, 2, 4], [1, 1, 1, 1])):
            for level in (1, 2):
                for ppt in (True, False):
                    yield {"dA": dA, "dB": dB, "idx": idx, "w": w, "level": level, "ppt": ppt}
    # the two-qubit closed-form branch (level 2, ppt=False) on every single product term and every pair of terms, incl. pure product
    # states whose second marginal is not diagonal (after seeded change C15-6: element-wise square of the marginal)
    for k in (1, 2):
        for idx in itertools.combinations(range(7), k):
            for w in ((4,),) if k == 1 else ((1, 3), (2, 2)):
                for form in ("list", "scalar", "omitted"):
                    yield {"dA": 2, "dB": 2, "idx": list(idx), "w": list(w), "level": 2, "ppt": False, "dimform": form}
    # nearly pure separable states (weights 1 - 1e-5 .. 1 - 1e-7 on one product term): they look pure to np.isclose / np.allclose but are
    # not (added after seeded change C15-12, whose pure-state shortcut refused them)
    for dA, dB, ppts in ((2, 2, (False, True)), (2, 3, (True,)), (3, 2, (True,))):
        for idx in ([0, 2], [1, 3], [4, 5]):
            for big_w in (10 ** 5, 10 ** 6, 10 ** 7):
                for ppt in ppts:
                    yield {"dA": dA, "dB": dB, "idx": idx, "w": [big_w, 1], "level": 2, "ppt": ppt}
    big = [((2, 4), [0, 2], [1, 3]), ((3, 3), [0, 2], [1, 3]), ((3, 3), [1, 3, 5], [1, 2, 1])]
    if tier == "thorough":
        big += [((2, 4), [1, 3, 5], [1, 2, 1]), ((3, 3), [0, 1, 2, 4], [1, 1, 1, 1]), ((4, 2), [0, 5], [2, 2])]
    for (dA, dB), idx, w in big:
        for level in (1, 2):
            for ppt in ((True, False) if tier == "thorough" else (True,)):
                yield {"dA": dA, "dB": dB, "idx": idx, "w": w, "level": level, "ppt": ppt}


def symext_check(case):
    from toqito.state_props import has_symmetric_extension

    dA, dB = case["dA"], case["dB"]
    rho = sep_state(dA, dB, case["idx"], case["w"])
    dim_arg = {"list": [dA, dB], "scalar": dA, "omitted": None}[case.get("dimform", "list")]
    got, exc = call(has_symmetric_extension, rho, case["level"], dim_arg, case["ppt"])
    if exc is not None:
        if isinstance(exc, ArithmeticError) or type(exc).__name__ in ("SolutionFailure", "SolverError"):
            return indet("solver did not return a solution: " + exc_text(exc))
        return viol("has_symmetric_extension raised on a separable state: " + exc_text(exc), site="has_symmetric_extension:exception")
    sdp_branch = not (case["level"] == 1 or (dA * dB <= 6 and case["ppt"])) and not (case["level"] == 2 and not case["ppt"] and dA == 2 and dB == 2)
    if not bool(got):
        return viol(f"separable state refused a level-{case['level']} {'PPT ' if case['ppt'] else ''}symmetric extension",
                    site="has_symmetric_extension:separable_refused" + (":sdp" if sdp_branch else ":shortcut"), observed=False, expected=True)
    return ok(True, obs=True, sdp=sdp_branch)


CLAUSES = [
    Clause("C15.ppt", ppt_cases, ppt_check, tol="margins 0.1x / 10x tol", doc="is_ppt <=> lambda_min(PT) >= -tol on constructed eigenvalues; is_npt negation; dim list/scalar/omitted; sys 1,2"),
    Clause("C15.separable", sep_cases, sep_check, tol="margin 0.01", chunk=1, weight=1.0, probe=2,
           doc="never False on mixtures of product states; never True when lambda_min(PT) <= -0.01; return sites traced"),
    Clause("C15.invariance", inv_cases, inv_check, tol="boolean", chunk=1, weight=6.0, probe=1,
           doc="verdict invariant under local unitaries and party exchange, incl. PPT-entangled states"),
    Clause("C15.ball", ball_cases, ball_check, tol="0.9 / 1.1 radius", doc="in_separable_ball accepts only operators inside the Gurvits-Barnum ball"),
    Clause("C15.symext", symext_cases, symext_check, tol="boolean", chunk=1, weight=4.0, probe=1,
           doc="has_symmetric_extension accepts every separable state (levels 1,2; ppt on/off)"),
]
