"""C19 — random generators and measurement constructions give valid, reproducible objects.

validity: full product generator x dims 1..6 x options x seeds (+ unseeded under an owned entropy tape);
reproducible: exhaustive call histories (depth 2 quick / 3 thorough) over a menu of global-RNG events, unseeded and seeded
generator calls — every transition calls the real generator; measurements: PGM / PBM / measure / is_povm on all
spanning sub-ensembles of the catalogue.
"""

from __future__ import annotations

import itertools

import numpy as np

from mc import catalog, own
from mc.engine import Clause, call, exc_text, is_deliberate_rejection, ok, rejected, viol

RULE = ("validity: case = (generator, dimension arguments, options, seed or entropy-tape key), full product, non-trivial iff "
        "dim >= 2; reproducible: case = first event of a call history, every history of the stated depth over the event menu is "
        "executed on the real generators (state = digest of numpy's global RNG + entropy-tape position), non-trivial iff the "
        "history contains a seeded call preceded by another event; measurements: case = (sub-ensemble, prior, form)")
ASSUMPTIONS = ["numpy OS entropy is owned by replacing numpy.random.bit_generator.randbits (entropy tape)",
               "objects are compared bitwise; canonical objects are computed from the tree under test, never pinned",
               "P_opt bracket from the harness's own min-error SDP (cvxpy/CLARABEL) certified by eigvalsh arithmetic"]

SEEDS = [0, 1, 42, 2**32 - 1]


def seeds_alphabet():
    s = int(catalog.rng("c19seed").integers(2, 2**63 - 1))
    return SEEDS + [s]


def _herm_err(m):
    return float(np.abs(m - m.conj().T).max())


def schmidt_rank(vec, d1, d2, tol=1e-9):
    s = np.linalg.svd(np.asarray(vec).reshape(d1, d2), compute_uv=False)
    return int(np.sum(s > tol * max(1.0, s[0])))


# ------------------------------------------------------------------------------------------------ validity
def validity_cases(tier, seed):
    dims = range(1, 7)
    srcs = [{"seed": s} for s in seeds_alphabet()] + [{"tape": "t0"}, {"tape": "t1"}]
    for src in srcs:
        for d in dims:
            for real in (False, True):
                for form in ("int", "list"):
                    yield {"gen": "random_unitary", "d": d, "real": real, "form": form, **src}
                yield {"gen": "random_psd_operator", "d": d, "real": real, **src}
                yield {"gen": "random_orthonormal_basis", "d": d, "real": real, **src}
                for metric in ("haar", "bures"):
                    for k in [None] + list(range(1, d + 2)):
                        yield {"gen": "random_density_matrix", "d": d, "real": real, "k": k, "metric": metric, **src}
            yield {"gen": "random_circulant_gram_matrix", "d": d, **src}
            for n in (1, 2, 3):
                yield {"gen": "random_states", "n": n, "d": d, **src}
                yield {"gen": "random_ginibre", "n": d, "m": n, **src}
            for ni in (1, 2, 3):
                for no in (1, 2, 3):
                    yield {"gen": "random_povm", "d": d, "ni": ni, "no": no, **src}
        # state vectors: scalar and list dimension arguments, k over its whole range (0, 1..min, min+1)
        for real in (False, True):
            for d in dims:
                for k in range(0, d + 2):
                    yield {"gen": "random_state_vector", "dim": d, "real": real, "k": k, **src}
            for d1, d2 in itertools.product((1, 2, 3, 4), repeat=2):
                if tier == "quick" and d1 * d2 > 12:
                    continue
                for k in range(0, min(d1, d2) + 2):
                    yield {"gen": "random_state_vector", "dim": [d1, d2], "real": real, "k": k, **src}


def _invoke(case, fn, *args, **kw):
    if "tape" in case:
        with own.entropy_tape(case["tape"]):
            return call(fn, *args, **kw)
    return call(fn, *args, seed=case["seed"], **kw)


def validity_check(case):
    import toqito.rand as R

    g = case["gen"]
    fn = getattr(R, g)
    d = case.get("d")
    nt = (d or 0) >= 2
    if g == "random_unitary":
        arg = d if case["form"] == "int" else [d, d]
        u, exc = _invoke(case, fn, arg, case["real"])
        if exc is not None:
            return viol("raised: " + exc_text(exc), site=g + ":exception")
        u = np.asarray(u)
        if u.shape != (d, d):
            return viol(f"shape {u.shape}", site=g + ":shape")
        if np.abs(u.conj().T @ u - np.eye(d)).max() > 1e-10:
            return viol("U^dagger U != I", site=g + ":unitary", observed=float(np.abs(u.conj().T @ u - np.eye(d)).max()))
        if case["real"] and (np.iscomplexobj(u) and np.abs(u.imag).max() > 0):
            return viol("real option returned complex entries", site=g + ":real")
        if not case["real"] and d >= 2 and not np.iscomplexobj(u):
            return viol("complex option returned a real matrix", site=g + ":complex")
        return ok(nt)
    if g == "random_psd_operator":
        m, exc = _invoke(case, fn, d, case["real"])
        if exc is not None:
            return viol("raised: " + exc_text(exc), site=g + ":exception")
        m = np.asarray(m)
        if m.shape != (d, d) or _herm_err(m) > 1e-10 or np.linalg.eigvalsh((m + m.conj().T) / 2).min() < -1e-10:
            return viol("not a positive semidefinite operator", site=g + ":psd")
        if case["real"] and np.iscomplexobj(m) and np.abs(m.imag).max() > 1e-14:
            return viol("real option returned complex entries", site=g + ":real")
        return ok(nt)
    if g == "random_orthonormal_basis":
        b, exc = _invoke(case, fn, d, case["real"])
        if exc is not None:
            return viol("raised: " + exc_text(exc), site=g + ":exception")
        if len(b) != d:
            return viol(f"{len(b)} vectors for dimension {d}", site=g + ":count")
        M = np.column_stack([np.asarray(v).reshape(-1) for v in b])
        if M.shape != (d, d) or np.abs(M.conj().T @ M - np.eye(d)).max() > 1e-10:
            return viol("vectors are not orthonormal", site=g + ":orthonormal")
        if case["real"] and np.iscomplexobj(M) and np.abs(M.imag).max() > 0:
            return viol("real option returned complex vectors", site=g + ":real")
        return ok(nt)
    if g == "random_density_matrix":
        k = case["k"]
        rho, exc = _invoke(case, fn, d, case["real"], k, case["metric"])
        if exc is not None:
            return viol(f"raised (dim={d}, k_param={k}, metric={case['metric']}): " + exc_text(exc), site=g + ":exception:" + case["metric"])
        rho = np.asarray(rho)
        if rho.shape != (d, d):
            return viol(f"shape {rho.shape}", site=g + ":shape")
        w = np.linalg.eigvalsh((rho + rho.conj().T) / 2)
        if _herm_err(rho) > 1e-10 or w.min() < -1e-12 or abs(np.trace(rho) - 1) > 1e-10:
            return viol("not a unit-trace positive semidefinite operator", site=g + ":density",
                        observed=[_herm_err(rho), float(w.min()), complex(np.trace(rho)).real])
        kk = d if k is None else k
        rank = int(np.sum(w > 1e-9))
        if rank > kk:
            return viol(f"rank {rank} exceeds requested k_param={kk}", site=g + ":rank:" + case["metric"], observed=rank, expected=kk)
        if case["real"] and np.iscomplexobj(rho) and np.abs(rho.imag).max() > 1e-14:
            return viol("real option returned complex entries", site=g + ":real")
        return ok(nt)
    if g == "random_circulant_gram_matrix":
        m, exc = _invoke(case, fn, d)
        if exc is not None:
            return viol("raised: " + exc_text(exc), site=g + ":exception")
        m = np.asarray(m)
        if m.shape != (d, d) or np.iscomplexobj(m):
            return viol("not a real d x d matrix", site=g + ":shape")
        if np.abs(m - m.T).max() > 1e-10 or np.linalg.eigvalsh((m + m.T) / 2).min() < -1e-10:
            return viol("not symmetric positive semidefinite", site=g + ":psd")
        for r in range(d):
            if np.abs(m[r] - np.roll(m[0], r)).max() > 1e-10:
                return viol("not circulant", site=g + ":circulant")
        return ok(nt)
    if g == "random_states":
        st, exc = _invoke(case, fn, case["n"], d)
        if exc is not None:
            return viol("raised: " + exc_text(exc), site=g + ":exception")
        if len(st) != case["n"] or any(np.asarray(v).size != d or abs(np.linalg.norm(v) - 1) > 1e-10 for v in st):
            return viol("not n unit vectors of dimension d", site=g + ":unit")
        return ok(nt)
    if g == "random_ginibre":
        m, exc = _invoke(case, fn, case["n"], case["m"])
        if exc is not None:
            return viol("raised: " + exc_text(exc), site=g + ":exception")
        if np.asarray(m).shape != (case["n"], case["m"]):
            return viol("wrong shape", site=g + ":shape")
        return ok(case["n"] >= 2)
    if g == "random_povm":
        ni, no = case["ni"], case["no"]
        p, exc = _invoke(case, fn, d, ni, no)
        if exc is not None:
            return viol("raised: " + exc_text(exc), site=g + ":exception")
        p = np.asarray(p)
        if p.shape != (d, d, ni, no):
            return viol(f"shape {p.shape} != (dim, dim, inputs, outputs)", site=g + ":shape")
        for x in range(ni):
            tot = sum(p[:, :, x, a] for a in range(no))
            if np.abs(tot - np.eye(d)).max() > 1e-9:
                return viol(f"operators of input setting {x} do not sum to the identity", site=g + ":sum", observed=float(np.abs(tot - np.eye(d)).max()))
            for a in range(no):
                m = p[:, :, x, a]
                if _herm_err(m) > 1e-9 or np.linalg.eigvalsh((m + m.conj().T) / 2).min() < -1e-9:
                    return viol("a POVM element is not positive semidefinite", site=g + ":psd")
        return ok(nt and no >= 2)
    if g == "random_state_vector":
        dim, k = case["dim"], case["k"]
        v, exc = _invoke(case, fn, dim if isinstance(dim, int) else list(dim), case["real"], k)
        form = "int" if isinstance(dim, int) else "list"
        if exc is not None:
            return viol(f"raised (dim={dim}, k_param={k}): " + exc_text(exc), site=f"{g}:exception:{form}")
        v = np.asarray(v).reshape(-1)
        if abs(np.linalg.norm(v) - 1) > 1e-10:
            return viol("not a unit vector", site=g + ":unit", observed=float(np.linalg.norm(v)))
        if case["real"] and np.iscomplexobj(v) and np.abs(v.imag).max() > 1e-14:
            return viol("real option returned complex amplitudes", site=g + ":real")
        if isinstance(dim, int):
            d1 = d2 = dim
            total_ok = v.size in (dim, dim * dim)
        else:
            d1, d2 = dim
            total_ok = v.size == d1 * d2
        if not total_ok:
            return viol(f"vector of length {v.size} for dim={dim}", site=g + ":length", observed=int(v.size))
        if 0 < k and v.size == d1 * d2 and (d1 > 1 and d2 > 1):
            sr = schmidt_rank(v, d1, d2)
            if sr > k:
                return viol(f"Schmidt rank {sr} exceeds requested bound {k}", site=g + ":schmidt", observed=sr, expected=k)
        return ok(v.size >= 2 and 0 < k < min(d1, d2))
    raise KeyError(g)


# ------------------------------------------------------------------------------------------------ reproducibility (history BFS)
GEN_ARGS = {
    "random_unitary": [((3,), {"is_real": False}), (([2, 2],), {"is_real": True})],
    "random_density_matrix": [((3,), {"is_real": False, "k_param": 2}), ((2,), {"distance_metric": "bures"})],
    "random_ginibre": [((2, 3), {}), ((1, 1), {})],
    "random_orthonormal_basis": [((3,), {}), ((2,), {"is_real": True})],
    "random_povm": [((2, 2, 2), {}), ((3, 1, 2), {})],
    "random_psd_operator": [((3,), {}), ((2,), {"is_real": True})],
    "random_state_vector": [((4,), {}), (([3, 2],), {"k_param": 1})],
    "random_states": [((2, 3), {}), ((1, 2), {})],
    "random_circulant_gram_matrix": [((3,), {}), ((4,), {})],
}
H_SEEDS = [0, 42]


def event_menu():
    ev = [{"e": "gseed", "s": 0}, {"e": "gseed", "s": 7}, {"e": "gdraw"}]
    for g, argl in GEN_ARGS.items():
        for ai in range(len(argl)):
            ev.append({"e": "gen", "g": g, "a": ai, "seed": None})
            for s in H_SEEDS:
                ev.append({"e": "gen", "g": g, "a": ai, "seed": s})
    return ev


def _flat(obj):
    if isinstance(obj, (list, tuple)):
        return [np.asarray(x) for x in obj]
    return [np.asarray(obj)]


def _apply(ev):
    import toqito.rand as R

    if ev["e"] == "gseed":
        np.random.seed(ev["s"])
        return None
    if ev["e"] == "gdraw":
        np.random.rand()
        return None
    args, kw = GEN_ARGS[ev["g"]][ev["a"]]
    kw = dict(kw)
    if ev["seed"] is not None:
        kw["seed"] = ev["seed"]
    return own.digest(*_flat(getattr(R, ev["g"])(*args, **kw)))


def repro_cases(tier, seed):
    menu = event_menu()
    depth = 2 if tier == "quick" else 3
    for i in range(len(menu)):
        yield {"first": i, "depth": depth, "tape": "t0"}
    if tier == "thorough":
        for i in range(len(menu)):
            yield {"first": i, "depth": 2, "tape": "t1"}


def repro_check(case):
    menu = event_menu()
    depth = case["depth"]
    # canonical objects from the initial state (fresh global seed, fresh tape)
    canon = {}
    for j, ev in enumerate(menu):
        if ev["e"] == "gen" and ev["seed"] is not None:
            np.random.seed(12345)
            with own.entropy_tape(case["tape"]):
                canon[j] = _apply(ev)
    # different seeds give different objects
    for j, ev in enumerate(menu):
        if ev["e"] == "gen" and ev["seed"] == H_SEEDS[0]:
            other = next(jj for jj, e2 in enumerate(menu) if e2["e"] == "gen" and e2["g"] == ev["g"] and e2["a"] == ev["a"] and e2["seed"] == H_SEEDS[1])
            if canon[j] == canon[other]:
                return viol(f"{ev['g']} returns the same object for seeds {H_SEEDS}", site=ev["g"] + ":seed_ignored")
    states = set()
    transitions = 0
    hist_count = 0
    for suffix_len in range(0, depth):
        for suffix in itertools.product(range(len(menu)), repeat=suffix_len):
            h = (case["first"],) + suffix
            np.random.seed(12345)
            with own.entropy_tape(case["tape"]) as tape:
                states.add((own.global_rng_digest(), tape.pos))
                for step, j in enumerate(h):
                    ev = menu[j]
                    g_before = own.global_rng_digest()
                    pos_before = tape.pos
                    val = _apply(ev)
                    transitions += 1
                    g_after = own.global_rng_digest()
                    states.add((g_after, tape.pos))
                    if ev["e"] == "gen":
                        if g_after != g_before:
                            return viol(f"{ev['g']}(seed={ev['seed']}) consumed or changed numpy's global random state",
                                        site=ev["g"] + ":global_state", observed=[menu[k] for k in h[: step + 1]])
                        if ev["seed"] is not None:
                            if tape.pos != pos_before:
                                return viol(f"{ev['g']}(seed={ev['seed']}) drew OS entropy although a seed was given",
                                            site=ev["g"] + ":entropy", observed=[menu[k] for k in h[: step + 1]])
                            if val != canon[j]:
                                return viol(f"{ev['g']}(seed={ev['seed']}) is not reproducible: object differs after history",
                                            site=ev["g"] + ":reproducible", observed=[menu[k] for k in h[: step + 1]])
            hist_count += 1
    return ok(True, obs=hist_count, states=len(states), transitions=transitions, histories=hist_count)


# ------------------------------------------------------------------------------------------------ measurements
def _minerr_bracket(dms, probs):
    """Certified [L, U] for the min-error discrimination optimum (own SDP + arithmetic repair)."""
    import cvxpy as cp

    n, d = len(dms), dms[0].shape[0]
    Ms = [cp.Variable((d, d), hermitian=True) for _ in range(n)]
    cons = [M >> 0 for M in Ms] + [sum(Ms) == np.eye(d)]
    prob = cp.Problem(cp.Maximize(cp.real(sum(probs[i] * cp.trace(dms[i] @ Ms[i]) for i in range(n)))), cons)
    prob.solve(solver=cp.CLARABEL)
    # primal repair: clip, then renormalise with S^{-1/2}
    mv = []
    for M in Ms:
        w, v = np.linalg.eigh((M.value + M.value.conj().T) / 2)
        mv.append((v * np.clip(w, 0, None)) @ v.conj().T)
    S = sum(mv)
    w, v = np.linalg.eigh(S)
    Sih = (v / np.sqrt(w)) @ v.conj().T
    mv = [Sih @ m @ Sih for m in mv]
    L = float(sum(probs[i] * np.trace(dms[i] @ mv[i]).real for i in range(n)))
    # dual: Y = sum p_i rho_i M_i (symmetrised), shifted to feasibility
    Y = sum(probs[i] * dms[i] @ mv[i] for i in range(n))
    Y = (Y + Y.conj().T) / 2
    shift = max(0.0, max(-np.linalg.eigvalsh(Y - probs[i] * dms[i]).min() for i in range(n)))
    U = float(np.trace(Y).real + shift * d)
    return L, U


def meas_cases(tier, seed):
    for d in (2, 3):
        names = list(catalog.kets(d))
        sizes = (2, 3) if tier == "quick" else ((2, 3, 4) if d == 2 else (2, 3))
        if tier == "thorough" and d == 3:
            sizes = (2, 3, 4)
        for k in sizes:
            for sub in itertools.combinations(names, k):
                if tier == "quick" and d == 3 and k == 3 and (hash_det(sub) % 3):
                    continue
                if tier == "thorough" and k == 4 and (hash_det(sub) % 4):
                    continue
                for pk in (["uniform", "ramp", "g0"] if k > 1 else ["uniform"]):
                    for form in ("vec", "dm"):
                        yield {"kind": "pgm", "d": d, "kets": list(sub), "prior": pk, "form": form}
                    if pk == "ramp" and k == 3:
                        yield {"kind": "pgm", "d": d, "kets": list(sub), "prior": "zero0", "form": "vec"}
                    if pk == "ramp":
                        # ensembles that mix the two documented forms (added after seeded change C19-7, which chose the
                        # conversion from the first element only) and 1-D vectors
                        for form in ("dm_first", "vec_first", "vec1d", "alternate1d"):
                            yield {"kind": "pgm", "d": d, "kets": list(sub), "prior": pk, "form": form}
    # mixed ensembles
    for d in (2, 3):
        dn = [k for k in catalog.densities(d) if not k.startswith("ket:")]
        for sub in itertools.combinations(dn, 2):
            yield {"kind": "pgm", "d": d, "dms": list(sub), "prior": "ramp", "form": "dm"}
    # measure: all (state, measurement) pairs
    for d in (2, 3):
        states = list(catalog.densities(d))
        for s in states:
            for m in measurement_names(d):
                yield {"kind": "measure", "d": d, "state": s, "meas": m}
    # the documented tolerance: outcome i keeps its normalised post-measurement state iff p_i > tol (zero matrix otherwise), in the list
    # form and in the single-operator form alike (added after seeded change C19-10, which honoured tol on one path only)
    for d in (2, 3):
        for eps in ("1e-12", "1e-7", "1e-3"):
            for tol in ("1e-15", "default", "1e-5", "1e-2"):
                yield {"kind": "measure_tol", "d": d, "eps": eps, "tol": tol}
    for d in (2, 3):
        for m in measurement_names(d):
            for pert in ("none", "shrink", "neg", "nonherm"):
                yield {"kind": "is_povm", "d": d, "meas": m, "pert": pert}


def hash_det(names) -> int:
    import zlib
    return zlib.crc32("|".join(names).encode())


def measurement_names(d):
    out = [f"basis:{u}" for u in catalog.unitaries(d)]
    out += ["pgm:trine"] if d == 2 else []
    out += ["kraus:ad0.3", "kraus:mix", "povm:rand"]
    return out


def build_measurement(d, name):
    """Returns (kraus_ops, complete: bool)."""
    kind, key = name.split(":")
    if kind == "basis":
        U = catalog.unitary(d, key)
        return [catalog.proj(U[:, k]) for k in range(d)], True
    if kind == "pgm":
        vs = [catalog.ket(2, k) for k in ("e0", "trine1", "trine2")]
        S = sum(catalog.proj(v) for v in vs) / 3
        w, v = np.linalg.eigh(S)
        Sih = (v / np.sqrt(w)) @ v.conj().T
        return [Sih @ (v_.reshape(-1, 1) / np.sqrt(3)) @ (v_.reshape(1, -1).conj()) for v_ in vs], True  # rank-one Kraus ops, K^dagger K = POVM el.
    if kind == "kraus" and key == "ad0.3":
        g = 0.3
        K0 = np.eye(d, dtype=complex)
        K0[1, 1] = np.sqrt(1 - g)
        K1 = np.zeros((d, d), dtype=complex)
        K1[0, 1] = np.sqrt(g)
        return [K0, K1], True
    if kind == "kraus" and key == "mix":
        U, V = catalog.unitary(d, "g0"), catalog.unitary(d, "F")
        return [np.sqrt(0.25) * U, np.sqrt(0.75) * V], True
    if kind == "povm":
        from toqito.rand import random_povm

        p = random_povm(d, 1, 3, seed=5)
        ks = []
        for a in range(3):
            w, v = np.linalg.eigh((p[:, :, 0, a] + p[:, :, 0, a].conj().T) / 2)
            ks.append((v * np.sqrt(np.clip(w, 0, None))) @ v.conj().T)
        return ks, True
    raise KeyError(name)


def meas_check(case):
    from toqito.measurement_ops import measure
    from toqito.measurement_props import is_povm
    from toqito.measurements import pretty_bad_measurement, pretty_good_measurement

    d = case["d"]
    if case["kind"] == "pgm":
        if "kets" in case:
            vecs = [catalog.ket(d, k) for k in case["kets"]]
            dms = [catalog.proj(v) for v in vecs]
            form = case["form"]
            if form == "vec":
                states = [v.reshape(-1, 1) for v in vecs]
            elif form == "dm":
                states = [m.copy() for m in dms]
            elif form == "vec1d":
                states = [np.array(v).ravel() for v in vecs]
            elif form == "dm_first":
                states = [dms[0].copy()] + [v.reshape(-1, 1) for v in vecs[1:]]
            elif form == "vec_first":
                states = [vecs[0].reshape(-1, 1)] + [m.copy() for m in dms[1:]]
            else:  # alternate1d: density matrix, 1-D vector, density matrix, ...
                states = [dms[i].copy() if i % 2 == 0 else np.array(vecs[i]).ravel() for i in range(len(vecs))]
        else:
            dms = [catalog.density(d, k) for k in case["dms"]]
            states = [m.copy() for m in dms]
        n = len(dms)
        if case["prior"] == "zero0":  # the first state is never prepared (prior exactly 0): its operator must be 0, the rest a POVM
            probs = np.arange(0, n, dtype=float)
            probs = probs / probs.sum()
        else:
            probs = catalog.prior(n, case["prior"])
        avg = sum(p * r for p, r in zip(probs, dms))
        if np.linalg.eigvalsh(avg).min() < 1e-3:
            return rejected("ensemble does not span the space")
        pg, exc = call(pretty_good_measurement, states, list(probs))
        if exc is not None:
            return viol("pretty_good_measurement raised: " + exc_text(exc), site="pretty_good_measurement:exception")
        pb, exc = call(pretty_bad_measurement, states, list(probs))
        if exc is not None:
            return viol("pretty_bad_measurement raised: " + exc_text(exc), site="pretty_bad_measurement:exception")
        for nm, ms in (("pretty_good_measurement", pg), ("pretty_bad_measurement", pb)):
            ms = [np.asarray(m) for m in ms]
            if len(ms) != n:
                return viol("wrong number of operators", site=nm + ":count")
            if np.abs(sum(ms) - np.eye(d)).max() > 1e-8:
                return viol("operators do not sum to the identity", site=nm + ":sum", observed=float(np.abs(sum(ms) - np.eye(d)).max()))
            for m in ms:
                if _herm_err(m) > 1e-8 or np.linalg.eigvalsh((m + m.conj().T) / 2).min() < -1e-8:
                    return viol("operator not positive semidefinite", site=nm + ":psd")
        p_pgm = float(sum(probs[i] * np.trace(dms[i] @ pg[i]).real for i in range(n)))
        # independent PGM value
        w, v = np.linalg.eigh(avg)
        ih = (v / np.sqrt(w)) @ v.conj().T
        ref = float(sum(probs[i] * np.trace(dms[i] @ ih @ (probs[i] * dms[i]) @ ih).real for i in range(n)))
        if abs(p_pgm - ref) > 1e-7:
            return viol("pretty-good measurement is not rho^{-1/2} p_i rho_i rho^{-1/2}", site="pretty_good_measurement:value",
                        observed=p_pgm, expected=ref)
        if n == 2:
            L = U = 0.5 * (1 + np.abs(np.linalg.eigvalsh(probs[0] * dms[0] - probs[1] * dms[1])).sum())
        else:
            L, U = _minerr_bracket(dms, probs)
        if p_pgm < L * L - 1e-6 or p_pgm > U + 1e-6:
            return viol("P_pgm outside [P_opt^2, P_opt]", site="pretty_good_measurement:bounds", observed=p_pgm, expected=[L * L, U])
        # pretty bad measurement: 1/(n-1) (I - PGM_i)
        for i in range(n):
            if np.abs(np.asarray(pb[i]) - (np.eye(d) - np.asarray(pg[i])) / (n - 1)).max() > 1e-8:
                return viol("pretty-bad operator != (I - PGM_i)/(n-1)", site="pretty_bad_measurement:value")
        return ok(True, obs=round(p_pgm, 7))
    if case["kind"] == "measure":
        rho_c = catalog.density(d, case["state"])
        ks, complete = build_measurement(d, case["meas"])
        # the state is offered in every dtype that represents it exactly (complex; float if real; integer if 0/1-valued): the
        # post-measurement state must not be cast to the input's dtype (after seeded change C19-6)
        variants = [rho_c]
        if np.abs(rho_c.imag).max() == 0:
            variants.append(np.ascontiguousarray(rho_c.real))
            if np.all(np.isin(rho_c.real, (0.0, 1.0))):
                variants.append(rho_c.real.astype(np.int64))
        for rho in variants:
          for upd in (False, True):
              out, exc = call(measure, rho, list(ks), state_update=upd)
              if exc is not None:
                  return viol("measure raised on a complete measurement: " + exc_text(exc), site="measure:exception")
              tot = 0.0
              for K, o in zip(ks, out):
                  p = o[0] if upd else o
                  born = float(np.trace(K @ rho @ K.conj().T).real)
                  tot += p
                  if abs(p - born) > 1e-9:
                      return viol("probability is not Tr(K rho K^dagger)", site="measure:born", observed=float(p), expected=born)
                  if upd and born > 1e-6:
                      post = np.asarray(o[1])
                      if abs(np.trace(post) - 1) > 1e-8 or np.abs(post - K @ rho @ K.conj().T / born).max() > 1e-8:
                          return viol("post-measurement state is not K rho K^dagger / p", site="measure:post")
              if abs(tot - 1) > 1e-8:
                  return viol("probabilities of a complete measurement do not sum to one", site="measure:sum", observed=tot)
        rho = rho_c
        # single operator form
        p1, exc = call(measure, rho, ks[0])
        if exc is not None or abs(p1 - np.trace(ks[0] @ rho @ ks[0].conj().T).real) > 1e-9:
            return viol("single-operator form disagrees with Born rule", site="measure:single")
        # incomplete set with state update must be refused when every outcome has non-zero probability
        sub = [0.9 * K for K in ks]
        probs_sub = [np.trace(K @ rho @ K.conj().T).real for K in sub]
        if all(p > 1e-6 for p in probs_sub):
            _, exc = call(measure, rho, sub, state_update=True)
            if exc is None:
                return viol("incomplete Kraus set accepted with state_update=True", site="measure:completeness")
        return ok(True)
    if case["kind"] == "measure_tol":
        eps = float(case["eps"])
        tol = None if case["tol"] == "default" else float(case["tol"])
        tol_eff = 1e-10 if tol is None else tol
        if 0.1 < eps / tol_eff < 10:
            return rejected("probability too close to the tolerance")
        rho = np.diag([1.0 - (d - 1) * eps] + [eps] * (d - 1)).astype(complex)
        ks = [np.zeros((d, d), dtype=complex) for _ in range(d)]
        for i in range(d):
            ks[i][i, i] = 1.0
        kw = {} if tol is None else {"tol": tol}
        out, exc = call(measure, rho, list(ks), state_update=True, **kw)
        if exc is not None:
            return viol("measure raised on a complete projective measurement: " + exc_text(exc), site="measure:exception")
        for i, (K, o) in enumerate(zip(ks, out)):
            born = float(rho[i, i].real)
            single, exc = call(measure, rho, K, state_update=True, **kw)
            if exc is not None:
                return viol("measure raised in the single-operator form: " + exc_text(exc), site="measure:exception")
            for form, (p, post) in (("list", o), ("single", single)):
                post = np.asarray(post)
                if abs(p - born) > 1e-15 + 1e-9 * born:
                    return viol("probability is not Tr(K rho K^dagger)", site="measure:born", observed=float(p), expected=born)
                want = K @ rho @ K.conj().T / born if born > tol_eff else np.zeros((d, d))
                if np.abs(post - want).max() > 1e-8:
                    return viol(f"{form} form: outcome with p = {born:g} and tol = {tol_eff:g} must have "
                                + ("the normalised post-measurement state" if born > tol_eff else "the zero matrix"),
                                site="measure:tol:" + form, observed=float(np.trace(post).real), expected=float(np.trace(want).real))
        return ok(True)
    if case["kind"] == "is_povm":
        ks, _ = build_measurement(d, case["meas"])
        els = [K.conj().T @ K for K in ks]
        els = [(e + e.conj().T) / 2 for e in els]
        pert = case["pert"]
        expect = True
        if pert == "shrink":
            els = [e.copy() for e in els]
            els[0] = els[0] * 0.99  # sum differs from identity by ~1e-2 relative
            expect = bool(np.abs(sum(els) - np.eye(d)).max() < 1e-7)
        elif pert == "neg":
            # sum stays the identity, one element gets a negative eigenvalue -0.01
            v = catalog.ket(d, "g0").reshape(-1, 1)
            w0 = np.linalg.eigvalsh(els[0]).min()
            delta = (w0 + 0.01) * (v @ v.conj().T)
            els = [els[0] - delta, els[1] + delta] + els[2:]
            if np.linalg.eigvalsh(els[0]).min() > -0.005:
                return rejected("perturbation did not produce a margin")
            expect = False
        elif pert == "nonherm":
            n_ = np.zeros((d, d), dtype=complex)
            n_[0, 1] = 0.05
            els = [els[0] + n_, els[1] - n_] + els[2:]
            expect = False
        got, exc = call(is_povm, els)
        if exc is not None:
            return viol("is_povm raised: " + exc_text(exc), site="is_povm:exception")
        if bool(got) != expect:
            return viol(f"is_povm returned {got} on a set that is {'a' if expect else 'not a'} POVM by margin ({pert})", site="is_povm:" + pert,
                        observed=bool(got), expected=expect)
        return ok(True)
    raise KeyError(case["kind"])


CLAUSES = [
    Clause("C19.validity", validity_cases, validity_check, tol="1e-10", doc="every generator returns an object of the advertised kind"),
    Clause("C19.reproducible", repro_cases, repro_check, tol="bitwise", chunk=1, weight=2.0, probe=2,
           doc="history BFS: seeded calls are bitwise reproducible after any history, never touch global RNG / OS entropy; different seeds differ"),
    Clause("C19.measurements", meas_cases, meas_check, tol="spec(1e-6..1e-8)", weight=0.02,
           doc="PGM/PBM are POVMs, P_opt^2 <= P_pgm <= P_opt (certified bracket), measure = Born rule, is_povm margins"),
]
