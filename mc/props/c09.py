"""C09 — extended nonlocal games, quantum hedging, optimal cloning: definitions, ordering, strong duality, closed forms.

Everything is enumerated over finite alphabets (mc/ref/c09_games.py, mc/ref/c09_sdp.py); every case is executed on the real
toqito code.  Oracles, strongest first:

* unentangled value: the definition evaluated independently (brute force over ALL pairs of answer functions, eigvalsh);
* hedging / cloning: certified primal/dual bracket (own SDP pair, CLARABEL, feasibility repaired and verified by eigvalsh
  arithmetic) + closed forms + multiplicativity of the maximisation program over repetitions;
* NPA / see-saw / non-signalling: the orderings of the property statement (there is no independent NPA reference), with the exact
  unentangled value and the owned-entropy see-saw value as *achieved* lower bounds;
* constructor with reps: exact Kronecker-structure reference; argument / object aliasing everywhere.
"""

from __future__ import annotations

import itertools

import numpy as np

from mc import catalog
from mc.engine import Clause, call, exc_text, indet, ok, viol
from mc.ref import c09_games as rg
from mc.ref import c09_sdp as rs

RULE = ("extended games: case = (referee dim R in {1,2,3}, shape (A,B,X,Y) incl. unequal counts, cell pattern making the optimal "
        "answers depend on the question, operator-assignment scheme over a PSD catalogue (real, complex, rank-2, zero, generic), "
        "question distribution[, reps, NPA levels, call history]); full product for the cheap clauses, deviation-bounded product "
        "(k<=1 quick, k<=2 thorough, plus full pattern x scheme cores) for the SDP-priced ordering clause; non-trivial iff the best "
        "pair of answer FUNCTIONS beats every pair of constant answers (unentangled / order), operators complex or shapes unequal "
        "(product); hedging: case = (operator or pair of operators, reps), non-trivial iff max > min; cloning: case = (sub-ensemble "
        "of the qubit ket catalogue, prior, reps, input form), non-trivial iff the optimum is < 1")
ASSUMPTIONS = [
    "numpy eigvalsh / eigh / kron / einsum are correct",
    "weak duality of the harness's own primal/dual pair (both points are verified feasible by arithmetic); CLARABEL is only a "
    "source of candidate points",
    "the maximisation programs of hedging and cloning are multiplicative over independent repetitions for PSD Q (product of primal "
    "/ dual feasible points), used as the reference for cloning with 2 repetitions",
    "SCS (cvxpy default) values are compared with tolerance 1e-3; a shift smaller than that is invisible",
    "OS entropy consumed by the see-saw (random_unitary) is replaced by a fixed entropy tape (mc.own.entropy_tape)",
    "there is no independent NPA reference: the relaxation is constrained from below (exact unentangled value, achieved see-saw "
    "value) and from above (non-signalling value, level monotonicity) only",
]
SCS = 1e-3


def _solver_failure(exc):
    name = type(exc).__name__
    return name in ("SolverError", "DCPError") or (isinstance(exc, TypeError) and "NoneType" in str(exc))


# ================================================================================================ extended games: builders
def game_arrays(case):
    if case.get("named") == "mub":
        return rg.mub_game()
    A, B, X, Y = case["shape"]
    return rg.build_prob(X, Y, case["prob"]), rg.build_pred(case["R"], case["shape"], case["pat"], case["scheme"])


def digest_game(game):
    from mc.own import digest

    return digest(game.prob_mat, game.pred_mat) + ":" + repr(game.reps)


def same_array(a, b):
    a, b = np.asarray(a), np.asarray(b)
    return a.shape == b.shape and a.dtype == b.dtype and bool(np.array_equal(a, b))


def shapes_for(tier):
    return rg.SHAPES_QUICK + (rg.SHAPES_MORE if tier == "thorough" else [])


# ================================================================================================ C09.unentangled_exact
def unent_cases(tier, seed):
    for R in (1, 2, 3):
        for shape in shapes_for(tier):
            A, B, X, Y = shape
            for pat in rg.PATTERNS:
                for scheme in rg.schemes(R):
                    probs = rg.probs_for(X, Y)
                    if tier == "quick" and R == 3:
                        probs = [p for p in probs if p != "g0"]
                    for prob in probs:
                        yield {"R": R, "shape": list(shape), "pat": pat, "scheme": scheme, "prob": prob}
    if tier == "thorough":
        yield {"named": "mub", "R": 3, "shape": [3, 3, 4, 4], "pat": "eq", "scheme": "mub", "prob": "diag"}


def unent_alphabets(tier, seed):
    return {"R": [1, 2, 3], "shapes": [list(s) for s in shapes_for(tier)], "patterns": rg.PATTERNS,
            "schemes": {str(R): rg.schemes(R) for R in (1, 2, 3)}, "operators": {str(R): list(rg.ops(R)) for R in (1, 2, 3)},
            "distributions": rg.PROBS}


def _classical_of_flat(case, prob):
    """scheme 'flat' puts the identity on every winning cell: the unentangled value is the classical value of the 0/1 game."""
    from fractions import Fraction

    from mc.ref import games as cg

    A, B, X, Y = case["shape"]
    pred = [[[[Fraction(int(rg.wins(case["pat"], a, b, x, y, case["shape"]))) for y in range(Y)] for x in range(X)]
             for b in range(B)] for a in range(A)]
    pr = [[Fraction(float(prob[x, y])).limit_denominator(10 ** 12) for y in range(Y)] for x in range(X)]
    return float(cg.classical_best_response(pr, pred))


def unent_check(case):
    from toqito.nonlocal_games.extended_nonlocal_game import ExtendedNonlocalGame

    prob, pred = game_arrays(case)
    if case.get("named"):
        ref = rg.unentangled_batched(prob, pred)
    else:
        ref, _ = rg.unentangled_bruteforce(prob, pred)
        if abs(rg.unentangled_batched(prob, pred) - ref) > 1e-10:
            return viol("harness: the two reference formulations disagree", site="harness")
        if case["scheme"] == "flat" and abs(_classical_of_flat(case, prob) - ref) > 1e-9:
            return viol("harness: unentangled reference of an identity-valued game != exact classical value", site="harness")
    const = rg.unentangled_best_constant(prob, pred)
    nontriv = ref - const > 1e-6
    p0, v0 = prob.copy(), pred.copy()
    game, exc = call(ExtendedNonlocalGame, prob, pred)
    if exc is not None:
        return viol("constructor raised: " + exc_text(exc), site="ExtendedNonlocalGame:exception", nontrivial=nontriv)
    val, exc = call(game.unentangled_value)
    if exc is not None:
        if _solver_failure(exc):
            return indet("solver failure: " + exc_text(exc))
        return viol("unentangled_value raised: " + exc_text(exc), site="unentangled_value:exception", nontrivial=nontriv)
    val = float(np.real(val))
    if not (same_array(prob, p0) and same_array(pred, v0) and same_array(game.prob_mat, p0) and same_array(game.pred_mat, v0)):
        return viol("unentangled_value modified prob_mat / pred_mat", site="unentangled_value:aliasing", nontrivial=nontriv)
    if abs(val - ref) > SCS:
        return viol(f"unentangled value {val:.6f} != max over answer functions of lambda_max = {ref:.6f} (best constant answers: "
                    f"{const:.6f})", site="unentangled_value:value", observed=val, expected=ref, nontrivial=nontriv, best_constant=const)
    ncalls = 1
    if case.get("scheme") in ("hashA", "flat"):  # same object, second call: same value
        val2, exc = call(game.unentangled_value)
        ncalls = 2
        if exc is not None or abs(float(np.real(val2)) - val) > 1e-7:
            return viol("second call on the same game object gave a different result", site="unentangled_value:aliasing",
                        observed=[val, None if exc else float(np.real(val2))], nontrivial=nontriv)
    return ok(nontriv, obs=round(val, 6), calls=ncalls)


# ================================================================================================ C09.product_game
PRODUCT_SHAPES = [(2, 2, 1, 2), (2, 2, 2, 1), (2, 2, 2, 2), (3, 2, 1, 2), (2, 3, 2, 1)]


def product_cases(tier, seed):
    for R in (1, 2, 3):
        for shape in PRODUCT_SHAPES:
            A, B, X, Y = shape
            if R == 3 and shape == (2, 2, 2, 2) and tier == "quick":
                continue
            for pat in ("chsh", "a=x", "b=a+x", "eq"):
                for scheme in (["hashA", "flat"] if R == 1 else ["basis_x", "hashA", "gen"]):
                    for prob in ("skew", "g0"):
                        for reps in (2, 3):
                            size = (R ** reps) ** 2 * (A * B * X * Y) ** reps
                            if reps == 3 and (size > 40000 or tier == "quick" and scheme != "hashA"):
                                continue
                            strategies = (A ** X * B ** Y) ** reps
                            yield {"R": R, "shape": list(shape), "pat": pat, "scheme": scheme, "prob": prob, "reps": reps,
                                   "value": bool(reps == 2 and strategies <= (300 if tier == "quick" else 70000) and prob == "skew")}


def product_check(case):
    from toqito.nonlocal_games.extended_nonlocal_game import ExtendedNonlocalGame

    prob, pred = game_arrays(case)
    reps = case["reps"]
    p0, v0 = prob.copy(), pred.copy()
    prob_r, pred_r = rg.product_game(prob, pred, reps)
    nontriv = bool(np.iscomplexobj(pred)) or len(set(case["shape"])) > 1
    game, exc = call(ExtendedNonlocalGame, prob, pred, reps)
    if exc is not None:
        return viol(f"constructor with reps={reps} raised: " + exc_text(exc), site="ExtendedNonlocalGame:exception", nontrivial=nontriv)
    if not (same_array(prob, p0) and same_array(pred, v0)):
        return viol("constructor modified the caller's arrays", site="ExtendedNonlocalGame:aliasing", nontrivial=nontriv)
    if game.reps != reps:
        return viol("reps attribute not kept", site="ExtendedNonlocalGame:reps", observed=game.reps, expected=reps)
    pm, vm = np.asarray(game.prob_mat), np.asarray(game.pred_mat)
    if pm.shape != prob_r.shape or np.abs(pm - prob_r).max() > 1e-12:
        return viol("prob_mat of the repeated game is not the r-fold tensor power of pi", site="ExtendedNonlocalGame:product_prob",
                    nontrivial=nontriv)
    if vm.shape != pred_r.shape:
        return viol("pred_mat of the repeated game has the wrong shape", site="ExtendedNonlocalGame:product_pred_shape",
                    observed=list(vm.shape), expected=list(pred_r.shape), nontrivial=nontriv)
    err = float(np.abs(vm - pred_r).max())
    if err > 1e-12:
        site = "ExtendedNonlocalGame:product_pred"
        if np.iscomplexobj(pred) and float(np.abs(vm - rg.product_game(prob, pred.real.astype(complex), reps)[1]).max()) <= 1e-12:
            site = "ExtendedNonlocalGame:product_pred_imag"  # it is the product game of the REAL PARTS of the operators
        return viol(f"pred_mat of the repeated game is not V(a_1,b_1|x_1,y_1) (x) ... (x) V(a_r,b_r|x_r,y_r) in Kronecker order "
                    f"(max deviation {err:.3g})", site=site, observed=err, nontrivial=nontriv)
    ncalls = 1
    if case["value"]:
        ref = rg.unentangled_batched(prob_r, pred_r)
        single, _ = rg.unentangled_bruteforce(prob, pred)
        if ref < single ** reps - 1e-9:
            return viol("harness: product reference below the product-strategy value", site="harness")
        val, exc = call(game.unentangled_value)
        ncalls = 2
        if exc is not None:
            return viol("unentangled_value of the repeated game raised: " + exc_text(exc), site="unentangled_value:exception",
                        nontrivial=nontriv)
        if abs(float(np.real(val)) - ref) > SCS:
            return viol(f"unentangled value of the repeated game {float(np.real(val)):.6f} != {ref:.6f}", site="unentangled_value:value",
                        observed=float(np.real(val)), expected=ref, nontrivial=nontriv)
    return ok(nontriv, obs=None, calls=ncalls)


# ================================================================================================ C09.order
DEFAULT = {"R": 2, "shape": [2, 2, 2, 2], "pat": "chsh", "scheme": "basis_xy", "prob": "uniform"}
ORDER_SHAPES = rg.SHAPES_QUICK + [(2, 2, 2, 3), (3, 3, 2, 2)]


def _n_words(shape, level2: bool):
    A, B, X, Y = shape
    na, nb = X * (A - 1), Y * (B - 1)
    n = 1 + na + nb
    if level2:
        n += na * nb + X * (X - 1) * (A - 1) ** 2 + Y * (Y - 1) * (B - 1) ** 2
    return n


def order_levels(case):
    R, shape = case["R"], case["shape"]
    lv = [1, "1+ab"]
    if R * _n_words(shape, True) <= 80:
        lv.append(2)
    return lv


def order_cases(tier, seed):
    seen = set()

    def emit(c, origin):
        key = (c["R"], tuple(c["shape"]), c["pat"], c["scheme"], c["prob"])
        if key in seen:
            return None
        if c["scheme"] not in rg.schemes(c["R"]):
            return None
        if c["prob"] not in rg.probs_for(c["shape"][2], c["shape"][3]):
            return None
        seen.add(key)
        c = dict(c)
        c["origin"] = origin
        return c

    def dev(**kw):
        c = dict(DEFAULT)
        c.update(kw)
        return c
    out = [emit(DEFAULT, "default")]
    axes = {"R": [1, 2, 3], "shape": [list(s) for s in ORDER_SHAPES], "pat": rg.PATTERNS, "scheme": rg.schemes(2),
            "prob": ["uniform", "skew", "g0", "diag"]}
    # k = 1
    for ax, vals in axes.items():
        for v in vals:
            c = dev(**{ax: v})
            if ax == "R" and v == 1:
                c["scheme"] = "hashA"
            out.append(emit(c, "k1:" + ax))
    # cores: full pattern x scheme product on (2,2,2,2) for R = 2 and R = 1, and on the (2,2,3,2) shape of the design probe
    for pat in rg.PATTERNS:
        for scheme in rg.schemes(2):
            out.append(emit(dev(pat=pat, scheme=scheme), "core:R2"))
        for scheme in rg.schemes(1):
            out.append(emit(dev(R=1, pat=pat, scheme=scheme), "core:R1"))
    for pat in ("a=x", "b=a+x", "a=x&b=y"):
        for scheme in ("hashA", "basis_x"):
            out.append(emit(dev(shape=[2, 2, 3, 2], pat=pat, scheme=scheme), "core:(2,2,3,2)"))
    for shape in ([3, 2, 2, 2], [2, 3, 2, 2]):  # unequal answer alphabets, question-dependent and a<->b-asymmetric patterns
        for pat in ("b=a+x", "a=x&b=y"):
            for scheme in ("hashA", "basis_x"):
                out.append(emit(dev(shape=shape, pat=pat, scheme=scheme), "core:unequal-answers"))
    if tier == "thorough":
        names = list(axes)
        for i, j in itertools.combinations(range(len(names)), 2):
            for v in axes[names[i]]:
                for w in axes[names[j]]:
                    c = dev(**{names[i]: v, names[j]: w})
                    if c["R"] == 1 and c["scheme"] not in rg.schemes(1):
                        c["scheme"] = "hashA"
                    out.append(emit(c, f"k2:{names[i]},{names[j]}"))
        out.append({"named": "mub", "R": 3, "shape": [3, 3, 4, 4], "pat": "eq", "scheme": "mub", "prob": "diag", "origin": "named"})
    for c in out:
        if c is not None:
            yield c


def order_alphabets(tier, seed):
    return {"default": DEFAULT, "R": [1, 2, 3], "shapes": [list(s) for s in ORDER_SHAPES], "patterns": rg.PATTERNS,
            "schemes": rg.schemes(2), "distributions": rg.PROBS, "npa_levels": [1, "1+ab", 2],
            "deviation_level_completed": 1 if tier == "quick" else 2, "entropy_tape": "t0",
            "cores": ["pattern x scheme on (2,2,2,2) for R=2 and R=1", "3 patterns x 2 schemes on (2,2,3,2)",
                      "2 patterns x 2 schemes on (3,2,2,2) and (2,3,2,2)"]}


def order_check(case):
    from toqito.nonlocal_games.extended_nonlocal_game import ExtendedNonlocalGame
    from mc.own import entropy_tape

    prob, pred = game_arrays(case)
    named = bool(case.get("named"))
    ref = rg.unentangled_batched(prob, pred)
    const = rg.unentangled_best_constant(prob, pred)
    nontriv = ref - const > 1e-6 or len(set(case["shape"][:2])) > 1
    game, exc = call(ExtendedNonlocalGame, prob, pred)
    if exc is not None:
        return viol("constructor raised: " + exc_text(exc), site="ExtendedNonlocalGame:exception")
    d0 = digest_game(game)
    vals = {"unent_exact": ref}
    ncalls = 0

    def run(name, site, fn, *a):
        nonlocal ncalls
        ncalls += 1
        v, exc = call(fn, *a)
        if exc is not None:
            if _solver_failure(exc):
                return indet(f"{name}: solver failure {exc_text(exc)}")
            return viol(f"{name} raised on an in-domain game: " + exc_text(exc), site=site + ":exception", nontrivial=nontriv)
        if v is None or not np.isfinite(v):
            return indet(f"{name}: solver returned {v!r}")
        vals[name] = float(np.real(v))
        if digest_game(game) != d0:
            return viol(f"{name} changed prob_mat / pred_mat / reps of the game object", site=site + ":aliasing", nontrivial=nontriv)
        return None
    bad = run("unent", "unentangled_value", game.unentangled_value)
    if bad:
        return bad
    levels = [1] if named else order_levels(case)
    for k in levels:
        bad = run(f"npa:{k}", "npa", game.commuting_measurement_value_upper_bound, k)
        if bad:
            return bad
    bad = run("ns", "ns", game.nonsignaling_value)
    if bad:
        return bad
    with entropy_tape("t0"):
        bad = run("qlb", "qlb", game.quantum_value_lower_bound, 1)
    if bad:
        return bad
    eps = SCS
    chain = []
    for k in levels:
        u = f"npa:{k}"
        chain += [("unent_exact", u), ("unent", u), ("qlb", u), (u, "ns")]
    if 2 in levels:
        chain += [("npa:2", "npa:1+ab"), ("npa:2", "npa:1")]
    if "1+ab" in levels:
        chain.append(("npa:1+ab", "npa:1"))
    chain += [("unent_exact", "ns"), ("qlb", "ns")]
    for lo, hi in chain:
        if vals[lo] > vals[hi] + eps:
            return viol(f"ordering violated: {lo} = {vals[lo]:.6f} > {hi} = {vals[hi]:.6f} (slack {eps})",
                        site=f"order:{lo.split(':')[0]}<={hi.split(':')[0]}", observed=vals, expected=f"{lo} <= {hi}", nontrivial=nontriv)
    if min(vals.values()) < -eps:
        return viol("a value is negative", site="order:range", observed=vals, nontrivial=nontriv)
    # trivial cap valid for any strategy: sum_xy pi(x,y) max_ab lambda_max V(a,b|x,y); and the scaling relation (coordinator,
    # after seeded change C07-3): halving every predicate operator halves the NPA level-1 and non-signalling values
    pr, pm = np.asarray(prob, dtype=float), np.asarray(pred)
    _, _, A_, B_, X_, Y_ = pm.shape
    cap = float(sum(pr[x, y] * max(np.linalg.eigvalsh((pm[:, :, a, b, x, y] + pm[:, :, a, b, x, y].conj().T) / 2)[-1]
                                   for a in range(A_) for b in range(B_)) for x in range(X_) for y in range(Y_)))
    for name, val in vals.items():
        if val > cap + eps:
            return viol(f"{name} = {val:.6f} exceeds the trivial cap sum_xy pi max_ab lambda_max V = {cap:.6f}", site=f"order:{name.split(':')[0]}<=cap",
                        observed=vals, expected=cap, nontrivial=nontriv)
    g2, exc = call(ExtendedNonlocalGame, prob, pm / 2)
    if exc is not None:
        return viol("constructor raised on the halved predicate: " + exc_text(exc), site="ExtendedNonlocalGame:exception")
    for name, fn, a in (("npa:1", g2.commuting_measurement_value_upper_bound, (1,)), ("ns", g2.nonsignaling_value, ())):
        v, exc = call(fn, *a)
        ncalls += 1
        if exc is not None or v is None or not np.isfinite(v):
            if exc is not None and not _solver_failure(exc):
                return viol(f"{name} raised on the halved game: " + exc_text(exc), site="order:halved:exception", nontrivial=nontriv)
            return indet(f"{name} of the halved game: solver failure")
        if name in vals and abs(float(np.real(v)) - vals[name] / 2) > eps:
            return viol(f"{name} of the halved game = {float(np.real(v)):.6f}, half of the original = {vals[name] / 2:.6f}",
                        site=f"order:halved:{name.split(':')[0]}", observed=float(np.real(v)), expected=vals[name] / 2, nontrivial=nontriv)
    return ok(nontriv, obs=[round(vals[k], 5) for k in sorted(vals)], calls=ncalls, values=vals)


# ================================================================================================ C09.aliasing (history BFS)
HISTORY_GAMES = [
    {"name": "chsh", "R": 2, "shape": [2, 2, 2, 2], "pat": "chsh", "scheme": "basis_xy", "prob": "uniform", "reps": 1},
    {"name": "complex", "R": 2, "shape": [2, 2, 1, 2], "pat": "b=y", "scheme": "hashA", "prob": "skew", "reps": 1},
    {"name": "asym", "R": 2, "shape": [2, 2, 3, 2], "pat": "a=x", "scheme": "gen", "prob": "g0", "reps": 1},
    {"name": "reps2", "R": 2, "shape": [2, 2, 1, 1], "pat": "eq", "scheme": "basis_x", "prob": "uniform", "reps": 2},
]
EVENTS = ["unent", "ns", "npa:1", "qlb"]


def history_cases(tier, seed):
    for g in HISTORY_GAMES:
        c = dict(g)
        c["events"] = EVENTS
        c["depth"] = 2 if tier == "quick" else 3
        if tier == "thorough" and g["name"] in ("asym", "reps2"):
            c["depth"] = 2
        yield c


def history_check(case):
    from toqito.nonlocal_games.extended_nonlocal_game import ExtendedNonlocalGame
    from mc.history import explore
    from mc.own import digest, entropy_tape

    def make():
        prob, pred = game_arrays(case)
        game = ExtendedNonlocalGame(prob, pred, case["reps"])
        game._verif_args = ([prob, pred], digest(prob, pred))
        return game

    def apply(game, ev):
        if ev == "unent":
            v, exc = call(game.unentangled_value)
        elif ev == "ns":
            v, exc = call(game.nonsignaling_value)
        elif ev.startswith("npa:"):
            v, exc = call(game.commuting_measurement_value_upper_bound, int(ev[4:]))
        elif ev == "qlb":
            with entropy_tape("t0"):
                v, exc = call(game.quantum_value_lower_bound, 1)
        else:
            raise KeyError(ev)
        if exc is not None:
            return "EXC:" + exc_text(exc)
        return None if v is None else float(np.real(v))

    init = {}

    def invariant(game, hist):
        if "d0" not in init:
            init["d0"] = digest_game(make())
        if digest_game(game) != init["d0"]:
            return "prob_mat / pred_mat / reps differ from the freshly constructed game"
        args, d_args = game._verif_args
        if digest(*args) != d_args:
            return "the arrays passed to the constructor were modified"
        return None

    def same(a, b, ev):
        if isinstance(a, str) or isinstance(b, str) or a is None or b is None:
            return a == b
        return abs(a - b) <= 1e-9

    stats, violations = explore(make, case["events"], apply, digest_game, invariant, same, case["depth"])
    base_exc = None
    for ev in case["events"]:
        v = apply(make(), ev)
        if isinstance(v, str) or v is None:
            base_exc = (ev, v)
    info = {"states": stats["states"], "transitions": stats["transitions"] + 3 * len(case["events"]), "histories": stats["histories"],
            "max_depth": stats["max_depth"], "replayed_twice": stats["replayed_twice"]}
    if violations:
        v = violations[0]
        detail = {"invariant": "game object changed after history ", "differential": "value after history differs from the value from "
                  "the initial state: ", "nondeterministic": "same single-event history gave two different values: "}[v["kind"]]
        return viol(detail + str(v["history"]) + " " + str({k: v[k] for k in v if k not in ("kind", "history")}),
                    site="history:" + v["kind"], observed={k: v[k] for k in v if k != "kind"}, n_violations=len(violations), **info)
    if base_exc is not None:
        if "SolverError" in str(base_exc[1]):
            return indet(f"event {base_exc[0]} fails from the initial state: {base_exc[1]}")
        return viol(f"event {base_exc[0]} gives no value from the initial state: {base_exc[1]}", site="history:exception", **info)
    return ok(True, obs=[stats["states"], stats["transitions"], stats["histories"]], **info)


# ================================================================================================ C09.hedging
MW_ALPHAS = {"a2": 1 / np.sqrt(2), "a3": 1 / np.sqrt(3), "a23": np.sqrt(2 / 3)}
MW_THETAS = {"t8": np.pi / 8, "t6": np.pi / 6, "t4": np.pi / 4, "t3": np.pi / 3}


def hedging_ops() -> dict:
    out = {}
    for an, al in MW_ALPHAS.items():
        for tn, th in MW_THETAS.items():
            q0, q1 = rs.molina_watrous(al, th)
            out[f"mw:{an}:{tn}:q0"] = q0
            out[f"mw:{an}:{tn}:q1"] = q1
    q0, _ = rs.molina_watrous(MW_ALPHAS["a2"], MW_THETAS["t8"])
    out["mixr"] = 0.6 * rs.molina_watrous(MW_ALPHAS["a2"], MW_THETAS["t6"])[0] + 0.1 * np.eye(4)
    out["diag"] = np.diag([1.0, 0.5, 0.25, 0.0])
    g0, g1 = catalog.ket(2, "g0"), catalog.ket(2, "g1")
    v = np.kron(g0, catalog.ket(2, "e0")) + 1j * np.kron(g1, catalog.ket(2, "e1"))
    v = v / np.linalg.norm(v)
    out["cket"] = np.outer(v, v.conj())
    out["cdens"] = 2.0 * catalog.generic_density(4, 0)
    U = np.kron(catalog.unitary(2, "g0"), catalog.unitary(2, "S") @ catalog.unitary(2, "H"))
    out["cmw"] = U @ q0 @ U.conj().T  # local unitaries on Y and on X leave both optima unchanged
    return out


C8, S8 = np.cos(np.pi / 8) ** 2, np.sin(np.pi / 8) ** 2
CLOSED = {  # (q, q2 or None, sense) -> value  (docstring family: alpha = 1/sqrt 2, theta = pi/8)
    ("mw:a2:t8:q0", None, "max"): C8, ("mw:a2:t8:q0", None, "min"): S8,
    ("mw:a2:t8:q0", "mw:a2:t8:q0", "max"): C8 ** 2, ("mw:a2:t8:q0", "mw:a2:t8:q0", "min"): 0.0,
    ("cmw", None, "max"): C8, ("cmw", None, "min"): S8, ("cmw", "cmw", "max"): C8 ** 2, ("cmw", "cmw", "min"): 0.0,
    ("mw:a2:t8:q1", None, "min"): 0.0, ("mw:a2:t8:q1", "mw:a2:t8:q1", "min"): 0.0,
}


def hedging_cases(tier, seed):
    names = list(hedging_ops())
    for n in names:
        yield {"reps": 1, "q": n, "form": "ndarray"}
    q0s = [n for n in names if n.endswith(":q0")]
    others = ["mixr", "diag", "cket", "cdens", "cmw"]
    pairs = [(n, n) for n in (q0s if tier == "thorough" else [n for n in q0s if ":t8:" in n or ":a2:" in n]) + others]
    pairs += [("mw:a2:t8:q0", "mw:a2:t8:q1"), ("mw:a3:t6:q1", "mw:a23:t3:q0"), ("cket", "mw:a2:t8:q0"), ("cdens", "diag"),
              ("mw:a2:t8:q1", "mw:a2:t8:q1"), ("cmw", "cdens")]
    if tier == "thorough":
        pairs += [(a, b) for a in others for b in others if a != b]
        pairs += [(n, n.replace(":q0", ":q1")) for n in q0s]
    seen = set()
    for a, b in pairs:
        if (a, b) not in seen:
            seen.add((a, b))
            yield {"reps": 2, "q": a, "q2": b}


METHODS = [("max", "primal", "max_prob_outcome_a_primal"), ("max", "dual", "max_prob_outcome_a_dual"),
           ("min", "primal", "min_prob_outcome_a_primal"), ("min", "dual", "min_prob_outcome_a_dual")]


def _hedging_values(Q, reps):
    """{(sense, form): value} or (None, failure result)."""
    from toqito.nonlocal_games.quantum_hedging import QuantumHedging

    snap = Q.copy()
    obj, exc = call(QuantumHedging, Q, reps)
    if exc is not None:
        return None, viol("QuantumHedging constructor raised: " + exc_text(exc), site="hedging:exception")
    vals = {}
    for sense, form, meth in METHODS:
        v, exc = call(getattr(obj, meth))
        if exc is not None:
            if _solver_failure(exc):
                return None, indet(f"{meth}: solver failure " + exc_text(exc))
            return None, viol(f"{meth} raised: " + exc_text(exc), site=f"hedging:{sense}_{form}:exception")
        if v is None or not np.isfinite(v):
            return None, indet(f"{meth}: solver returned {v!r}")
        vals[(sense, form)] = float(np.real(v))
        if not same_array(Q, snap):
            return None, viol(f"{meth} modified the operator passed to the constructor", site="hedging:aliasing")
    return vals, None


def hedging_check(case):
    opsd = hedging_ops()
    reps = case["reps"]
    Qa = opsd[case["q"]]
    Q = Qa if reps == 1 else np.kron(Qa, opsd[case["q2"]])
    cplx = bool(np.abs(np.imag(Q)).max() > 1e-12)
    vals, bad = _hedging_values(Q, reps)
    if bad:
        return bad
    br = {s: rs.hedging_bracket(Q, reps, s) for s in ("max", "min")}
    if br["max"] is None or br["min"] is None:
        return indet("own bracket: solver failure")
    nontriv = br["max"]["L"] - br["min"]["U"] > 1e-6
    scale = max(1.0, br["max"]["U"])
    for key in ((case["q"], case.get("q2"), "max"), (case["q"], case.get("q2"), "min")):
        if key in CLOSED and not (br[key[2]]["L"] - 1e-6 <= CLOSED[key] <= br[key[2]]["U"] + 1e-6):
            return viol("harness: closed form outside the own certified bracket", site="harness",
                        observed=[br[key[2]]["L"], br[key[2]]["U"]], expected=CLOSED[key])
    for sense, form, meth in METHODS:
        L, U = br[sense]["L"], br[sense]["U"]
        v = vals[(sense, form)]
        if v < L - SCS * scale or v > U + SCS * scale:
            return viol(f"{meth} = {v:.6f} outside the certified bracket [{L:.6f}, {U:.6f}] of the {sense} program "
                        f"({'complex' if cplx else 'real'} operator, {reps} repetition(s))", site=f"hedging:{sense}_{form}",
                        observed=v, expected=[L, U], nontrivial=nontriv, complex=cplx)
    for sense in ("max", "min"):
        if abs(vals[(sense, "primal")] - vals[(sense, "dual")]) > 2 * SCS * scale:
            return viol(f"{sense}: primal {vals[(sense, 'primal')]:.6f} != dual {vals[(sense, 'dual')]:.6f}", site=f"hedging:{sense}_duality",
                        observed=[vals[(sense, "primal")], vals[(sense, "dual")]], nontrivial=nontriv)
    if vals[("max", "primal")] < vals[("min", "primal")] - 2 * SCS * scale:
        return viol("maximal probability below the minimal one", site="hedging:max>=min", observed=[vals[("max", "primal")], vals[("min", "primal")]])
    ncalls = 4
    if reps == 2:
        # n-repetition consistency on product operators, on toqito's own single-shot values
        Qb = opsd[case["q2"]]
        va, bad = _hedging_values(Qa, 1)
        if bad:
            return bad
        vb, bad = (va, None) if case["q2"] == case["q"] else _hedging_values(Qb, 1)
        if bad:
            return bad
        ncalls += 8
        for form in ("primal", "dual"):
            prod = va[("max", form)] * vb[("max", form)]
            if abs(vals[("max", form)] - prod) > 4 * SCS * scale:
                return viol(f"max ({form}) for two repetitions {vals[('max', form)]:.6f} != product of the single-shot optima {prod:.6f}",
                            site="hedging:max_product", observed=vals[("max", form)], expected=prod, nontrivial=nontriv)
            prodm = va[("min", form)] * vb[("min", form)]
            if vals[("min", form)] > prodm + 4 * SCS * scale or vals[("min", form)] < -SCS * scale:
                return viol(f"min ({form}) for two repetitions {vals[('min', form)]:.6f} not in [0, product of single-shot minima {prodm:.6f}]",
                            site="hedging:min_product", observed=vals[("min", form)], expected=[0.0, prodm], nontrivial=nontriv)
    for (qa, qb, sense), cf in CLOSED.items():
        if (qa, qb) == (case["q"], case.get("q2")):
            for form in ("primal", "dual"):
                if abs(vals[(sense, form)] - cf) > SCS:
                    return viol(f"closed form: {sense} ({form}) = {vals[(sense, form)]:.6f}, expected {cf:.6f}", site="hedging:closed_form",
                                observed=vals[(sense, form)], expected=cf, nontrivial=nontriv)
    return ok(nontriv, obs=[round(vals[k], 5) for k in sorted(vals)], calls=ncalls, width=br["max"]["U"] - br["max"]["L"])


def hedging_alphabets(tier, seed):
    return {"operators": list(hedging_ops()), "reps": [1, 2], "methods": [m[2] for m in METHODS]}


# ================================================================================================ C09.cloning
CLONE_KETS_QUICK = ["e0", "e1", "+", "-", "+i", "-i", "g0", "g1"]
CLONE_KETS_MORE = ["pi8ph", "trine1"]
NAMED_ENSEMBLES = {
    "bb84": ["e0", "e1", "+", "-"], "six": ["e0", "e1", "+", "-", "+i", "-i"], "single": ["g0"], "orth_c": ["+i", "-i"],
    "pair": ["e0", "+"], "gpair": ["g0", "g1"], "mixed3": ["e0", "+i", "g0"], "yz": ["e0", "e1", "+i", "-i"],
}


def clone_cases(tier, seed):
    kets = CLONE_KETS_QUICK + (CLONE_KETS_MORE if tier == "thorough" else [])
    seen = set()

    def emit(c):
        key = (tuple(c["kets"]), c["prior"], c["reps"], c["form"])
        if key in seen:
            return None
        seen.add(key)
        return c
    out = []
    for size in (1, 2, 3, 4):
        for sub in itertools.combinations(kets, size):
            priors = ["uniform"]
            if size > 1 and (tier == "thorough" or size <= 3):
                priors.append("ramp")
            if size > 1 and (tier == "thorough" or size == 2):
                priors.append("g0")
            if size == 3:
                priors.append("zero0")  # first state never selected (prior exactly 0) - added after seeded change C09-12
            for pr in priors:
                out.append(emit({"kets": list(sub), "prior": pr, "reps": 1, "form": "col"}))
    out.append(emit({"kets": NAMED_ENSEMBLES["six"], "prior": "uniform", "reps": 1, "form": "col"}))
    out.append(emit({"kets": NAMED_ENSEMBLES["six"], "prior": "zeromid", "reps": 1, "form": "col"}))
    out.append(emit({"kets": NAMED_ENSEMBLES["six"], "prior": "ramp", "reps": 1, "form": "col"}))
    # input forms: 1-D vectors, density matrices, real dtype (only real kets), priors as ndarray
    for name, ens in NAMED_ENSEMBLES.items():
        for form in ("vec1d", "dm", "colreal", "vec1dreal", "col_nd"):
            if form in ("colreal", "vec1dreal") and any(np.abs(catalog.ket(2, k).imag).max() > 0 for k in ens):
                continue
            out.append(emit({"kets": ens, "prior": "uniform", "reps": 1, "form": form}))
    # "natural" form: every ket in the narrowest dtype that holds it (float for real kets, complex otherwise), real ones first - one list
    # then mixes dtypes (after seeded change C09-5: the need for conjugation was decided from the first state's dtype only)
    for name, ens in NAMED_ENSEMBLES.items():
        out.append(emit({"kets": ens, "prior": "uniform", "reps": 1, "form": "natural"}))
    for sub in itertools.combinations(kets, 3):
        out.append(emit({"kets": list(sub), "prior": "ramp", "reps": 1, "form": "natural"}))
    for a, b in itertools.combinations(kets, 2):
        for form in ("vec1d", "dm", "vec1dreal"):
            if form == "vec1dreal" and any(np.abs(catalog.ket(2, k).imag).max() > 0 for k in (a, b)):
                continue
            out.append(emit({"kets": [a, b], "prior": "ramp", "reps": 1, "form": form}))
    # two repetitions
    r2 = list(NAMED_ENSEMBLES.values())
    if tier == "thorough":
        r2 += [list(s) for s in itertools.combinations(CLONE_KETS_QUICK, 2)] + [[k] for k in kets]
    for ens in r2:
        for pr in (["uniform"] if len(ens) == 1 else ["uniform", "ramp"]):
            out.append(emit({"kets": ens, "prior": pr, "reps": 2, "form": "col"}))
    for c in out:
        if c is not None:
            yield c


def clone_alphabets(tier, seed):
    kets = CLONE_KETS_QUICK + (CLONE_KETS_MORE if tier == "thorough" else [])
    return {"kets": kets, "subset_sizes": [1, 2, 3, 4], "named": NAMED_ENSEMBLES, "priors": ["uniform", "ramp", "g0", "zero0", "zeromid"], "reps": [1, 2],
            "forms": ["col (complex dtype column)", "colreal (float dtype column)", "vec1d", "vec1dreal (float dtype 1-D)", "dm (pure density matrix)",
                      "col_nd (priors as ndarray)"], "strategy": ["dual (False)", "primal (True)"]}


def _clone_closed_form(kets):
    """Known optima for uniform priors (None if not in the closed-form sub-alphabet)."""
    s = sorted(kets)
    if len(s) == 1:
        return 1.0
    vs = [catalog.ket(2, k) for k in kets]
    if len(s) == 2 and abs(np.vdot(vs[0], vs[1])) < 1e-12:
        return 1.0
    if s in (sorted(["e0", "e1", "+", "-"]), sorted(["e0", "e1", "+i", "-i"]), sorted(["+", "-", "+i", "-i"])):
        return 0.75
    if s == sorted(NAMED_ENSEMBLES["six"]):
        return 2 / 3
    return None


def _clone_prior(n, key):
    if key == "uniform" or n == 1:
        return np.ones(n) / n
    if key == "ramp":
        w = np.arange(n, 0, -1, dtype=float)
        return w / w.sum()
    if key in ("zero0", "zeromid"):
        w = np.arange(1, n + 1, dtype=float)
        w[0 if key == "zero0" else n // 2] = 0.0
        return w / w.sum()
    return rg.generic_dist(n, int(key[1:]))


def clone_check(case):
    from toqito.state_opt import optimal_clone

    names, reps, form = case["kets"], case["reps"], case["form"]
    vs = [catalog.ket(2, k) for k in names]
    n = len(vs)
    p = _clone_prior(n, case["prior"])
    if form in ("col", "col_nd"):
        states = [v.reshape(-1, 1).astype(complex) for v in vs]
    elif form == "colreal":
        states = [v.real.reshape(-1, 1).copy() for v in vs]
    elif form == "vec1d":
        states = [v.copy() for v in vs]
    elif form == "vec1dreal":
        states = [v.real.copy() for v in vs]
    elif form == "dm":
        states = [np.outer(v, v.conj()) for v in vs]
    elif form == "natural":
        order = sorted(range(n), key=lambda i: (np.abs(vs[i].imag).max() > 0, i))
        vs = [vs[i] for i in order]
        p = np.array([p[i] for i in order])
        states = [(v.real.copy() if np.abs(v.imag).max() == 0 else v.copy()).reshape(-1, 1) for v in vs]
    else:
        raise KeyError(form)
    probs = np.array(p, dtype=float) if form == "col_nd" else [float(x) for x in p]
    snap_states = [s.copy() for s in states]
    snap_probs = list(np.asarray(probs).tolist())
    b1 = rs.bracket(rs.clone_operator(vs, p), 4, 2, "max")
    if b1 is None:
        return indet("own bracket: solver failure")
    L, U = (b1["L"], b1["U"]) if reps == 1 else (b1["L"] ** reps, b1["U"] ** reps)
    cf = _clone_closed_form(names)
    if cf is not None and cf != 1.0 and case["prior"] != "uniform":
        cf = None  # 3/4 and 2/3 are the uniform-prior optima; perfect cloning (single state, orthogonal pair) holds for every prior
    if cf is not None and not (b1["L"] - 1e-6 <= cf <= b1["U"] + 1e-6):
        return viol("harness: closed form outside the own certified bracket", site="harness", observed=[b1["L"], b1["U"]], expected=cf)
    nontriv = U < 1 - 1e-6
    cplx = any(np.abs(v.imag).max() > 0 for v in vs)
    vals = {}
    for strat, nm in ((False, "dual"), (True, "primal")):  # both calls receive the same argument objects
        v, exc = call(optimal_clone, states, probs, reps, strat)
        if exc is not None:
            if _solver_failure(exc):
                return indet(f"{nm}: solver failure " + exc_text(exc))
            return viol(f"optimal_clone ({nm}, form {form}, {'complex' if cplx else 'real'} states) raised: " + exc_text(exc),
                        site=f"optimal_clone:exception:{form}", nontrivial=nontriv, complex=cplx)
        if v is None or not np.isfinite(v):
            return indet(f"{nm}: solver returned {v!r}")
        vals[nm] = float(np.real(v))
        if len(states) != len(snap_states) or any(not same_array(a, b) for a, b in zip(states, snap_states)) or \
                list(np.asarray(probs).tolist()) != snap_probs:
            return viol("optimal_clone modified its arguments", site="optimal_clone:aliasing", nontrivial=nontriv)
    for nm, v in vals.items():
        if v < L - SCS or v > U + SCS:
            return viol(f"optimal_clone ({nm}, form {form}, reps {reps}) = {v:.6f} outside the certified bracket [{L:.6f}, {U:.6f}]",
                        site=f"optimal_clone:{nm}:{form}", observed=v, expected=[L, U], nontrivial=nontriv, complex=cplx)
    if abs(vals["primal"] - vals["dual"]) > 2 * SCS:
        return viol("primal != dual", site="optimal_clone:duality", observed=[vals["primal"], vals["dual"]], nontrivial=nontriv)
    if cf is not None:
        for nm, v in vals.items():
            if abs(v - cf ** reps) > SCS:
                return viol(f"closed form: optimal_clone ({nm}) = {v:.6f}, expected {cf ** reps:.6f}", site="optimal_clone:closed_form",
                            observed=v, expected=cf ** reps, nontrivial=nontriv)
    return ok(nontriv, obs=[round(vals["dual"], 5), round(vals["primal"], 5)], calls=2, width=U - L)


# ================================================================================================ clauses
# ------------------------------------------------------------------------------------------------ hedging: call histories
def hedging_history_cases(tier, seed):
    names = list(hedging_ops())
    picks = [names[0], names[-1]] if tier == "quick" else [names[0], names[len(names) // 2], names[-2], names[-1]]
    for q in picks:
        yield {"q": q, "reps": 1, "depth": 2 if tier == "quick" else 3}


def _obj_digest(obj):
    from mc.own import digest

    parts = []
    for k in sorted(vars(obj)):
        v = vars(obj)[k]
        if isinstance(v, np.ndarray):
            parts.append(digest(v))
        elif isinstance(v, (int, float, complex, str, bool)) or v is None:
            parts.append(repr(v))
    return "|".join(parts)


def hedging_history_check(case):
    """BFS over call histories of one QuantumHedging object (events = its four value methods): the object's arrays and the
    operator passed by the caller never change, and every value equals the value from the initial state."""
    from mc.history import explore
    from toqito.nonlocal_games.quantum_hedging import QuantumHedging

    Q0 = hedging_ops()[case["q"]]
    holder = {}

    def make():
        holder["Q"] = Q0.copy()
        return QuantumHedging(holder["Q"], case["reps"])

    def apply(obj, ev):
        v, exc = call(getattr(obj, ev))
        if exc is not None:
            return "EXC:" + exc_text(exc)
        return None if v is None else round(float(np.real(v)), 4)

    def invariant(obj, hist):
        if not same_array(holder["Q"], Q0):
            return "the operator passed by the caller was modified"
        return None

    def same(a, b, ev):
        if isinstance(a, str) or isinstance(b, str) or a is None or b is None:
            return a == b
        return abs(a - b) <= 2 * SCS

    events = [m for _, _, m in METHODS]
    base = _obj_digest(make())
    stats, bad = explore(make, events, apply, _obj_digest, invariant, same, case["depth"])
    for b in bad:
        return viol(f"hedging call history: {b['kind']} after {b.get('history')}: {b.get('detail', '')} "
                    f"{b.get('after_history', '')} vs {b.get('from_initial', '')}", site="hedging:history:" + b["kind"], observed=jsonable_hist(b))
    if stats["states"] != 1:
        return viol("a value method changed the state of the QuantumHedging object", site="hedging:history:state", observed=stats)
    return ok(True, obs=[stats["states"], stats["transitions"], stats["histories"]], states=stats["states"],
              transitions=stats["transitions"], histories=stats["histories"])


def jsonable_hist(b):
    return {k: (v if isinstance(v, (str, int, float, list, type(None))) else repr(v)) for k, v in b.items()}


CLAUSES = [
    Clause("C09.unentangled_exact", unent_cases, unent_check, tol="scs(1e-3) against an exact eigvalsh brute force",
           doc="unentangled_value == max over ALL pairs of answer functions (f,g) of lambda_max(sum pi V(f(x),g(y)|x,y)); game arrays "
               "untouched; second call identical", alphabets=unent_alphabets, weight=0.3),
    Clause("C09.product_game", product_cases, product_check, tol="exact (1e-12 on float products); value scs(1e-3)",
           doc="ExtendedNonlocalGame(reps=r): prob_mat = pi^(x)r, pred_mat = (x)_k V(a_k,b_k|x_k,y_k) in Kronecker order (complex kept), reps "
               "kept, caller arrays untouched; unentangled value of the repeated game exact on the small ones", weight=0.5),
    Clause("C09.order", order_cases, order_check, tol="scs(1e-3)", chunk=1, probe=2, alphabets=order_alphabets, weight=8.0,
           doc="unentangled (toqito and exact) <= NPA_k, owned-entropy see-saw value <= NPA_k, NPA_2 <= NPA_1+ab <= NPA_1 <= NS; every "
               "method leaves the game object unchanged; every method returns a value for every referee dimension / shape"),
    Clause("C09.aliasing", history_cases, history_check, tol="1e-9 between repeated SDP values; bitwise on arrays", chunk=1, probe=1,
           weight=40.0, doc="BFS over call histories of {unentangled, ns, npa(1), see-saw}: prob_mat / pred_mat / reps and the caller's "
                            "arrays bitwise unchanged in every state, every value equals the value from the initial state"),
    Clause("C09.hedging", hedging_cases, hedging_check, tol="scs(1e-3 rel) against a certified bracket", chunk=1, probe=2,
           alphabets=hedging_alphabets, weight=2.0,
           doc="QuantumHedging max/min primal/dual inside the certified bracket of the documented program (real and complex Q, 1-2 "
               "reps), primal = dual, max >= min, max_2 = max_1 * max_1', 0 <= min_2 <= min_1 * min_1', cos^2(pi/8) / sin^2(pi/8) / perfect hedging"),
    Clause("C09.hedging_history", hedging_history_cases, hedging_history_check, tol="scs(2e-3)", chunk=1, weight=8.0, probe=1,
           doc="BFS over call histories of one QuantumHedging object: arrays and caller's operator unchanged, values reproducible"),
    Clause("C09.cloning", clone_cases, clone_check, tol="scs(1e-3) against a certified bracket", chunk=2, probe=2,
           alphabets=clone_alphabets, weight=0.6,
           doc="optimal_clone primal and dual inside the certified bracket (reps 2: bracket^2 by multiplicativity), primal = dual, 1 / 3/4 / "
               "2/3 closed forms, all input forms (column, 1-D, density matrix, real/complex dtype), arguments untouched"),
]
