"""C03 — partial transpose and realignment exchange exactly the stated indices (exact, full product over configurations).

Partial transpose: out[R, C] = X[i, j] with (i_k, j_k) = (C_k, R_k) for k in S and (R_k, C_k) otherwise; the output's
row dims are c_k on S (r_k elsewhere).  Realignment: R[(i1,j1),(i2,j2)] = X[(i1,i2),(j1,j2)].  Both are pure gathers:
every configuration is run on pairwise distinct formal string labels (object dtype) — which reveals the complete
index map — and on int64 / float64 / complex128 labellings for dtype-dependent paths.
"""

from __future__ import annotations

import itertools

import numpy as np

from mc.engine import Clause, call, exc_text, ok, viol
from mc.ref import c02_labels as lb
from mc.ref import tensor_index as ti

held_values = lb.held_values
make_variable = lb.make_variable

RULE = ("case = (row dims, col dims, S in a given listing order as list | ndarray | bare int | omitted, dim form flat / "
        "2-row / ndarray / omitted, entry labelling or Variable kind) for partial_transpose; (r1,r2,c1,c2, dim form "
        "omitted / int / [d1,d2] / 2x2, labelling) for realignment; every case of the listed alphabets is executed once "
        "(full product, nothing sampled); distinct by canonical JSON; a partial-transpose case is non-trivial iff some "
        "subsystem in S and some subsystem outside S have local dimension >= 2 (the map is neither the identity nor the "
        "plain transpose), a realignment case is non-trivial iff it is in the stated domain (all local dims >= 2: the map "
        "is never the identity there); compared cell by cell with an integer index oracle")
ASSUMPTIONS = [
    "numpy reshape/transpose/fancy indexing move entries without arithmetic (checked by running every configuration on "
    "formal string labels and on unrelated int64/float64/complex128 labellings)",
    "domain: matrices with >=2 rows and >=2 columns; square inputs (same row and column dims) with local dims in {1,2,3}; "
    "inputs whose row and column dims differ only with every local dimension >= 2; realignment local dims >= 2",
    "shapes bounded: n<=3 subsystems + {1,2}^4 (quick) / n<=4 over {1,2,3} (thorough); rectangular dims in {2,3}^n, n<=3, "
    "plus {2,3,4}^2 pairs in thorough; realignment (r1,r2,c1,c2) in {2,3,4}^4 (quick) / {2,3,4,5}^4 (thorough)",
    "a single subsystem is only expressible with a flat dim (a 2x1 dim array is documented as a flat vector), so "
    "rectangular single-subsystem inputs are not enumerated; scalar dim for partial_transpose is not a documented form",
    "cvxpy: Variable(real | complex=True | hermitian=True) with .value set; '.value' of the returned expression compared "
    "(tolerance alg) for two different held arrays; realignment's signature takes ndarray only, Variable inputs are not judged",
    "a fresh dim object is passed on every call (partial_transpose overwrites a caller-owned 2-row ndarray dim in place; "
    "caller data is not part of the C03 statement, so that is reported as an observation, not judged)",
]

PT = "partial_transpose"
RE = "realignment"


# ------------------------------------------------------------------------------------------------ alphabets
def square_dims(tier):
    out = []
    for n in (1, 2, 3):
        out += [list(d) for d in itertools.product((1, 2, 3), repeat=n)]
    out += [list(d) for d in itertools.product((1, 2), repeat=4)]
    if tier == "thorough":
        out += [list(d) for d in itertools.product((1, 2, 3), repeat=4) if 3 in d]
        out += [[4, 2], [2, 4], [4, 3], [4, 4], [2, 4, 3]]
    return [d for d in out if ti.prod(d) >= 2]


def rect_dims(tier):
    """(rdims, cdims) with rdims != cdims and every local dimension >= 2."""
    out = []
    for n in (2, 3):
        for rd in itertools.product((2, 3), repeat=n):
            for cd in itertools.product((2, 3), repeat=n):
                if rd != cd:
                    out.append((list(rd), list(cd)))
    if tier == "thorough":
        for rd in itertools.product((2, 3, 4), repeat=2):
            for cd in itertools.product((2, 3, 4), repeat=2):
                if rd != cd and 4 in rd + cd:
                    out.append((list(rd), list(cd)))
    return out


def sys_alphabet(n):
    """(form, sys as JSON, S): every listing order as list and as ndarray, bare ints, omitted (= second subsystem)."""
    orders = lb.sublists_in_every_order(n)
    out = [("list", s, s) for s in orders]
    out += [("ndarray", s, s) for s in orders]
    out += [("int", k, [k]) for k in range(n)]
    if n >= 2:
        out.append(("omitted", None, [1]))
    return out


def pt_dim_forms(rd, cd):
    n = len(rd)
    forms = []
    if rd == cd:
        forms += ["flat", "flat_nd"]
    if n >= 2:
        forms += ["2row", "2row_nd"]
        if n == 2 and rd[0] == rd[1] and cd[0] == cd[1]:
            forms.append("omitted")
    return forms


def pt_dim_arg(rd, cd, form):
    if form == "flat":
        return list(rd)
    if form == "flat_nd":
        return np.array(rd)
    if form == "2row":
        return [list(rd), list(cd)]
    if form == "2row_nd":
        return np.array([list(rd), list(cd)])
    if form == "omitted":
        return None
    raise KeyError(form)


def sys_arg(form, s):
    if form == "list":
        return list(s)
    if form == "ndarray":
        return np.array(s)
    if form == "int":
        return int(s)
    return None


def run_ptr(X, sform, s, dim):
    from toqito.channels import partial_transpose

    kw = {}
    if sform != "omitted":
        kw["sys"] = sys_arg(sform, s)
    if dim is not None:
        kw["dim"] = dim
    return call(partial_transpose, X, **kw)


def pt_nontrivial(rd, cd, S):
    big = [k for k in range(len(rd)) if max(rd[k], cd[k]) >= 2]
    return any(k in S for k in big) and any(k not in S for k in big)


def small(x, limit=36):
    a = np.asarray(x)
    if a.size > limit or a.ndim != 2:
        return None if a.size > limit else repr(a.tolist())
    return [[repr(v) if a.dtype == object else v for v in row] for row in a.tolist()]


def pt_expected(X, rd, cd, S):
    ord_, ocd, src = ti.partial_transpose_src(list(rd), list(cd), set(S))
    return ord_, ocd, lb.gather_expected(X, src)


# ------------------------------------------------------------------------------------------------ C03.pt_index
def pt_index_cases(tier, seed):
    for rd in square_dims(tier):
        n = len(rd)
        N = ti.prod(rd)
        ents = ("sym", "int", "intB", "float", "complex", "ctiny", "neardiag", "nearzero") if n <= 3 else ("sym", "complex")
        for sform, s, S in sys_alphabet(n):
            for dform in pt_dim_forms(rd, rd):
                for ent in ents:
                    yield {"rdims": rd, "cdims": rd, "sysform": sform, "sys": s, "dimform": dform, "entries": ent}
    # local dimensions whose products are numbers n with (1/n)*n != 1 in floating point (49, 98, 103, 107, ...): a size computed through
    # a reciprocal and truncated comes out one too small (added after seeded change C03-9)
    for rd, cd in (([7, 7], [7, 7]), ([7, 7, 2], [7, 7, 2]), ([2, 7, 7], [2, 7, 7]), ([49, 2], [49, 2]), ([103, 1], [103, 1]),
                   ([49, 2], [2, 3]), ([2, 49], [3, 2])):
        n = len(rd)
        for sform, s, S in sys_alphabet(n):
            if sform == "ndarray":
                continue
            for dform in pt_dim_forms(rd, cd):
                if not dform.endswith("_nd"):
                    yield {"rdims": rd, "cdims": cd, "sysform": sform, "sys": s, "dimform": dform, "entries": "int"}
    for rd, cd in rect_dims(tier):
        n = len(rd)
        ents = ("sym", "int", "intB", "float", "complex") if (n <= 2 or tier == "thorough") else ("sym", "complex")
        for sform, s, S in sys_alphabet(n):
            for dform in pt_dim_forms(rd, cd):
                for ent in ents:
                    yield {"rdims": rd, "cdims": cd, "sysform": sform, "sys": s, "dimform": dform, "entries": ent}


def S_of(case):
    s = case["sys"]
    return [1] if s is None else ([s] if isinstance(s, int) else list(s))


def pt_index_check(case):
    rd, cd = case["rdims"], case["cdims"]
    S = S_of(case)
    X = lb.labelled(ti.prod(rd), ti.prod(cd), case["entries"])
    ord_, ocd, exp = pt_expected(X, rd, cd, S)
    dim_arg = pt_dim_arg(rd, cd, case["dimform"])
    dim_snap = None if dim_arg is None else np.asarray(dim_arg).tolist()
    x_arg = X.copy()
    got, exc = run_ptr(x_arg, case["sysform"], case["sys"], dim_arg)
    if exc is not None:
        return viol("partial_transpose raised on an in-domain configuration: " + exc_text(exc), site=PT + ":exception:" + case["dimform"],
                    observed=exc_text(exc))
    # argument aliasing (coordinator addendum): the caller's dim / input must be left as they were
    if (dim_arg is not None and np.asarray(dim_arg).tolist() != dim_snap) or not lb.same_cells(x_arg, X):
        return viol("partial_transpose modified the caller's dim or input array", site=PT + ":aliasing",
                    observed=None if dim_arg is None else np.asarray(dim_arg).tolist(), expected=dim_snap)
    g = np.asarray(got)
    if g.shape != (ti.prod(ord_), ti.prod(ocd)):
        return viol(f"output shape {g.shape}, expected {(ti.prod(ord_), ti.prod(ocd))} (row dims become the column dims on S)",
                    site=PT + ":shape", observed=list(g.shape), expected=[ti.prod(ord_), ti.prod(ocd)])
    if not lb.same_cells(g, exp):
        return viol("row/column index exchanged on other subsystems than exactly those in S", site=PT + ":index",
                    observed=small(g), expected=small(np.array(exp, dtype=object)))
    return ok(pt_nontrivial(rd, cd, S))


# ------------------------------------------------------------------------------------------------ C03.pt_factor
def subsets_sorted_and_reversed(n):
    out = []
    for k in range(1, n + 1):
        for c in itertools.combinations(range(n), k):
            out.append(list(c))
            if k >= 2:
                out.append(list(c[::-1]))
    return out


def pt_factor_cases(tier, seed):
    for rd in square_dims(tier):
        for S in subsets_sorted_and_reversed(len(rd)):
            yield {"rdims": rd, "cdims": rd, "sys": S}
    for rd, cd in rect_dims(tier):
        for S in subsets_sorted_and_reversed(len(rd)):
            yield {"rdims": rd, "cdims": cd, "sys": S}


def pt_factor_check(case):
    """Second, independent formulation: PT_S(A_0 (x) ... (x) A_{n-1}) = (x)_k (A_k^T if k in S else A_k) on factors filled
    with pairwise distinct primes (unique factorisation makes equality exact); cross-checked against the index oracle."""
    rd, cd, S = case["rdims"], case["cdims"], case["sys"]
    n = len(rd)
    factors = ti.prime_factors(list(zip(rd, cd)))
    Xl = ti.kron_lists(factors)
    tf = [[list(col) for col in zip(*f)] if k in S else f for k, f in enumerate(factors)]
    exp = ti.kron_lists(tf)
    X = np.array(Xl, dtype=object)
    _, _, exp2 = pt_expected(X, rd, cd, S)
    assert exp2 == exp, "reference models disagree (index oracle vs factor oracle)"
    if max(max(r) for r in Xl) < 2 ** 62:
        X = X.astype(np.int64)
    dim = list(rd) if (rd == cd and n == 1) else [list(rd), list(cd)]
    got, exc = run_ptr(X, "list", S, dim)
    if exc is not None:
        return viol("partial_transpose raised on a Kronecker product: " + exc_text(exc), site=PT + ":exception", observed=exc_text(exc))
    if not lb.same_cells(got, exp):
        return viol("PT_S(kron A_k) != kron(A_k^T for k in S, A_k otherwise)", site=PT + ":factor", observed=small(got),
                    expected=small(np.array(exp, dtype=object)))
    return ok(pt_nontrivial(rd, cd, S))


# ------------------------------------------------------------------------------------------------ C03.pt_derived
def pt_derived_cases(tier, seed):
    for rd in square_dims(tier):
        for S in lb.sublists_in_every_order(len(rd)):
            if len(rd) == 4 and S != sorted(S) and S != sorted(S, reverse=True):
                continue
            yield {"rdims": rd, "cdims": rd, "sys": S}
    for rd, cd in rect_dims(tier):
        for S in lb.sublists_in_every_order(len(rd)):
            yield {"rdims": rd, "cdims": cd, "sys": S}


def pt_derived_check(case):
    """involution; S = all subsystems => ordinary transpose; PT_S(X) = (PT_{S^c}(X))^T."""
    rd, cd, S = case["rdims"], case["cdims"], case["sys"]
    n = len(rd)
    X = lb.labelled(ti.prod(rd), ti.prod(cd), "complex")

    def dimarg(r, c):
        return list(r) if (n == 1) else [list(r), list(c)]

    Y, exc = run_ptr(X.copy(), "list", S, dimarg(rd, cd))
    if exc is not None:
        return viol("partial_transpose raised: " + exc_text(exc), site=PT + ":exception", observed=exc_text(exc))
    Y = np.asarray(Y)
    rd2 = [cd[k] if k in S else rd[k] for k in range(n)]
    cd2 = [rd[k] if k in S else cd[k] for k in range(n)]
    calls = 2
    Z, exc = run_ptr(Y.copy(), "list", S, dimarg(rd2, cd2))
    if exc is not None:
        return viol("second application raised: " + exc_text(exc), site=PT + ":exception", observed=exc_text(exc))
    if np.asarray(Z).shape != X.shape or not np.array_equal(np.asarray(Z), X):
        return viol("partial transpose is not an involution (second call given the exchanged dims)", site=PT + ":involution")
    comp = [k for k in range(n) if k not in S]
    if not comp:
        if Y.shape != X.T.shape or not np.array_equal(Y, X.T):
            return viol("transposing every subsystem is not the ordinary transpose", site=PT + ":full_transpose")
    else:
        for C in (comp, comp[::-1]) if len(comp) > 1 else (comp,):
            W, exc = run_ptr(X.copy(), "list", C, dimarg(rd, cd))
            calls += 1
            if exc is not None:
                return viol("partial_transpose on the complement raised: " + exc_text(exc), site=PT + ":exception", observed=exc_text(exc))
            W = np.asarray(W)
            if W.T.shape != Y.shape or not np.array_equal(W.T, Y):
                return viol("PT_S(X) != (PT_{S^c}(X))^T", site=PT + ":complement")
    return ok(pt_nontrivial(rd, cd, S), calls=calls)


# ------------------------------------------------------------------------------------------------ C03.pt_cvxpy
def pt_cvx_cases(tier, seed):
    nmax = 12 if tier == "quick" else 16
    for rd in square_dims(tier):
        if ti.prod(rd) > nmax:
            continue
        for sform, s, S in sys_alphabet(len(rd)):
            for dform in pt_dim_forms(rd, rd):
                if (tier == "quick" or len(rd) >= 4) and (sform == "ndarray" or dform.endswith("_nd")):
                    continue  # the Variable branch forwards sys/dim unchanged; ndarray forms: C03.pt_index, and here in thorough for n<=3
                for kind in ("real", "complex", "hermitian"):
                    yield {"rdims": rd, "cdims": rd, "sysform": sform, "sys": s, "dimform": dform, "var": kind}
    for rd, cd in rect_dims(tier):
        if ti.prod(rd) > nmax or ti.prod(cd) > nmax:
            continue
        for sform, s, S in sys_alphabet(len(rd)):
            for dform in pt_dim_forms(rd, cd):
                if tier == "quick" and (sform == "ndarray" or dform.endswith("_nd")):
                    continue
                for kind in ("real", "complex"):
                    yield {"rdims": rd, "cdims": cd, "sysform": sform, "sys": s, "dimform": dform, "var": kind}


def pt_cvx_check(case):
    from cvxpy.expressions.expression import Expression

    rd, cd, kind = case["rdims"], case["cdims"], case["var"]
    S = S_of(case)
    R, C = ti.prod(rd), ti.prod(cd)
    V = make_variable(R, C, kind)
    V.value = held_values(R, C, kind, 0)
    expr, exc = run_ptr(V, case["sysform"], case["sys"], pt_dim_arg(rd, cd, case["dimform"]))
    if exc is not None:
        return viol("partial_transpose raised on a cvxpy Variable: " + exc_text(exc), site=PT + ":cvxpy_exception", observed=exc_text(exc))
    if not isinstance(expr, Expression):
        return viol(f"Variable input returned {type(expr).__name__}, not a cvxpy expression", site=PT + ":cvxpy_type")
    for which in (0, 1):
        A = held_values(R, C, kind, which)
        V.value = A
        val, exc = call(lambda: expr.value)
        if exc is not None or val is None:
            return viol("'.value' of the returned expression unavailable: " + (exc_text(exc) if exc else "None"), site=PT + ":cvxpy_value")
        ord_, ocd, exp = pt_expected(A, rd, cd, S)
        if np.asarray(val).shape != (ti.prod(ord_), ti.prod(ocd)) or not lb.close_cells(val, exp):
            return viol(f"'.value' of the expression (held array #{which}) is not the partial transpose", site=PT + ":cvxpy_value",
                        observed=small(np.asarray(val)), expected=small(np.array(exp)))
        arr, exc = run_ptr(A.copy(), case["sysform"], case["sys"], pt_dim_arg(rd, cd, case["dimform"]))
        if exc is not None:
            return viol("ndarray call raised: " + exc_text(exc), site=PT + ":exception", observed=exc_text(exc))
        if np.asarray(arr).shape != np.asarray(val).shape or not lb.close_cells(arr, exp):
            return viol("ndarray result differs from the oracle (and hence from the Variable result)", site=PT + ":index")
    return ok(pt_nontrivial(rd, cd, S), calls=3)


# ------------------------------------------------------------------------------------------------ C03.realign_index
def realign_shapes(tier):
    alpha = (2, 3, 4) if tier == "quick" else (2, 3, 4, 5)
    # ... plus shapes with a 49 (see pt_index_cases: (1/49)*49 != 1 in floating point)
    return [list(t) for t in itertools.product(alpha, repeat=4)] + [[2, 49, 49, 2], [7, 7, 7, 7], [49, 2, 2, 3], [1, 49, 49, 1]]


def realign_forms(r1, r2, c1, c2):
    forms = ["2x2", "2x2_nd"]
    if (r1, r2) == (c1, c2):
        forms += ["flat", "flat_nd", "int"]
    if r1 == r2 and c1 == c2:
        forms.append("omitted")
    return forms


def realign_dim_arg(r1, r2, c1, c2, form):
    if form == "2x2":
        return [[r1, r2], [c1, c2]]
    if form == "2x2_nd":
        return np.array([[r1, r2], [c1, c2]])
    if form == "flat":
        return [r1, r2]
    if form == "flat_nd":
        return np.array([r1, r2])
    if form == "int":
        return int(r1)
    if form == "omitted":
        return None
    raise KeyError(form)


def run_re(X, dim):
    from toqito.channels import realignment

    if dim is None:
        return call(realignment, X)
    return call(realignment, X, dim)


def realign_index_cases(tier, seed):
    for r1, r2, c1, c2 in realign_shapes(tier):
        for form in realign_forms(r1, r2, c1, c2):
            for ent in ("sym", "int", "intB", "float", "complex", "ctiny", "neardiag", "nearzero"):
                yield {"shape": [r1, r2, c1, c2], "dimform": form, "entries": ent}


def realign_index_check(case):
    r1, r2, c1, c2 = case["shape"]
    form = case["dimform"]
    X = lb.labelled(r1 * r2, c1 * c2, case["entries"])
    exp = lb.gather_expected(X, ti.realignment_src(r1, r2, c1, c2))
    got, exc = run_re(X.copy(), realign_dim_arg(r1, r2, c1, c2, form))
    rect = "rect" if (r1, r2) != (c1, c2) else "square"
    if exc is not None:
        return viol(f"realignment raised on an in-domain bipartite operator ({form} dim, {rect}): " + exc_text(exc),
                    site=f"{RE}:exception:{form}:{rect}", observed=exc_text(exc))
    g = np.asarray(got)
    if g.shape != (r1 * c1, r2 * c2):
        return viol(f"output shape {g.shape}, expected {(r1 * c1, r2 * c2)}", site=RE + ":shape", observed=list(g.shape),
                    expected=[r1 * c1, r2 * c2])
    if not lb.same_cells(g, exp):
        return viol("R[(i1,j1),(i2,j2)] != X[(i1,i2),(j1,j2)]", site=RE + ":index", observed=small(g), expected=small(np.array(exp, dtype=object)))
    return ok(True)


# ------------------------------------------------------------------------------------------------ C03.realign_kron
def realign_kron_cases(tier, seed):
    for r1, r2, c1, c2 in realign_shapes(tier):
        for flavour in ("int64", "complex"):
            yield {"shape": [r1, r2, c1, c2], "flavour": flavour}


def realign_kron_check(case):
    """The statement literally: R(A (x) B) = vec_r(A) vec_r(B)^T (row-major vec) on prime-filled factors; rank one;
    Frobenius norm preserved (exact integer sum of squared moduli) — also on a generic labelled (non-product) input."""
    r1, r2, c1, c2 = case["shape"]
    fa, fb, ga, gb = ti.prime_factors([(r1, c1), (r2, c2), (r1, c1), (r2, c2)])
    if case["flavour"] == "int64":
        A, B = np.array(fa, dtype=np.int64), np.array(fb, dtype=np.int64)
    else:
        A = np.array(fa, dtype=np.int64) + 1j * np.array(ga, dtype=np.int64)
        B = np.array(fb, dtype=np.int64) - 1j * np.array(gb, dtype=np.int64)
    X = np.kron(A, B)
    va = [x for row in A.tolist() for x in row]  # row-major vectorisation
    vb = [x for row in B.tolist() for x in row]
    exp = [[a * b for b in vb] for a in va]
    assert lb.gather_expected(X, ti.realignment_src(r1, r2, c1, c2)) == exp, "reference models disagree (index vs vec-vec^T oracle)"
    got, exc = run_re(X.copy(), [[r1, r2], [c1, c2]])
    if exc is not None:
        return viol("realignment raised on a Kronecker product: " + exc_text(exc), site=RE + ":exception", observed=exc_text(exc))
    g = np.asarray(got)
    if g.shape != (r1 * c1, r2 * c2) or not lb.same_cells(g, exp):
        return viol("R(A (x) B) != vec(A) vec(B)^T (row-major vec)", site=RE + ":kron", observed=small(g), expected=small(np.array(exp)))

    def frob2(M):
        tot = 0
        for v in np.asarray(M).ravel().tolist():
            v = complex(v)
            tot += int(round(v.real)) ** 2 + int(round(v.imag)) ** 2
        return tot

    Yl = lb.labelled(r1 * r2, c1 * c2, "complex" if case["flavour"] == "complex" else "intB")
    got2, exc = run_re(Yl.copy(), [[r1, r2], [c1, c2]])
    if exc is not None:
        return viol("realignment raised: " + exc_text(exc), site=RE + ":exception", observed=exc_text(exc))
    if frob2(g) != frob2(X) or frob2(got2) != frob2(Yl):
        return viol("Frobenius norm not preserved", site=RE + ":frobenius", observed=[frob2(g), frob2(got2)], expected=[frob2(X), frob2(Yl)])
    if sorted(map(repr, np.asarray(got2).ravel().tolist())) != sorted(map(repr, Yl.ravel().tolist())):
        return viol("realignment is not a rearrangement of the entries", site=RE + ":multiset")
    return ok(True, calls=2)


def _alph(tier, seed):
    return {"square_dims": len(square_dims(tier)), "rect_dim_pairs": len(rect_dims(tier)),
            "sys_forms": "every listing order as list and ndarray + bare int + omitted",
            "dim_forms": ["flat", "flat_nd", "2row", "2row_nd", "omitted"], "entries": ["sym", "int", "intB", "float", "complex"],
            "realignment_shapes": len(realign_shapes(tier)), "realignment_dim_forms": ["2x2", "2x2_nd", "flat", "flat_nd", "int", "omitted"]}


# ------------------------------------------------------------------------------------------------ C03.pt_many_subsystems
# Same defect class as C02.many_subsystems (untouched subsystems taken in hash-table order from nine subsystems on): qubit systems with
# 8..10 subsystems, oracle = numpy axis exchange on exact int64 labels.
PT_MANY = {8: [[0, 2, 3, 4, 5, 7], [7, 5, 4, 3, 2, 0], [1]], 9: [[0, 2, 3, 4, 5, 6, 8], [1, 2, 3, 4, 6, 7, 8], [8, 1]],
           10: [[0, 2, 3, 4, 5, 6, 7, 9], [1, 2, 3, 4, 5, 6, 7, 8], [9, 7, 6, 5, 4, 3, 2, 0], [8, 1]]}


def pt_many_cases(tier, seed):
    # 17..24 subsystems most of which are one-dimensional (cf. seeded change C02-9: bookkeeping that is only right up to 16 subsystems)
    for n in (17, 20, 24):
        for places in ((3, 12, 13), (0, 1, n - 1), (5, n // 2, n - 2)):
            for vals in ((2, 3, 2), (3, 2, 2)):
                dims = [1] * n
                for pl, v in zip(places, vals):
                    dims[pl] = v
                for sys_ in ([places[1]], [places[2], places[0]], [7, places[1], 4], list(range(1, n, 2))):
                    yield {"dims": dims, "sys": list(dict.fromkeys(sys_))}
    for n in (8, 9, 10):
        for sys_ in PT_MANY[n]:
            yield {"n": n, "sys": sys_}


def pt_many_check(case):
    from toqito.channels import partial_transpose

    sys_ = case["sys"]
    dims = list(case["dims"]) if "dims" in case else [2] * case["n"]
    n = len(dims)
    N = ti.prod(dims)
    idx = np.arange(N * N, dtype=np.int64).reshape(N, N)
    X = (idx * 7919 + 13) % 1000003 + 1
    T = X.reshape(dims + dims)
    axes = list(range(2 * n))
    for k in sys_:
        axes[k], axes[n + k] = n + k, k
    exp = np.transpose(T, axes).reshape(N, N)
    got, exc = call(partial_transpose, X.copy(), list(sys_), list(dims))
    if exc is not None:
        return viol("partial_transpose raised on a many-qubit operator: " + exc_text(exc), site=PT + ":exception:many")
    g = np.asarray(got)
    if g.shape != exp.shape or not np.array_equal(g.astype(np.int64), exp):
        return viol(f"partial transpose over {sys_} of {n} qubits does not exchange exactly those indices", site=PT + ":many_subsystems")
    return ok(True)


CLAUSES = [
    Clause("C03.pt_index", pt_index_cases, pt_index_check, alphabets=_alph, weight=0.003,
           doc="partial_transpose vs integer index oracle: square (dims with 1) and rectangular, all sys/dim forms, 5 labellings"),
    Clause("C03.pt_factor", pt_factor_cases, pt_factor_check,
           doc="PT_S(kron A_k) = kron(A_k^T on S) on prime-filled (rectangular) factors; index oracle == factor oracle"),
    Clause("C03.pt_derived", pt_derived_cases, pt_derived_check,
           doc="involution (with exchanged dims), S=all => X.T, PT_S = (PT_{S^c})^T"),
    Clause("C03.pt_cvxpy", pt_cvx_cases, pt_cvx_check, tol="alg", weight=0.01, chunk=40,
           doc="cvxpy Variable (real/complex/hermitian; square and rectangular): .value of the expression = oracle = ndarray result"),
    Clause("C03.realign_index", realign_index_cases, realign_index_check,
           doc="realignment vs index oracle on square and rectangular bipartite inputs, dim omitted / int / [d1,d2] / 2x2"),
    Clause("C03.realign_kron", realign_kron_cases, realign_kron_check,
           doc="R(A (x) B) = vec(A) vec(B)^T on prime-filled factors; Frobenius norm and entry multiset preserved"),
    Clause("C03.pt_many_subsystems", pt_many_cases, pt_many_check, chunk=1, weight=2.0, probe=1,
           doc="8..10 qubits and 17..24 subsystems most of which are one-dimensional: exactly the listed row/column indices exchanged, the others left in place and in order"),
]

# every toqito call of this property is repeated with column-major copies of its array arguments (engine.call, layout twin)
for _c in CLAUSES:
    _c.layout_twin = True
    _c.strided_twin = True  # and with strided read-only views (engine.call)
    _c.repeat_twin = True  # repeated calls agree; scribbling over a returned array must not affect later calls (engine.call)
